#!/usr/bin/env python3
"""setup_cmd: build the whole framework offline from files on disk (Coq development, extracted
drivers, instrumented library builds, harnesses)."""
import importlib
import json
import os
import sys
import concurrent.futures as cf

ROOT = os.path.dirname(os.path.dirname(os.path.abspath(__file__)))
sys.path.insert(0, os.path.join(ROOT, "tools"))
sys.path.insert(0, os.path.join(ROOT, "tools", "checks"))
import vlib
import translate


def main():
    os.chdir(ROOT)
    try:
        translate.run(None)
    except translate.TranslateError as ex:
        print("translator:", ex)
    # generated files that are not written by translate.py (PrimFloat twins of translated kernels, the flag table of C06)
    for modname, fn in (("c07", "gen_float_twin"), ("c19", "gen_float_twin"), ("c06", "gen_flags"), ("c19_params", "generate"), ("c07", "gen_q_twin")):
        try:
            getattr(importlib.import_module(modname), fn)()
        except Exception as ex:  # noqa
            print("generator %s.%s: %s" % (modname, fn, str(ex)[-300:]))
    vlib.coq_setup()
    rc, out = vlib.sh("timeout 3000 make -k -j%d" % vlib.NCPU, cwd=vlib.COQ, timeout=3100)
    print(out[-1500:])
    if rc != 0:
        print("WARNING: coq build incomplete")
    man = json.load(open(os.path.join(ROOT, "MANIFEST.json")))
    mods = []
    for c in man["checks"]:
        try:
            mods.append(importlib.import_module(c["property_id"].lower()))
        except Exception as ex:  # noqa
            print("cannot import", c["property_id"], ex)
    variants = set()
    for m in mods:
        variants.update(getattr(m, "VARIANTS", []))
    for v in sorted(variants):
        print("building library variant", v, flush=True)
        vlib.build_repo(v)
    # harnesses + drivers in parallel
    with cf.ThreadPoolExecutor(max_workers=6) as ex:
        futs = [ex.submit(m.setup) for m in mods if hasattr(m, "setup")]
        for f in futs:
            try:
                f.result()
            except Exception as e:  # noqa
                print("setup step failed:", str(e)[-1500:])
    print("setup done")
    return 0


if __name__ == "__main__":
    sys.exit(main())
