"""kernels of the quasi-Newton algebra (C01, stage C01Q): the boolean decisions of src/solver/quasi.cpp and
src/solver/lbfgs.cpp.  Own group "c01q" (generated/Src_c01q.v).

The compared quantities are doubles; the translator emits the comparison over Z.  The model (coq/theories/C01Q_Defs.v)
applies each kernel to the images of both sides under the monotone map t |-> sign(t - rhs) in {-1, 0, 1}, which decides
`lhs OP rhs` exactly; C01Q_Proofs.v (`kernels_c01q`) pins the shape of every kernel, so that a changed operator, constant
or operand breaks a named obligation, and the driver's kernel-free mirrors turn it into a concrete input."""
_Q = "src/solver/quasi.cpp"
_L = "src/solver/lbfgs.cpp"
_P = ["C01Q"]

_FL = r"void FLETCHER\(matrix_t& H, const tvector& dx, const tvector& dg\)\s*\{"

KERNELS = [
    # FLETCHER: the three-way branch on phi
    K("src_fletcher_dfp", _Q, _FL + r".*?if \((phi [^)]*\(0\))\)\s*\{\s*DFP\(H, dx, dg\);",
      [(r"scalar_t\(0\)", "zero")], [("phi", "Z"), ("zero", "Z")], "c01q", _P),
    K("src_fletcher_bfgs", _Q, _FL + r".*?else if \((phi [^)]*\(1\))\)\s*\{\s*BFGS\(H, dx, dg\);",
      [(r"scalar_t\(1\)", "one")], [("phi", "Z"), ("one", "Z")], "c01q", _P),
    # SR1 safeguard: apply = |denom| >= r * |dx| * |dx - H dg|
    K("src_sr1_apply", _Q, r"const auto apply = (.*?);",
      [(r"std::fabs\(denom\)", "adenom"), (r"dx\.norm\(\)", "ndx"), (r"\(dx - H \* dg\)\.norm\(\)", "nv")],
      [("adenom", "Z"), ("r", "Z"), ("ndx", "Z"), ("nv", "Z")], "c01q", _P),
    # L-BFGS: the history bound (pop_front after emplace_back)
    K("src_lbfgs_pop", _L, r"ys\.emplace_back\([^;]*;\s*if \((.*?)\)\s*\{\s*ss\.pop_front\(\);",
      [(r"ss\.size\(\)", "size")], [("size", "Z"), ("history", "Z")], "c01q", _P),
    # L-BFGS: which stored pair each loop visits at step j (first loop: newest first; second loop: oldest first;
    # the scaling pair; the alpha the second loop pairs with ss[j])
    K("src_lbfgs_loop1_index", _L, r"for \(size_t j = 0; j < hsize; \+\+j\)\s*\{\s*const auto& s = ss\[(.*?)\];",
      [], [("hsize", "Z"), ("j", "Z")], "c01q", _P, pick=0),
    K("src_lbfgs_scale_index", _L, r"else\s*\{\s*const auto& s = ss\[(.*?)\];\s*const auto& y = ys\[[^\]]*\];\s*r = ",
      [], [("hsize", "Z")], "c01q", _P),
    K("src_lbfgs_loop2_index", _L, r"for \(size_t j = 0; j < hsize; \+\+j\)\s*\{\s*const auto& s = ss\[(.*?)\];",
      [], [("hsize", "Z"), ("j", "Z")], "c01q", _P, pick=1),
    K("src_lbfgs_loop2_alpha", _L, r"const scalar_t alpha = alphas\[(.*?)\];",
      [], [("hsize", "Z"), ("j", "Z")], "c01q", _P),
]
