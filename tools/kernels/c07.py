"""kernels of the line-search code (C07): the acceptance predicates of src/solver/state.cpp (+ has_descent of
state.h), the interpolation formulas of src/solver/lstep.cpp and the step-size constants/guard of src/lsearchk.cpp.

These are *floating-point* expressions. tools/translate.py only knows integer expressions, so the kernels are
first translated structurally (group "c07", file coq/generated/Src_c07.v, typed over Z -- that file is only an
intermediate and is never imported by the model) and tools/checks/c07.py then rewrites every definition into its
PrimFloat reading (coq/generated/Src_c07_flt.v: + - * stay, Z.quot -> /, Z.leb/ltb/geb/gtb -> PrimFloat.leb/ltb with
swapped arguments for >=/>, integer literals -> float literals), which is what C07_Defs.v imports. The atoms below
only rename member accesses (`u.g` -> `ug`) and strip the `.0` of integral floating literals; sub-expressions the
translator does not know (std::fabs(..), std::sqrt(..), std::clamp(..), 0.5) become named inputs supplied by the
model."""

_ST = "src/solver/state.cpp"
_SH = "include/nano/solver/state.h"
_LS = "src/solver/lstep.cpp"
_LK = "src/lsearchk.cpp"

_DG = [(r"origin\.dg\(descent\)", "dg0"), (r"\bdg\(descent\)", "dg"), (r"origin\.fx\(\)", "f0"), (r"\bm_fx\b", "fx"),
       (r"\b(\d+)\.0\b", r"\1")]
_UV = [(r"\bu\.t\b", "ut"), (r"\bu\.f\b", "uf"), (r"\bu\.g\b", "ug"), (r"\bv\.t\b", "vt"), (r"\bv\.f\b", "vf"),
       (r"\bv\.g\b", "vg"), (r"\b0\.5\b", "half"), (r"\b(\d+)\.0\b", r"\1")]
_UVA = [("ut", "Z"), ("uf", "Z"), ("ug", "Z"), ("vt", "Z"), ("vf", "Z"), ("vg", "Z")]

KERNELS = [
    # ---- predicates ------------------------------------------------------------------------------------------
    K("src_has_descent", _SH,
      r"bool\s+has_descent\(const vector_t& descent\) const\s*\{\s*return\s+(.*?);\s*\}",
      _DG, [("dg", "Z")], "c07", ["C07"]),
    K("src_has_armijo", _ST,
      r"bool\s+solver_state_t::has_armijo\(.*?\{.*?return\s+(.*?);",
      _DG, [("fx", "Z"), ("f0", "Z"), ("step_size", "Z"), ("c1", "Z"), ("dg0", "Z")], "c07", ["C07"]),
    K("src_has_approx_armijo", _ST,
      r"bool\s+solver_state_t::has_approx_armijo\(.*?\{.*?return\s+(.*?);",
      _DG, [("fx", "Z"), ("f0", "Z"), ("epsilon", "Z")], "c07", ["C07"]),
    K("src_has_wolfe", _ST,
      r"bool\s+solver_state_t::has_wolfe\(.*?\{.*?return\s+(.*?);",
      _DG, [("dg", "Z"), ("c2", "Z"), ("dg0", "Z")], "c07", ["C07"]),
    K("src_has_strong_wolfe", _ST,
      r"bool\s+solver_state_t::has_strong_wolfe\(.*?\{.*?return\s+(.*?);",
      [(r"std::fabs\(origin\.dg\(descent\)\)", "adg0"), (r"std::fabs\(dg\(descent\)\)", "adg")] + _DG,
      [("adg", "Z"), ("c2", "Z"), ("adg0", "Z")], "c07", ["C07"]),
    K("src_has_approx_wolfe", _ST,
      r"bool\s+solver_state_t::has_approx_wolfe\(.*?\{.*?return\s+(.*?);",
      _DG, [("dg", "Z"), ("c1", "Z"), ("c2", "Z"), ("dg0", "Z")], "c07", ["C07"]),
    # ---- interpolation (lstep.cpp) -----------------------------------------------------------------------------
    K("src_cubic_d1", _LS,
      r"lsearch_step_t::cubic\(.*?\{\s*const auto d1\s*=\s*(.*?);",
      _UV, _UVA, "c07", ["C07"]),
    K("src_cubic_sign", _LS,
      r"lsearch_step_t::cubic\(.*?const auto d2\s*=\s*\((.*?)\)\s*\*\s*std::sqrt\(",
      _UV, _UVA, "c07", ["C07"]),
    K("src_cubic_disc", _LS,
      r"lsearch_step_t::cubic\(.*?const auto d2\s*=\s*\(.*?\)\s*\*\s*std::sqrt\((.*?)\);",
      _UV, _UVA + [("d1", "Z")], "c07", ["C07"]),
    K("src_cubic_ret", _LS,
      r"lsearch_step_t::cubic\(.*?const auto d2\s*=[^;]*;\s*return\s+(.*?);",
      _UV, _UVA + [("d1", "Z"), ("d2", "Z")], "c07", ["C07"]),
    K("src_quadratic_dt", _LS,
      r"lsearch_step_t::quadratic\(.*?\{\s*const auto dt\s*=\s*(.*?);",
      _UV, _UVA, "c07", ["C07"]),
    K("src_quadratic_df", _LS,
      r"lsearch_step_t::quadratic\(.*?const auto df\s*=\s*(.*?);",
      _UV, _UVA, "c07", ["C07"]),
    K("src_quadratic_ret", _LS,
      r"lsearch_step_t::quadratic\(.*?\*convexity\s*=[^;]*;\s*\}\s*return\s+(.*?);",
      _UV, _UVA + [("dt", "Z"), ("df", "Z"), ("half", "Z")], "c07", ["C07"]),
    K("src_secant", _LS,
      r"lsearch_step_t::secant\(.*?\{\s*return\s+(.*?);",
      _UV, _UVA, "c07", ["C07"]),
    K("src_bisection", _LS,
      r"lsearch_step_t::bisection\(.*?\{\s*return\s+(.*?);",
      _UV, _UVA + [("half", "Z")], "c07", ["C07"]),
    # ---- lsearchk.cpp: initial step guard and the step bounds --------------------------------------------------
    K("src_ls_init_step", _LK,
      r"const auto state0 = state;\s*step_size\s*=\s*(.*?);",
      [(r"std::isfinite\(step_size\)", "fin"), (r"std::clamp\(step_size, stpmin\(\), 1\.0\)", "clamped"),
       (r"scalar_t\((\d+)\)", r"\1")],
      [("fin", "bool"), ("clamped", "Z")], "c07", ["C07"]),
    # the guard right after the initial `*0.3` loop (commit 0701278): fail when no valid initial step was found
    K("src_ls_stale_guard", _LK,
      r"initial step length is too large!\\n\"\);\s*\}\s*if \((.*?)\)\s*\{\s*return \{false, step_size\};",
      [(r"state\.valid\(\)", "valid")], [("valid", "bool")], "c07", ["C07"]),
    K("src_ls_stpmin", _LK,
      r"scalar_t\s+lsearchk_t::stpmin\(\)\s*\{\s*return\s+(.*?);",
      [(r"scalar_t\((\d+)\)", r"\1"), (r"std::numeric_limits<scalar_t>::epsilon\(\)", "eps")],
      [("eps", "Z")], "c07", ["C07"]),
    K("src_ls_stpmax", _LK,
      r"scalar_t\s+lsearchk_t::stpmax\(\)\s*\{\s*return\s+(.*?);",
      [(r"scalar_t\((\d+)\)", r"\1"), (r"stpmin\(\)", "stpmin")],
      [("stpmin", "Z")], "c07", ["C07"]),
]

# ---- More-Thuente (morethuente.cpp): the five `return {true, stp}` tests in source order, ftest / gtest -----------
_MT = "src/lsearchk/morethuente.cpp"
_MTA = [(r"stpmax\(\)", "stpmax"), (r"stpmin\(\)", "stpmin"), (r"std::fabs\(g\)", "ag"), (r"scalar_t\((\d+)\)", r"\1")]
_MTX = r"if \(([^{};]*?)\)\s*\{\s*return \{true, stp\};"

KERNELS += [
    K("src_mth_gtest", _MT, r"const auto gtest\s*=\s*(.*?);", [], [("ftol", "Z"), ("ginit", "Z")], "c07", ["C07"]),
    K("src_mth_ftest", _MT, r"const auto ftest\s*=\s*(.*?);", [], [("finit", "Z"), ("stp", "Z"), ("gtest", "Z")],
      "c07", ["C07"]),
    K("src_mth_exit_rounding", _MT, _MTX, _MTA,
      [("brackt", "bool"), ("stp", "Z"), ("stmin", "Z"), ("stmax", "Z")], "c07", ["C07"], pick=0),
    K("src_mth_exit_collapsed", _MT, _MTX, _MTA,
      [("brackt", "bool"), ("stmin", "Z"), ("stmax", "Z"), ("xtol", "Z")], "c07", ["C07"], pick=1),
    K("src_mth_exit_stpmax", _MT, _MTX, _MTA,
      [("stp", "Z"), ("stpmax", "Z"), ("f", "Z"), ("ftest", "Z"), ("g", "Z"), ("gtest", "Z")], "c07", ["C07"], pick=2),
    K("src_mth_exit_stpmin", _MT, _MTX, _MTA,
      [("stp", "Z"), ("stpmin", "Z"), ("f", "Z"), ("ftest", "Z"), ("g", "Z"), ("gtest", "Z")], "c07", ["C07"], pick=3),
    K("src_mth_converged", _MT, _MTX, _MTA,
      [("f", "Z"), ("ftest", "Z"), ("ag", "Z"), ("g", "Z"), ("gtol", "Z"), ("ginit", "Z")], "c07", ["C07"], pick=4),
    # "no further progress -> stp = stx" inside the iteration
    K("src_mth_noprogress", _MT, r"if \(([^{};]*?)\)\s*\{\s*stp = stx;", _MTA,
      [("brackt", "bool"), ("stp", "Z"), ("stmin", "Z"), ("stmax", "Z"), ("xtol", "Z")], "c07", ["C07"]),
]

# ---- CG_DESCENT (cgdescent.cpp): interval_t::done and epsilon_k ---------------------------------------------------
_CG = "src/lsearchk/cgdescent.cpp"
_CGA = [(r"a\.f\b", "af"), (r"a\.t\b", "a_t"), (r"b\.g\b", "bg"), (r"b\.t\b", "b_t"), (r"state0\.fx\(\)", "f0"),
        (r"c\.valid\(\)", "valid"), (r"\b(\d+)\.0\b", r"\1"),
        (r"c\.has_armijo\(state0, descent, step_size, c1\)", "armijo"), (r"c\.has_wolfe\(state0, descent, c2\)", "wolfe"),
        (r"c\.has_approx_armijo\(state0, epsilonk\)", "approx_armijo"),
        (r"c\.has_approx_wolfe\(state0, descent, c1, c2\)", "approx_wolfe")]

KERNELS += [
    K("src_cg_epsilonk", _CG, r"lsearchk::cgdescent::gamma\"\)\.value<scalar_t>\(\),\s*(.*?)\};",
      [(r"configurable\.parameter\(\"lsearchk::cgdescent::epsilon\"\)\.value<scalar_t>\(\)", "epsilon"),
       (r"std::fabs\(state0\.fx\(\)\)", "af0")], [("epsilon", "Z"), ("af0", "Z")], "c07", ["C07"]),
    K("src_cg_done_failed", _CG, r"assert\(a\.g < 0\.0\);\s*if \((.*?)\)\s*\{\s*return true;", _CGA,
      [("bracketed", "bool"), ("af", "Z"), ("f0", "Z"), ("epsilonk", "Z"), ("bg", "Z"), ("valid", "bool")], "c07", ["C07"]),
    K("src_cg_done_outside", _CG, r"return true;\s*\}\s*else if \((.*?)\)\s*\{\s*return false;", _CGA,
      [("step_size", "Z"), ("a_t", "Z"), ("b_t", "Z")], "c07", ["C07"]),
    K("src_cg_done_accept", _CG, r"return false;\s*\}\s*else\s*\{\s*return\s+(.*?);", _CGA,
      [("armijo", "bool"), ("wolfe", "bool"), ("approx_armijo", "bool"), ("approx_wolfe", "bool")], "c07", ["C07"]),
]

# ---- lsearchk.cpp: the registered default of lsearchk::max_iterations (an integer: read from Src_c07.v, the Z reading) ----
KERNELS += [
    K("src_ls_default_max_iterations", _LK,
      r"make_integer\(\"lsearchk::max_iterations\",\s*\d+,\s*LE,\s*(\d+),\s*LE,\s*\d+\)", [], [], "c07", ["C07"]),
    K("src_ls_min_max_iterations", _LK,
      r"make_integer\(\"lsearchk::max_iterations\",\s*(\d+),\s*LE,\s*\d+,\s*LE,\s*\d+\)", [], [], "c07", ["C07"]),
]
