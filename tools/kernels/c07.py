"""kernels of the line-search code (C07): the acceptance predicates of src/solver/state.cpp (+ has_descent of
state.h), the interpolation formulas of src/solver/lstep.cpp and the step-size constants/guard of src/lsearchk.cpp.

These are *floating-point* expressions. tools/translate.py only knows integer expressions, so the kernels are
first translated structurally (group "c07", file coq/generated/Src_c07.v, typed over Z -- that file is only an
intermediate and is never imported by the model) and tools/checks/c07.py then rewrites every definition into its
PrimFloat reading (coq/generated/Src_c07_flt.v: + - * stay, Z.quot -> /, Z.leb/ltb/geb/gtb -> PrimFloat.leb/ltb with
swapped arguments for >=/>, integer literals -> float literals), which is what C07_Defs.v imports. The atoms below
only rename member accesses (`u.g` -> `ug`) and strip the `.0` of integral floating literals; sub-expressions the
translator does not know (std::fabs(..), std::sqrt(..), std::clamp(..), 0.5) become named inputs supplied by the
model."""

_ST = "src/solver/state.cpp"
_SH = "include/nano/solver/state.h"
_LS = "src/solver/lstep.cpp"
_LK = "src/lsearchk.cpp"

_DG = [(r"origin\.dg\(descent\)", "dg0"), (r"\bdg\(descent\)", "dg"), (r"origin\.fx\(\)", "f0"), (r"\bm_fx\b", "fx"),
       (r"\b(\d+)\.0\b", r"\1")]
_UV = [(r"\bu\.t\b", "ut"), (r"\bu\.f\b", "uf"), (r"\bu\.g\b", "ug"), (r"\bv\.t\b", "vt"), (r"\bv\.f\b", "vf"),
       (r"\bv\.g\b", "vg"), (r"\b0\.5\b", "half"), (r"\b(\d+)\.0\b", r"\1")]
_UVA = [("ut", "Z"), ("uf", "Z"), ("ug", "Z"), ("vt", "Z"), ("vf", "Z"), ("vg", "Z")]

KERNELS = [
    # ---- predicates ------------------------------------------------------------------------------------------
    K("src_has_descent", _SH,
      r"bool\s+has_descent\(const vector_t& descent\) const\s*\{\s*return\s+(.*?);\s*\}",
      _DG, [("dg", "Z")], "c07", ["C07"]),
    K("src_has_armijo", _ST,
      r"bool\s+solver_state_t::has_armijo\(.*?\{.*?return\s+(.*?);",
      _DG, [("fx", "Z"), ("f0", "Z"), ("step_size", "Z"), ("c1", "Z"), ("dg0", "Z")], "c07", ["C07"]),
    K("src_has_approx_armijo", _ST,
      r"bool\s+solver_state_t::has_approx_armijo\(.*?\{.*?return\s+(.*?);",
      _DG, [("fx", "Z"), ("f0", "Z"), ("epsilon", "Z")], "c07", ["C07"]),
    K("src_has_wolfe", _ST,
      r"bool\s+solver_state_t::has_wolfe\(.*?\{.*?return\s+(.*?);",
      _DG, [("dg", "Z"), ("c2", "Z"), ("dg0", "Z")], "c07", ["C07"]),
    K("src_has_strong_wolfe", _ST,
      r"bool\s+solver_state_t::has_strong_wolfe\(.*?\{.*?return\s+(.*?);",
      [(r"std::fabs\(origin\.dg\(descent\)\)", "adg0"), (r"std::fabs\(dg\(descent\)\)", "adg")] + _DG,
      [("adg", "Z"), ("c2", "Z"), ("adg0", "Z")], "c07", ["C07"]),
    K("src_has_approx_wolfe", _ST,
      r"bool\s+solver_state_t::has_approx_wolfe\(.*?\{.*?return\s+(.*?);",
      _DG, [("dg", "Z"), ("c1", "Z"), ("c2", "Z"), ("dg0", "Z")], "c07", ["C07"]),
    # ---- interpolation (lstep.cpp) -----------------------------------------------------------------------------
    K("src_cubic_d1", _LS,
      r"lsearch_step_t::cubic\(.*?\{\s*const auto d1\s*=\s*(.*?);",
      _UV, _UVA, "c07", ["C07"]),
    K("src_cubic_sign", _LS,
      r"lsearch_step_t::cubic\(.*?const auto d2\s*=\s*\((.*?)\)\s*\*\s*std::sqrt\(",
      _UV, _UVA, "c07", ["C07"]),
    K("src_cubic_disc", _LS,
      r"lsearch_step_t::cubic\(.*?const auto d2\s*=\s*\(.*?\)\s*\*\s*std::sqrt\((.*?)\);",
      _UV, _UVA + [("d1", "Z")], "c07", ["C07"]),
    K("src_cubic_ret", _LS,
      r"lsearch_step_t::cubic\(.*?const auto d2\s*=[^;]*;\s*return\s+(.*?);",
      _UV, _UVA + [("d1", "Z"), ("d2", "Z")], "c07", ["C07"]),
    K("src_quadratic_dt", _LS,
      r"lsearch_step_t::quadratic\(.*?\{\s*const auto dt\s*=\s*(.*?);",
      _UV, _UVA, "c07", ["C07"]),
    K("src_quadratic_df", _LS,
      r"lsearch_step_t::quadratic\(.*?const auto df\s*=\s*(.*?);",
      _UV, _UVA, "c07", ["C07"]),
    K("src_quadratic_ret", _LS,
      r"lsearch_step_t::quadratic\(.*?\*convexity\s*=[^;]*;\s*\}\s*return\s+(.*?);",
      _UV, _UVA + [("dt", "Z"), ("df", "Z"), ("half", "Z")], "c07", ["C07"]),
    K("src_secant", _LS,
      r"lsearch_step_t::secant\(.*?\{\s*return\s+(.*?);",
      _UV, _UVA, "c07", ["C07"]),
    K("src_bisection", _LS,
      r"lsearch_step_t::bisection\(.*?\{\s*return\s+(.*?);",
      _UV, _UVA + [("half", "Z")], "c07", ["C07"]),
    # ---- lsearchk.cpp: initial step guard and the step bounds --------------------------------------------------
    K("src_ls_init_step", _LK,
      r"const auto state0 = state;\s*step_size\s*=\s*(.*?);",
      [(r"std::isfinite\(step_size\)", "fin"), (r"std::clamp\(step_size, stpmin\(\), 1\.0\)", "clamped"),
       (r"scalar_t\((\d+)\)", r"\1")],
      [("fin", "bool"), ("clamped", "Z")], "c07", ["C07"]),
    # the guard right after the initial `*0.3` loop (commit 0701278): fail when no valid initial step was found
    K("src_ls_stale_guard", _LK,
      r"initial step length is too large!\\n\"\);\s*\}\s*if \((.*?)\)\s*\{\s*return \{false, step_size\};",
      [(r"state\.valid\(\)", "valid")], [("valid", "bool")], "c07", ["C07"]),
    K("src_ls_stpmin", _LK,
      r"scalar_t\s+lsearchk_t::stpmin\(\)\s*\{\s*return\s+(.*?);",
      [(r"scalar_t\((\d+)\)", r"\1"), (r"std::numeric_limits<scalar_t>::epsilon\(\)", "eps")],
      [("eps", "Z")], "c07", ["C07"]),
    K("src_ls_stpmax", _LK,
      r"scalar_t\s+lsearchk_t::stpmax\(\)\s*\{\s*return\s+(.*?);",
      [(r"scalar_t\((\d+)\)", r"\1"), (r"stpmin\(\)", "stpmin")],
      [("stpmin", "Z")], "c07", ["C07"]),
]

# ---- More-Thuente (morethuente.cpp): the five `return {true, stp}` tests in source order, ftest / gtest -----------
_MT = "src/lsearchk/morethuente.cpp"
_MTA = [(r"stpmax\(\)", "stpmax"), (r"stpmin\(\)", "stpmin"), (r"std::fabs\(g\)", "ag"), (r"scalar_t\((\d+)\)", r"\1")]
_MTX = r"if \(([^{};]*?)\)\s*\{\s*return \{true, stp\};"

KERNELS += [
    K("src_mth_gtest", _MT, r"const auto gtest\s*=\s*(.*?);", [], [("ftol", "Z"), ("ginit", "Z")], "c07", ["C07"]),
    K("src_mth_ftest", _MT, r"const auto ftest\s*=\s*(.*?);", [], [("finit", "Z"), ("stp", "Z"), ("gtest", "Z")],
      "c07", ["C07"]),
    K("src_mth_exit_rounding", _MT, _MTX, _MTA,
      [("brackt", "bool"), ("stp", "Z"), ("stmin", "Z"), ("stmax", "Z")], "c07", ["C07"], pick=0),
    K("src_mth_exit_collapsed", _MT, _MTX, _MTA,
      [("brackt", "bool"), ("stmin", "Z"), ("stmax", "Z"), ("xtol", "Z")], "c07", ["C07"], pick=1),
    K("src_mth_exit_stpmax", _MT, _MTX, _MTA,
      [("stp", "Z"), ("stpmax", "Z"), ("f", "Z"), ("ftest", "Z"), ("g", "Z"), ("gtest", "Z")], "c07", ["C07"], pick=2),
    K("src_mth_exit_stpmin", _MT, _MTX, _MTA,
      [("stp", "Z"), ("stpmin", "Z"), ("f", "Z"), ("ftest", "Z"), ("g", "Z"), ("gtest", "Z")], "c07", ["C07"], pick=3),
    K("src_mth_converged", _MT, _MTX, _MTA,
      [("f", "Z"), ("ftest", "Z"), ("ag", "Z"), ("g", "Z"), ("gtol", "Z"), ("ginit", "Z")], "c07", ["C07"], pick=4),
    # "no further progress -> stp = stx" inside the iteration
    K("src_mth_noprogress", _MT, r"if \(([^{};]*?)\)\s*\{\s*stp = stx;", _MTA,
      [("brackt", "bool"), ("stp", "Z"), ("stmin", "Z"), ("stmax", "Z"), ("xtol", "Z")], "c07", ["C07"]),
]

# ---- CG_DESCENT (cgdescent.cpp): interval_t::done and epsilon_k ---------------------------------------------------
_CG = "src/lsearchk/cgdescent.cpp"
_CGA = [(r"a\.f\b", "af"), (r"a\.t\b", "a_t"), (r"b\.g\b", "bg"), (r"b\.t\b", "b_t"), (r"state0\.fx\(\)", "f0"),
        (r"c\.valid\(\)", "valid"), (r"\b(\d+)\.0\b", r"\1"),
        (r"c\.has_armijo\(state0, descent, step_size, c1\)", "armijo"), (r"c\.has_wolfe\(state0, descent, c2\)", "wolfe"),
        (r"c\.has_approx_armijo\(state0, epsilonk\)", "approx_armijo"),
        (r"c\.has_approx_wolfe\(state0, descent, c1, c2\)", "approx_wolfe")]

KERNELS += [
    K("src_cg_epsilonk", _CG, r"lsearchk::cgdescent::gamma\"\)\.value<scalar_t>\(\),\s*(.*?)\};",
      [(r"configurable\.parameter\(\"lsearchk::cgdescent::epsilon\"\)\.value<scalar_t>\(\)", "epsilon"),
       (r"std::fabs\(state0\.fx\(\)\)", "af0")], [("epsilon", "Z"), ("af0", "Z")], "c07", ["C07"]),
    K("src_cg_done_failed", _CG, r"assert\(a\.g < 0\.0\);\s*if \((.*?)\)\s*\{\s*return true;", _CGA,
      [("bracketed", "bool"), ("af", "Z"), ("f0", "Z"), ("epsilonk", "Z"), ("bg", "Z"), ("valid", "bool")], "c07", ["C07"]),
    K("src_cg_done_outside", _CG, r"return true;\s*\}\s*else if \((.*?)\)\s*\{\s*return false;", _CGA,
      [("step_size", "Z"), ("a_t", "Z"), ("b_t", "Z")], "c07", ["C07"]),
    K("src_cg_done_accept", _CG, r"return false;\s*\}\s*else\s*\{\s*return\s+(.*?);", _CGA,
      [("armijo", "bool"), ("wolfe", "bool"), ("approx_armijo", "bool"), ("approx_wolfe", "bool")], "c07", ["C07"]),
]

# ---- lsearchk.cpp: the registered default of lsearchk::max_iterations (an integer: read from Src_c07.v, the Z reading) ----
KERNELS += [
    K("src_ls_default_max_iterations", _LK,
      r"make_integer\(\"lsearchk::max_iterations\",\s*\d+,\s*LE,\s*(\d+),\s*LE,\s*\d+\)", [], [], "c07", ["C07"]),
    K("src_ls_min_max_iterations", _LK,
      r"make_integer\(\"lsearchk::max_iterations\",\s*(\d+),\s*LE,\s*\d+,\s*LE,\s*\d+\)", [], [], "c07", ["C07"]),
]

# ---- INIT extension: the step-length initialisers lsearch0_t (src/lsearch0/*.cpp, src/lsearch0.cpp), the convexity flag of
# lsearch_step_t::quadratic and the initial m_last_step_size of lsearch_t (include/nano/solver/lsearch.h) ----------------
_L0 = "src/lsearch0.cpp"
_L0C = "src/lsearch0/constant.cpp"
_L0L = "src/lsearch0/linear.cpp"
_L0Q = "src/lsearch0/quadratic.cpp"
_L0G = "src/lsearch0/cgdescent.cpp"
_L0A = [(r"state\.gx\(\)\.lpNorm<Eigen::Infinity>\(\)", "ginf"), (r"state\.gx\(\)\.squaredNorm\(\)", "gsq"),
        (r"std::fabs\(state\.fx\(\)\)", "afx"), (r"state\.fx\(\)", "fx"), (r"state\.dg\(descent\)", "dg"),
        (r"state\.x\(\)", "x"), (r"\bdescent\b", "d"), (r"stepx\.f", "fxt"), (r"step0\.f", "f0"),
        (r"\b(\d+)\.0\b", r"\1"), (r"\b1e\+6\b", "1000000")]
_FIRST = r"if \((last_step_size\s*<[^)]*)\)"
_FIRST_T0 = r"if \(last_step_size\s*<[^)]*\)\s*\{\s*t0\s*=\s*(.*?);"

KERNELS += [
    # constant.cpp
    K("src_l0const_ret", _L0C, r"lsearch0_constant_t::get\(.*?return\s+(.*?);", _L0A, [("t0", "Z")], "c07", ["C07"]),
    # linear.cpp
    K("src_l0lin_first", _L0L, _FIRST, _L0A, [("last_step_size", "Z")], "c07", ["C07"]),
    K("src_l0lin_t0first", _L0L, _FIRST_T0, _L0A, [], "c07", ["C07"]),
    K("src_l0lin_t0", _L0L, r"\}\s*else\s*\{\s*t0\s*=\s*(.*?);", _L0A,
      [("alpha", "Z"), ("last_step_size", "Z"), ("m_prevdg", "Z"), ("beta", "Z"), ("epsilon", "Z"), ("dg", "Z")],
      "c07", ["C07"]),
    K("src_l0lin_dg", _L0L, r"const auto dg\s*=\s*(.*?);", _L0A, [("dg", "Z")], "c07", ["C07"]),
    K("src_l0lin_prevdg", _L0L, r"\bm_prevdg\s*=\s*(.*?);\s*return t0;", _L0A, [("dg", "Z")], "c07", ["C07"]),
    K("src_l0lin_prevdg0", "src/lsearch0/linear.h", r"scalar_t\s+m_prevdg\{(.*?)\};", _L0A, [], "c07", ["C07"]),
    # quadratic.cpp
    K("src_l0quad_first", _L0Q, _FIRST, _L0A, [("last_step_size", "Z")], "c07", ["C07"]),
    K("src_l0quad_t0first", _L0Q, _FIRST_T0, _L0A, [], "c07", ["C07"]),
    K("src_l0quad_t0", _L0Q, r"\}\s*else\s*\{\s*t0\s*=\s*(.*?);", _L0A,
      [("alpha", "Z"), ("m_prevf", "Z"), ("fx", "Z"), ("beta", "Z"), ("epsilon", "Z"), ("m_prevdg", "Z")],
      "c07", ["C07"]),
    K("src_l0quad_prevf", _L0Q, r"\}\s*m_prevf\s*=\s*(.*?);", _L0A, [("fx", "Z")], "c07", ["C07"]),
    K("src_l0quad_prevdg", _L0Q, r"\bm_prevdg\s*=\s*(.*?);\s*return t0;", _L0A, [("dg", "Z")], "c07", ["C07"]),
    K("src_l0quad_prevf0", "src/lsearch0/quadratic.h", r"scalar_t\s+m_prevf\{(.*?)\};", _L0A, [], "c07", ["C07"]),
    K("src_l0quad_prevdg0", "src/lsearch0/quadratic.h", r"scalar_t\s+m_prevdg\{(.*?)\};", _L0A, [], "c07", ["C07"]),
    # cgdescent.cpp: first call (Hager-Zhang I0), later calls (I1-I2: one value-only trial evaluation)
    K("src_l0cg_first", _L0G, _FIRST, _L0A, [("last_step_size", "Z")], "c07", ["C07"]),
    K("src_l0cg_fnorm", _L0G, r"const auto fnorm\s*=\s*(.*?);", _L0A, [("afx", "Z")], "c07", ["C07"]),
    K("src_l0cg_xpos", _L0G, r"if \((xnorm\s*>[^)]*)\)", _L0A, [("xnorm", "Z")], "c07", ["C07"]),
    K("src_l0cg_t0x", _L0G, r"if \(xnorm\s*>[^)]*\)\s*\{\s*t0\s*=\s*(.*?);", _L0A,
      [("phi0", "Z"), ("xnorm", "Z"), ("ginf", "Z")], "c07", ["C07"]),
    K("src_l0cg_fpos", _L0G, r"else if \((fnorm\s*>[^)]*)\)", _L0A, [("fnorm", "Z")], "c07", ["C07"]),
    K("src_l0cg_t0f", _L0G, r"else if \(fnorm\s*>[^)]*\)\s*\{\s*t0\s*=\s*(.*?);", _L0A,
      [("phi0", "Z"), ("fnorm", "Z"), ("gsq", "Z")], "c07", ["C07"]),
    K("src_l0cg_t0one", _L0G, r"else if \(fnorm\s*>[^)]*\)\s*\{[^}]*\}\s*else\s*\{\s*t0\s*=\s*(.*?);", _L0A, [], "c07", ["C07"]),
    K("src_l0cg_prevt", _L0G, r"const auto\s+prevt\s*=\s*(.*?);", _L0A, [("last_step_size", "Z")], "c07", ["C07"]),
    K("src_l0cg_trial_step", _L0G, r"const auto\s+stepx\s*=\s*lsearch_step_t\{(.*?),", _L0A,
      [("prevt", "Z"), ("phi1", "Z")], "c07", ["C07"]),
    K("src_l0cg_trial_x", _L0G, r"const auto\s+trial\s*=\s*vector_t\{(.*?)\};", _L0A,
      [("x", "Z"), ("prevt", "Z"), ("phi1", "Z"), ("d", "Z")], "c07", ["C07"]),
    K("src_l0cg_accept", _L0G, r"lsearch_step_t::quadratic\(step0, stepx, &convexity\);\s*if \((.*?)\)\s*\{", _L0A,
      [("fxt", "Z"), ("f0", "Z"), ("convexity", "bool")], "c07", ["C07"]),
    K("src_l0cg_t0grow", _L0G, r"t0\s*=\s*tq;\s*\}\s*else\s*\{\s*t0\s*=\s*(.*?);", _L0A,
      [("last_step_size", "Z"), ("phi2", "Z")], "c07", ["C07"]),
    # lstep.cpp: the strong-convexity flag of the quadratic interpolant
    K("src_quadratic_convexity", _LS, r"\*convexity\s*=\s*(.*?);", _UV, [("dt", "Z"), ("ug", "Z"), ("df", "Z")], "c07", ["C07"]),
    # lsearch.h: m_last_step_size{-1.0}
    K("src_ls_last0", "include/nano/solver/lsearch.h", r"scalar_t\s+m_last_step_size\{(.*?)\};", _L0A, [], "c07", ["C07"]),
]

# registered parameter domains `lo LT default LT hi` of the lsearch0 parameters (integral bounds; defaults are decimals)
for _nm, _file, _par in (("eps", _L0, "lsearch0::epsilon"), ("const_t0", _L0C, "lsearch0::constant::t0"),
                         ("lin_beta", _L0L, "lsearch0::linear::beta"), ("lin_alpha", _L0L, "lsearch0::linear::alpha"),
                         ("quad_beta", _L0Q, "lsearch0::quadratic::beta"), ("quad_alpha", _L0Q, "lsearch0::quadratic::alpha"),
                         ("cg_phi0", _L0G, "lsearch0::cgdescent::phi0"), ("cg_phi1", _L0G, "lsearch0::cgdescent::phi1"),
                         ("cg_phi2", _L0G, "lsearch0::cgdescent::phi2")):
    KERNELS += [
        K("src_l0dom_%s_lo" % _nm, _file, r"make_scalar\(\"%s\",\s*([^,]*?),\s*LT,\s*[^,]*?,\s*LT,\s*[^,)]*?\)" % _par, _L0A, [], "c07", ["C07"]),
        K("src_l0dom_%s_hi" % _nm, _file, r"make_scalar\(\"%s\",\s*[^,]*?,\s*LT,\s*[^,]*?,\s*LT,\s*([^,)]*?)\)" % _par, _L0A, [], "c07", ["C07"]),
    ]

# ---- QUAD extension (exact-arithmetic model C07_Quad_Defs.v): the denominators of the three interpolation formulas of lstep.cpp
# (std::isfinite of the double code = "no division by zero" in exact arithmetic), the loop guard of fletcher's zoom and the
# "R not set yet" test of lemarechal.cpp. All kernels of the group are also read over Q (Src_c07_q.v, tools/checks/c07.py: gen_q_twin).
KERNELS += [
    K("src_cubic_den", _LS, r"lsearch_step_t::cubic\(.*?return\s+[^;]*?/\s*\(([^;()]*)\);", _UV, _UVA + [("d2", "Z")], "c07", ["C07"]),
    K("src_quadratic_den", _LS, r"lsearch_step_t::quadratic\(.*?return\s+[^;]*?dt\s*/\s*\(([^;()]*)\);", _UV,
      _UVA + [("dt", "Z"), ("df", "Z")], "c07", ["C07"]),
    K("src_secant_den", _LS, r"lsearch_step_t::secant\(.*?return\s+\([^;()]*\)\s*/\s*\(([^;()]*)\);", _UV, _UVA, "c07", ["C07"]),
    K("src_lem_r_unset", "src/lsearchk/lemarechal.cpp", r"L = \{state, descent, step_size\};\s*if \((.*?)\)\s*\{",
      [(r"R\.t", "rt"), (r"epsilon0<scalar_t>\(\)", "eps0")], [("rt", "Z"), ("eps0", "Z")], "c07", ["C07"]),
    K("src_lem_extrapolate", "src/lsearchk/lemarechal.cpp", r"if \(R\.t < epsilon0<scalar_t>\(\)\)\s*\{\s*step_size\s*=\s*(.*?);",
      [(r"L\.t", "lt"), (r"\b(\d+)\.0\b", r"\1")], [("tau1", "Z"), ("lt", "Z")], "c07", ["C07"]),
    K("src_bt_interp_min", "src/lsearchk/backtrack.cpp", r"const auto interp_min\s*=\s*(.*?);", [],
      [("tmin", "Z"), ("safeguard", "Z"), ("tmax", "Z")], "c07", ["C07"]),
    K("src_bt_interp_max", "src/lsearchk/backtrack.cpp", r"const auto interp_max\s*=\s*(.*?);", [],
      [("tmin", "Z"), ("safeguard", "Z"), ("tmax", "Z")], "c07", ["C07"]),
    # lemarechal.cpp has the safeguarded range twice (Armijo-without-Wolfe branch = pick 0, Armijo-fails branch = pick 1)
    K("src_lem_interp_min_a", "src/lsearchk/lemarechal.cpp", r"const auto interp_min\s*=\s*(.*?);",
      [(r"L\.t", "lt"), (r"R\.t", "rt")], [("lt", "Z"), ("safeguard", "Z"), ("rt", "Z")], "c07", ["C07"], pick=0),
    K("src_lem_interp_max_a", "src/lsearchk/lemarechal.cpp", r"const auto interp_max\s*=\s*(.*?);",
      [(r"L\.t", "lt"), (r"R\.t", "rt")], [("lt", "Z"), ("safeguard", "Z"), ("rt", "Z")], "c07", ["C07"], pick=0),
    K("src_lem_interp_min_b", "src/lsearchk/lemarechal.cpp", r"const auto interp_min\s*=\s*(.*?);",
      [(r"L\.t", "lt"), (r"R\.t", "rt")], [("lt", "Z"), ("safeguard", "Z"), ("rt", "Z")], "c07", ["C07"], pick=1),
    K("src_lem_interp_max_b", "src/lsearchk/lemarechal.cpp", r"const auto interp_max\s*=\s*(.*?);",
      [(r"L\.t", "lt"), (r"R\.t", "rt")], [("lt", "Z"), ("safeguard", "Z"), ("rt", "Z")], "c07", ["C07"], pick=1),
    # fletcher.cpp: the extrapolation range of do_get, the safeguarded range and the loop guard of zoom, the two bracket decisions
    K("src_fl_tmin", "src/lsearchk/fletcher.cpp", r"const auto tmin\s*=\s*(curr\.t[^;]*);",
      [(r"curr\.t", "ct"), (r"prev\.t", "pt"), (r"\b(\d+)\.0\b", r"\1")], [("ct", "Z"), ("pt", "Z")], "c07", ["C07"]),
    K("src_fl_tmax", "src/lsearchk/fletcher.cpp", r"const auto tmax\s*=\s*(curr\.t[^;]*);",
      [(r"curr\.t", "ct"), (r"prev\.t", "pt")], [("ct", "Z"), ("tau1", "Z"), ("pt", "Z")], "c07", ["C07"]),
    K("src_zoom_guard", "src/lsearchk/fletcher.cpp", r"i < max_iterations && (.*?); \+\+i\)",
      [(r"std::fabs\(lo\.t - hi\.t\)", "adiff"), (r"epsilon0<scalar_t>\(\)", "eps0")], [("adiff", "Z"), ("eps0", "Z")], "c07", ["C07"]),
    K("src_zoom_tmin", "src/lsearchk/fletcher.cpp", r"\+\+i\)\s*\{\s*const auto tmin\s*=\s*(.*?);",
      [(r"std::fabs\(hi\.t - lo\.t\)", "adiff"), (r"lo\.t", "lot"), (r"hi\.t", "hit")],
      [("lot", "Z"), ("hit", "Z"), ("tau2", "Z"), ("c2", "Z"), ("adiff", "Z")], "c07", ["C07"]),
    K("src_zoom_tmax", "src/lsearchk/fletcher.cpp", r"\+\+i\)\s*\{\s*const auto tmin[^;]*;\s*const auto tmax\s*=\s*(.*?);",
      [(r"std::fabs\(hi\.t - lo\.t\)", "adiff"), (r"lo\.t", "lot"), (r"hi\.t", "hit")],
      [("lot", "Z"), ("hit", "Z"), ("tau3", "Z"), ("adiff", "Z")], "c07", ["C07"]),
    K("src_zoom_to_hi", "src/lsearchk/fletcher.cpp", r"return \{false, step_size\};\s*\}\s*else if \((.*?)\)\s*\{\s*hi = ",
      [(r"state\.has_armijo\(state0, descent, step_size, c1\)", "armijo"), (r"state\.fx\(\)", "fx"), (r"lo\.f", "lof")],
      [("armijo", "bool"), ("fx", "Z"), ("lof", "Z")], "c07", ["C07"]),
    K("src_zoom_flip", "src/lsearchk/fletcher.cpp", r"else\s*\{\s*if \((.*?)\)\s*\{\s*hi = lo;",
      [(r"state\.dg\(descent\)", "dg"), (r"lo\.t", "lot"), (r"hi\.t", "hit"), (r"\b(\d+)\.0\b", r"\1")],
      [("dg", "Z"), ("hit", "Z"), ("lot", "Z")], "c07", ["C07"]),
    K("src_fl_to_zoom", "src/lsearchk/fletcher.cpp", r"assert\(prev\.t < curr\.t\);\s*if \((.*?)\)\s*\{\s*return zoom",
      [(r"state\.has_armijo\(state0, descent, step_size, c1\)", "armijo"), (r"curr\.f", "cf"), (r"prev\.f", "pf")],
      [("armijo", "bool"), ("cf", "Z"), ("pf", "Z")], "c07", ["C07"]),
]
