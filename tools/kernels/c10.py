"""kernels of src/wlearner/{util,table,dtree}.cpp and src/dataset/iterator.cpp (C10): the small integer expressions that
select the scale factor of a table, the number of k-best candidates, the terminal test and the node/table index arithmetic
of the decision tree and the per-thread feature chunk. The least-squares arithmetic itself is modelled by hand over Q
(C10_Defs.v) and tied by the differential correspondence."""
DT = "src/wlearner/dtree.cpp"
KERNELS = [
    # wlearner::scale(): table i is multiplied by scale(min(i, size - 1)) (one factor for all, or one per table)
    K("src_c10_scale_index", "src/wlearner/util.cpp",
      r"void nano::wlearner::scale\(.*?tables\.array\(i\)\s*\*=\s*scale\((.*?)\);",
      [(r"scale\.size\(\)", "ssize")], [("i", "Z"), ("ssize", "Z")], "c10", ["C10"]),
    # score_kbest(): number of candidates k = 1..max_kbest
    K("src_c10_max_kbest", "src/wlearner/table.cpp",
      r"void score_kbest\(.*?\)\s*\{.*?\n\s*max_kbest\s*=\s*(.*?);",
      [], [("max_kbest", "Z"), ("bins", "Z")], "c10", ["C10"]),
    K("src_c10_kbest_continue", "src/wlearner/table.cpp",
      r"void score_kbest\(.*?for \(tensor_size_t kbest = 1;\s*(.*?);",
      [], [("kbest", "Z"), ("max_kbest", "Z")], "c10", ["C10"]),
    # dtree do_fit(): minimum node size and the terminal-node test
    K("src_c10_min_samples", DT,
      r"const auto min_samples_size\s*=\s*(.*?);",
      [(r"std::min<tensor_size_t>", "std::min"), (r"dataset\.samples\(\)", "samples")],
      [("samples", "Z"), ("min_split", "Z")], "c10", ["C10"]),
    K("src_c10_tree_terminal_fit", DT,
      r"if \((cache\.m_samples\.size\(\) < min_samples_size.*?)\)\s*\{",
      [(r"cache\.m_samples\.size\(\)", "size"), (r"cache\.m_depth", "depth")],
      [("size", "Z"), ("min_samples_size", "Z"), ("depth", "Z"), ("max_depth", "Z")], "c10", ["C10"]),
    # dtree do_split(): terminal test, leaf table index, index of the child entry
    K("src_c10_tree_terminal", DT,
      r"cluster_t dtree_wlearner_t::do_split\(.*?if \((node\.m_next.*?)\)",
      [(r"node\.m_next", "next")], [("next", "Z")], "c10", ["C10"]),
    K("src_c10_tree_leaf", DT,
      r"cluster_t dtree_wlearner_t::do_split\(.*?cluster\.assign\(sample,\s*(.*?)\);",
      [(r"node\.m_table", "table")], [("table", "Z"), ("group", "Z")], "c10", ["C10"]),
    K("src_c10_tree_child", DT,
      r"cluster_t dtree_wlearner_t::do_split\(.*?splits\.emplace_back\(m_nodes\[(.*?)\]\.m_next",
      [(r"split\.first", "first"), (r"static_cast<size_t>\(group\)", "group")],
      [("first", "Z"), ("group", "Z")], "c10", ["C10"]),
    # select_iterator_t::loop(samples, features, op): features per chunk handed to pool_t::map
    K("src_c10_features_per_thread", "src/dataset/iterator.cpp",
      r"auto features_per_thread\(.*?return\s+(.*?);",
      [(r"tensor_size_t\{1\}", "1"), (r"features\.size\(\)", "fsize")],
      [("fsize", "Z"), ("concurrency", "Z")], "c10", ["C10"]),
    # ---- extension (C10_Ext): selection criteria and their arguments -------------------------------------------------------
    # AIC / AICc / BIC of include/nano/core/stats.h: floating-point expressions, translated structurally with the logarithms as
    # named inputs (typed over Z like every kernel; C10_Ext.v pins the shape and reads it over the reals)
    K("src_c10_aic", "include/nano/core/stats.h",
      r"inline double AIC\(.*?return\s+(.*?);",
      [(r"std::log\(RSS\)", "logrss"), (r"std::log\(dn\)", "logn"), (r"\b(\d+)\.0\b", r"\1")],
      [("dk", "Z"), ("dn", "Z"), ("logrss", "Z"), ("logn", "Z")], "c10", ["C10"]),
    K("src_c10_aicc", "include/nano/core/stats.h",
      r"inline double AICc\(.*?return\s+(.*?);",
      [(r"AIC\(RSS, k, n\)", "aic"), (r"\b(\d+)\.0\b", r"\1")],
      [("aic", "Z"), ("dk", "Z"), ("dn", "Z")], "c10", ["C10"]),
    K("src_c10_bic", "include/nano/core/stats.h",
      r"inline double BIC\(.*?return\s+(.*?);",
      [(r"std::log\(RSS / dn\)", "logrssn"), (r"std::log\(dn\)", "logn"), (r"\b(\d+)\.0\b", r"\1")],
      [("dk", "Z"), ("dn", "Z"), ("logrssn", "Z"), ("logn", "Z")], "c10", ["C10"]),
    # the number of parameters k and of samples n handed to make_score by every learner
    K("src_c10_k_stump", "src/wlearner/stump.cpp", r"const auto k\s*=\s*(.*?);",
      [(r"::nano::size\(m_acc_sum\.tdims\(\)\)", "tsize")], [("tsize", "Z")], "c10", ["C10"]),
    K("src_c10_n_stump", "src/wlearner/stump.cpp", r"const auto n\s*=\s*(.*?);",
      [(CAST, ""), (r"m_acc_sum\.x0\(\)", "x0sum")], [("x0sum", "Z"), ("missing_cnt", "Z")], "c10", ["C10"]),
    K("src_c10_k_hinge", "src/wlearner/hinge.cpp", r"const auto k\s*=\s*(.*?);",
      [(r"::nano::size\(m_acc_sum\.tdims\(\)\)", "tsize")], [("tsize", "Z")], "c10", ["C10"]),
    K("src_c10_n_hinge_left", "src/wlearner/hinge.cpp", r"const auto n\s*=\s*(.*?);",
      [(CAST, ""), (r"x0_neg\(\)", "x0neg"), (r"x0_pos\(\)", "x0pos")],
      [("x0neg", "Z"), ("x0pos", "Z"), ("missing_cnt", "Z")], "c10", ["C10"]),
    K("src_c10_n_hinge_right", "src/wlearner/hinge.cpp", r"const auto n\s*=\s*(.*?);",
      [(CAST, ""), (r"x0_neg\(\)", "x0neg"), (r"x0_pos\(\)", "x0pos")],
      [("x0neg", "Z"), ("x0pos", "Z"), ("missing_cnt", "Z")], "c10", ["C10"], pick=1),
    K("src_c10_k_affine", "src/wlearner/affine.cpp", r"const auto k\s*=\s*(.*?);",
      [(r"::nano::size\(tdims\(\)\)", "tsize")], [("tsize", "Z")], "c10", ["C10"]),
    K("src_c10_k_dense", "src/wlearner/table.cpp", r"const auto k\s*=\s*(.*?);",
      [(r"::nano::size\(tdims\(\)\)", "tsize")], [("bins", "Z"), ("tsize", "Z")], "c10", ["C10"]),
    K("src_c10_k_kbest", "src/wlearner/table.cpp", r"const auto k\s*=\s*(.*?);",
      [(r"::nano::size\(tdims\(\)\)", "tsize")], [("kbest", "Z"), ("tsize", "Z")], "c10", ["C10"], pick=1),
    K("src_c10_k_ksplit", "src/wlearner/table.cpp", r"const auto k\s*=\s*(.*?);",
      [(r"::nano::size\(tdims\(\)\)", "tsize")], [("ksplit", "Z"), ("tsize", "Z")], "c10", ["C10"], pick=2),
    # score_ksplit(): number of groups of trial ic, and the relabelling of accumulator_t::cluster() after merging cluster2 into cluster1
    K("src_c10_ksplit_groups", "src/wlearner/table.cpp", r"const auto ksplit\s*=\s*(.*?);",
      [], [("bins", "Z"), ("ic", "Z")], "c10", ["C10"]),
    # stump_wlearner_t::split (used by every node of the decision tree): the side of a value
    K("src_c10_stump_side", "src/wlearner/stump.cpp", r"cluster\.assign\(samples\(i\),\s*(.*?)\);",
      [], [("value", "Z"), ("threshold", "Z")], "c10", ["C10"]),
    # ---- extension (C10_TreeFit): the greedy fit of dtree_wlearner_t::do_fit -------------------------------------------------
    # "have the parent node point to the current terminal node": the root's cache has m_parent = 0 while nodes is still empty
    K("src_c10_tree_has_parent", DT,
      r"scalar_t dtree_wlearner_t::do_fit\(.*?if \((cache\.m_parent\s*<\s*nodes\.size\(\))\)",
      [(r"cache\.m_parent", "parent"), (r"nodes\.size\(\)", "nsize")], [("parent", "Z"), ("nsize", "Z")], "c10", ["C10"]),
    # the link written into the parent's entry: the index of the pair about to be appended
    K("src_c10_tree_link", DT,
      r"scalar_t dtree_wlearner_t::do_fit\(.*?nodes\[cache\.m_parent\]\.m_next\s*=\s*(.*?);",
      [(r"nodes\.size\(\)", "nsize")], [("nsize", "Z")], "c10", ["C10"]),
    # depth of the two children, the entry each child will link from (index of the entry pushed for side i)
    K("src_c10_tree_child_depth", DT,
      r"scalar_t dtree_wlearner_t::do_fit\(.*?ncache\.m_depth\s*=\s*(.*?);",
      [(r"cache\.m_depth", "depth")], [("depth", "Z")], "c10", ["C10"]),
    K("src_c10_tree_child_parent", DT,
      r"scalar_t dtree_wlearner_t::do_fit\(.*?ncache\.m_parent\s*=\s*(.*?);",
      [(r"nodes\.size\(\)", "nsize")], [("nsize", "Z")], "c10", ["C10"]),
    # the table index of a leaf entry: the number of tables appended so far
    K("src_c10_tree_leaf_table", DT,
      r"scalar_t dtree_wlearner_t::do_fit\(.*?node\.m_table\s*=\s*(tables\.size<0>\(\));",
      [(r"tables\.size<0>\(\)", "tsize")], [("tsize", "Z")], "c10", ["C10"]),
]
