"""kernels of src/splitter/{kfold,random}.cpp and src/core/sampling.cpp (C12).

Every integer expression that decides *which* positions of the shuffled sample vector go where is
translated: fold boundaries, allocation sizes, and the (start, length) arguments of every Eigen
`segment` on both sides of the three copy statements of the k-fold splitter and the two of the random
splitter. All segment kernels receive the same (generous) argument list, so that a change of one of the
expressions to another combination of the local variables is still *translated* (and then refuted by the
proofs / the search) instead of merely breaking the anchor.
"""
KF = "src/splitter/kfold.cpp"
RD = "src/splitter/random.cpp"
SP = "src/core/sampling.cpp"

_SIZE = [(r"\b(?:samples|world)\.size\(\)", "size"), (r"\bvalid\.size\(\)", "valid_size"), (r"\btrain\.size\(\)", "train_size"),
         (CAST + r"\((\w+)\)", r"\1")]
_KARGS = [("size", "Z"), ("folds", "Z"), ("fold", "Z"), ("chunk", "Z"), ("valid_begin", "Z"), ("valid_end", "Z"),
          ("valid_size", "Z"), ("train_size", "Z")]
_RARGS = [("size", "Z"), ("folds", "Z"), ("fold", "Z"), ("train_perc", "Z"), ("train_size", "Z"), ("valid_size", "Z")]

# an argument of segment(...): no top-level comma inside (the expressions are sums/differences of locals and .size() calls)
_A = r"((?:[^,();]|\(\s*\))+?)"
_X = r"(?:[^,();]|\(\s*\))+?"

KERNELS = [
    # ---- k-fold: fold boundaries ---------------------------------------------------------------
    K("src_kfold_chunk", KF, r"const auto chunk\s*=\s*(.*?);", _SIZE, _KARGS[:2], "splitter", ["C12"]),
    K("src_kfold_valid_begin", KF, r"const auto valid_begin\s*=\s*(.*?);", _SIZE, _KARGS[:4], "splitter", ["C12"]),
    K("src_kfold_valid_end", KF, r"const auto valid_end\s*=\s*(.*?);", _SIZE, _KARGS[:5], "splitter", ["C12"]),
    K("src_kfold_valid_size", KF, r"indices_t valid\((.*?)\);", _SIZE, _KARGS[:6], "splitter", ["C12"]),
    K("src_kfold_train_size", KF, r"indices_t train\((.*?)\);", _SIZE, _KARGS[:7], "splitter", ["C12"]),
    K("src_kfold_loop_first", KF, r"for \(tensor_size_t fold = (.*?); fold < folds; \+\+fold\)", _SIZE, _KARGS[:2], "splitter", ["C12"]),
    # ---- k-fold: valid.vector() = world.segment(a, b) ------------------------------------------
    K("src_kfold_valid_src_start", KF, r"valid\.vector\(\)\s*=\s*world\.segment\(" + _A + r"," + _X + r"\);", _SIZE, _KARGS, "splitter", ["C12"]),
    K("src_kfold_valid_src_len", KF, r"valid\.vector\(\)\s*=\s*world\.segment\(" + _X + r"," + _A + r"\);", _SIZE, _KARGS, "splitter", ["C12"]),
    # ---- k-fold: train.vector().segment(a, b) = world.segment(c, d)  (first statement: head) ---
    K("src_kfold_head_dst_start", KF, r"train\.vector\(\)\.segment\(" + _A + r"," + _X + r"\)\s*=\s*world\.segment\(" + _X + r"," + _X + r"\);", _SIZE, _KARGS, "splitter", ["C12"], pick=0),
    K("src_kfold_head_dst_len", KF, r"train\.vector\(\)\.segment\(" + _X + r"," + _A + r"\)\s*=\s*world\.segment\(" + _X + r"," + _X + r"\);", _SIZE, _KARGS, "splitter", ["C12"], pick=0),
    K("src_kfold_head_src_start", KF, r"train\.vector\(\)\.segment\(" + _X + r"," + _X + r"\)\s*=\s*world\.segment\(" + _A + r"," + _X + r"\);", _SIZE, _KARGS, "splitter", ["C12"], pick=0),
    K("src_kfold_head_src_len", KF, r"train\.vector\(\)\.segment\(" + _X + r"," + _X + r"\)\s*=\s*world\.segment\(" + _X + r"," + _A + r"\);", _SIZE, _KARGS, "splitter", ["C12"], pick=0),
    # ---- second statement: tail ------------------------------------------------------------------
    K("src_kfold_tail_dst_start", KF, r"train\.vector\(\)\.segment\(" + _A + r"," + _X + r"\)\s*=\s*world\.segment\(" + _X + r"," + _X + r"\);", _SIZE, _KARGS, "splitter", ["C12"], pick=1),
    K("src_kfold_tail_dst_len", KF, r"train\.vector\(\)\.segment\(" + _X + r"," + _A + r"\)\s*=\s*world\.segment\(" + _X + r"," + _X + r"\);", _SIZE, _KARGS, "splitter", ["C12"], pick=1),
    K("src_kfold_tail_src_start", KF, r"train\.vector\(\)\.segment\(" + _X + r"," + _X + r"\)\s*=\s*world\.segment\(" + _A + r"," + _X + r"\);", _SIZE, _KARGS, "splitter", ["C12"], pick=1),
    K("src_kfold_tail_src_len", KF, r"train\.vector\(\)\.segment\(" + _X + r"," + _X + r"\)\s*=\s*world\.segment\(" + _X + r"," + _A + r"\);", _SIZE, _KARGS, "splitter", ["C12"], pick=1),
    # ---- random splitter ---------------------------------------------------------------------------
    K("src_random_train_size", RD, r"const auto train_size\s*=\s*(.*?);", _SIZE, _RARGS[:4], "splitter", ["C12"]),
    K("src_random_valid_size", RD, r"const auto valid_size\s*=\s*(.*?);", _SIZE, _RARGS[:5], "splitter", ["C12"]),
    K("src_random_valid_alloc", RD, r"indices_t valid\((.*?)\);", _SIZE, _RARGS, "splitter", ["C12"]),
    K("src_random_train_alloc", RD, r"indices_t train\((.*?)\);", _SIZE, _RARGS, "splitter", ["C12"]),
    K("src_random_train_src_start", RD, r"train\.vector\(\)\s*=\s*samples\.vector\(\)\.segment\(" + _A + r"," + _X + r"\);", _SIZE, _RARGS, "splitter", ["C12"]),
    K("src_random_train_src_len", RD, r"train\.vector\(\)\s*=\s*samples\.vector\(\)\.segment\(" + _X + r"," + _A + r"\);", _SIZE, _RARGS, "splitter", ["C12"]),
    K("src_random_valid_src_start", RD, r"valid\.vector\(\)\s*=\s*samples\.vector\(\)\.segment\(" + _A + r"," + _X + r"\);", _SIZE, _RARGS, "splitter", ["C12"]),
    K("src_random_valid_src_len", RD, r"valid\.vector\(\)\s*=\s*samples\.vector\(\)\.segment\(" + _X + r"," + _A + r"\);", _SIZE, _RARGS, "splitter", ["C12"]),
    # ---- samplers ------------------------------------------------------------------------------------
    K("src_sample_udist_lo", SP, r"auto udist\s*=\s*make_udist<tensor_size_t>\(" + _A + r"," + _X + r"\);", _SIZE, [("size", "Z"), ("count", "Z")], "sampling", ["C12"]),
    K("src_sample_udist_hi", SP, r"auto udist\s*=\s*make_udist<tensor_size_t>\(" + _X + r"," + _A + r"\);", _SIZE, [("size", "Z"), ("count", "Z")], "sampling", ["C12"]),
    K("src_sample_swor_begin", SP, r"auto selection\s*=\s*samples\.slice\(" + _A + r"," + _X + r"\);", _SIZE, [("size", "Z"), ("count", "Z")], "sampling", ["C12"]),
    K("src_sample_swor_end", SP, r"auto selection\s*=\s*samples\.slice\(" + _X + r"," + _A + r"\);", _SIZE, [("size", "Z"), ("count", "Z")], "sampling", ["C12"]),
    K("src_sample_swr_alloc", SP, r"auto selection\s*=\s*indices_t\{(.*?)\};", _SIZE, [("size", "Z"), ("count", "Z")], "sampling", ["C12"], pick=0),
    K("src_sample_swrw_alloc", SP, r"auto selection\s*=\s*indices_t\{(.*?)\};", _SIZE, [("size", "Z"), ("count", "Z")], "sampling", ["C12"], pick=1),
]

# ==== extension (ball in floating point, gboost::sampler_t) ==========================================================
# The operator tree of the element-wise statement of sample_from_ball, as an expression over Z (C14's technique): the
# PrimFloat twin in C12_Float_Defs.v is the *same* tree over binary64 operations (`ball_shape`), and
# `C12_fl_shape_is_source` proves `ball_shape zops = src_ball_point` -- so a re-association, a dropped factor or another
# norm in the source breaks a proof (or the anchor), not only the bit-for-bit comparison.
GB = "src/gboost/sampler.cpp"
_BALL_ATOMS = [(r"\bx0\.array\(\)", "x0"), (r"\bx\.array\(\)", "u"), (r"\bx\.lpNorm<2>\(\)", "nrm"), (r"\bx\.norm\(\)", "nrm"),
               (r"\bx\.squaredNorm\(\)", "sqnrm"), (r"\bx\.lpNorm<1>\(\)", "nrm1"), (r"\bx\.lpNorm<Eigen::Infinity>\(\)", "nrminf")]
_BALL_ARGS = [("x0", "Z"), ("radius", "Z"), ("z", "Z"), ("u", "Z"), ("nrm", "Z"), ("sqnrm", "Z"), ("nrm1", "Z"), ("nrminf", "Z")]
_GB_ENUM = [("k_off", "Z"), ("k_subsample", "Z"), ("k_bootstrap", "Z"), ("k_wei_loss_bootstrap", "Z"), ("k_wei_grad_bootstrap", "Z")]
_GB_ATOMS = [(r"tensor_size_t\{0\}", "0"), (r"\b(?:m_)?samples\.size\(\)", "size"), (r"\bm_type\b", "kind"), (r"gboost_subsample::(\w+)", r"k_\1")]
# which sampling function a case of the switch calls, with which arguments: 0 = the samples themselves, 1 = without
# replacement, 2 = with replacement (uniform), 3 = with replacement weighted by m_weights; anything else is not translated
_GB_CALLS = [(r"^sample_without_replacement\(m_samples, count, m_rng\)$", "1"), (r"^sample_with_replacement\(m_samples, count, m_rng\)$", "2"),
             (r"^sample_with_replacement\(m_samples, m_weights, count, m_rng\)$", "3"), (r"^m_samples$", "0")]
_GB_CASE = r"case gboost_subsample::%s:\s*\{.*?return (.*?);"
_GB_IDX = [(r"\bm_samples\(i\)", "sample_i")]
_GB_IARGS = [("sample_i", "Z"), ("i", "Z"), ("size", "Z")]
# an index argument: identifiers, arithmetic and one level of calls such as m_samples(i)
_GA = r"((?:[^,();]|\(\s*[\w\s+*-]*\))+?)"
_GX = r"(?:[^,();]|\(\s*[\w\s+*-]*\))+?"
_GB_LOOP = r"for \(tensor_size_t i = %s, size = %s; i < size; \+\+i\)"

KERNELS += [
    K("src_ball_point", SP, r"\bx\.array\(\)\s*=\s*(.*?);", _BALL_ATOMS, _BALL_ARGS, "sampling", ["C12"]),
    # count = static_cast<tensor_size_t>(m_ratio * static_cast<scalar_t>(m_samples.size())): the product inside the cast
    K("src_gb_count_product", GB, r"const auto count\s*=\s*static_cast<tensor_size_t>\((.*?)\);",
      [(r"static_cast<scalar_t>\(m_samples\.size\(\)\)", "size"), (r"\bm_ratio\b", "ratio")], [("ratio", "Z"), ("size", "Z")], "gbsampler", ["C12"]),
    K("src_gb_weights_alloc", GB, r",\s*m_weights\((.*?)\)\s*\{\s*\}", _GB_ATOMS, [("kind", "Z"), ("size", "Z")] + _GB_ENUM, "gbsampler", ["C12"]),
    K("src_gb_case_off", GB, _GB_CASE % "off", _GB_CALLS, [], "gbsampler", ["C12"]),
    K("src_gb_case_subsample", GB, _GB_CASE % "subsample", _GB_CALLS, [], "gbsampler", ["C12"]),
    K("src_gb_case_bootstrap", GB, _GB_CASE % "bootstrap", _GB_CALLS, [], "gbsampler", ["C12"]),
    K("src_gb_case_wei_loss", GB, _GB_CASE % "wei_loss_bootstrap", _GB_CALLS, [], "gbsampler", ["C12"]),
    K("src_gb_case_wei_grad", GB, _GB_CASE % "wei_grad_bootstrap", _GB_CALLS, [], "gbsampler", ["C12"]),
    # the two weight loops: m_weights(dst) = errors_losses(row, col)  /  gradients.vector(col).lpNorm<2>()
    K("src_gb_loss_dst", GB, r"m_weights\(" + _GA + r"\)\s*=\s*errors_losses\(" + _GX + r"," + _GX + r"\);", _GB_IDX, _GB_IARGS, "gbsampler", ["C12"]),
    K("src_gb_loss_row", GB, r"m_weights\(" + _GX + r"\)\s*=\s*errors_losses\(" + _GA + r"," + _GX + r"\);", _GB_IDX, _GB_IARGS, "gbsampler", ["C12"]),
    K("src_gb_loss_col", GB, r"m_weights\(" + _GX + r"\)\s*=\s*errors_losses\(" + _GX + r"," + _GA + r"\);", _GB_IDX, _GB_IARGS, "gbsampler", ["C12"]),
    K("src_gb_grad_dst", GB, r"m_weights\(" + _GA + r"\)\s*=\s*gradients\.vector\(" + _GX + r"\)\.lpNorm<2>\(\);", _GB_IDX, _GB_IARGS, "gbsampler", ["C12"]),
    K("src_gb_grad_col", GB, r"m_weights\(" + _GX + r"\)\s*=\s*gradients\.vector\(" + _GA + r"\)\.lpNorm<2>\(\);", _GB_IDX, _GB_IARGS, "gbsampler", ["C12"]),
    K("src_gb_loop_first", GB, _GB_LOOP % (r"(.*?)", r"[^;]*?"), _GB_ATOMS, [("size", "Z")], "gbsampler", ["C12"], pick=0),
    K("src_gb_loop_size", GB, _GB_LOOP % (r"[^;,]*?", r"(.*?)"), _GB_ATOMS, [("size", "Z")], "gbsampler", ["C12"], pick=0),
    K("src_gb_loop2_first", GB, _GB_LOOP % (r"(.*?)", r"[^;]*?"), _GB_ATOMS, [("size", "Z")], "gbsampler", ["C12"], pick=1),
    K("src_gb_loop2_size", GB, _GB_LOOP % (r"[^;,]*?", r"(.*?)"), _GB_ATOMS, [("size", "Z")], "gbsampler", ["C12"], pick=1),
]
