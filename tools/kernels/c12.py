"""kernels of src/splitter/{kfold,random}.cpp and src/core/sampling.cpp (C12).

Every integer expression that decides *which* positions of the shuffled sample vector go where is
translated: fold boundaries, allocation sizes, and the (start, length) arguments of every Eigen
`segment` on both sides of the three copy statements of the k-fold splitter and the two of the random
splitter. All segment kernels receive the same (generous) argument list, so that a change of one of the
expressions to another combination of the local variables is still *translated* (and then refuted by the
proofs / the search) instead of merely breaking the anchor.
"""
KF = "src/splitter/kfold.cpp"
RD = "src/splitter/random.cpp"
SP = "src/core/sampling.cpp"

_SIZE = [(r"\b(?:samples|world)\.size\(\)", "size"), (r"\bvalid\.size\(\)", "valid_size"), (r"\btrain\.size\(\)", "train_size"),
         (CAST + r"\((\w+)\)", r"\1")]
_KARGS = [("size", "Z"), ("folds", "Z"), ("fold", "Z"), ("chunk", "Z"), ("valid_begin", "Z"), ("valid_end", "Z"),
          ("valid_size", "Z"), ("train_size", "Z")]
_RARGS = [("size", "Z"), ("folds", "Z"), ("fold", "Z"), ("train_perc", "Z"), ("train_size", "Z"), ("valid_size", "Z")]

# an argument of segment(...): no top-level comma inside (the expressions are sums/differences of locals and .size() calls)
_A = r"((?:[^,();]|\(\s*\))+?)"
_X = r"(?:[^,();]|\(\s*\))+?"

KERNELS = [
    # ---- k-fold: fold boundaries ---------------------------------------------------------------
    K("src_kfold_chunk", KF, r"const auto chunk\s*=\s*(.*?);", _SIZE, _KARGS[:2], "splitter", ["C12"]),
    K("src_kfold_valid_begin", KF, r"const auto valid_begin\s*=\s*(.*?);", _SIZE, _KARGS[:4], "splitter", ["C12"]),
    K("src_kfold_valid_end", KF, r"const auto valid_end\s*=\s*(.*?);", _SIZE, _KARGS[:5], "splitter", ["C12"]),
    K("src_kfold_valid_size", KF, r"indices_t valid\((.*?)\);", _SIZE, _KARGS[:6], "splitter", ["C12"]),
    K("src_kfold_train_size", KF, r"indices_t train\((.*?)\);", _SIZE, _KARGS[:7], "splitter", ["C12"]),
    K("src_kfold_loop_first", KF, r"for \(tensor_size_t fold = (.*?); fold < folds; \+\+fold\)", _SIZE, _KARGS[:2], "splitter", ["C12"]),
    # ---- k-fold: valid.vector() = world.segment(a, b) ------------------------------------------
    K("src_kfold_valid_src_start", KF, r"valid\.vector\(\)\s*=\s*world\.segment\(" + _A + r"," + _X + r"\);", _SIZE, _KARGS, "splitter", ["C12"]),
    K("src_kfold_valid_src_len", KF, r"valid\.vector\(\)\s*=\s*world\.segment\(" + _X + r"," + _A + r"\);", _SIZE, _KARGS, "splitter", ["C12"]),
    # ---- k-fold: train.vector().segment(a, b) = world.segment(c, d)  (first statement: head) ---
    K("src_kfold_head_dst_start", KF, r"train\.vector\(\)\.segment\(" + _A + r"," + _X + r"\)\s*=\s*world\.segment\(" + _X + r"," + _X + r"\);", _SIZE, _KARGS, "splitter", ["C12"], pick=0),
    K("src_kfold_head_dst_len", KF, r"train\.vector\(\)\.segment\(" + _X + r"," + _A + r"\)\s*=\s*world\.segment\(" + _X + r"," + _X + r"\);", _SIZE, _KARGS, "splitter", ["C12"], pick=0),
    K("src_kfold_head_src_start", KF, r"train\.vector\(\)\.segment\(" + _X + r"," + _X + r"\)\s*=\s*world\.segment\(" + _A + r"," + _X + r"\);", _SIZE, _KARGS, "splitter", ["C12"], pick=0),
    K("src_kfold_head_src_len", KF, r"train\.vector\(\)\.segment\(" + _X + r"," + _X + r"\)\s*=\s*world\.segment\(" + _X + r"," + _A + r"\);", _SIZE, _KARGS, "splitter", ["C12"], pick=0),
    # ---- second statement: tail ------------------------------------------------------------------
    K("src_kfold_tail_dst_start", KF, r"train\.vector\(\)\.segment\(" + _A + r"," + _X + r"\)\s*=\s*world\.segment\(" + _X + r"," + _X + r"\);", _SIZE, _KARGS, "splitter", ["C12"], pick=1),
    K("src_kfold_tail_dst_len", KF, r"train\.vector\(\)\.segment\(" + _X + r"," + _A + r"\)\s*=\s*world\.segment\(" + _X + r"," + _X + r"\);", _SIZE, _KARGS, "splitter", ["C12"], pick=1),
    K("src_kfold_tail_src_start", KF, r"train\.vector\(\)\.segment\(" + _X + r"," + _X + r"\)\s*=\s*world\.segment\(" + _A + r"," + _X + r"\);", _SIZE, _KARGS, "splitter", ["C12"], pick=1),
    K("src_kfold_tail_src_len", KF, r"train\.vector\(\)\.segment\(" + _X + r"," + _X + r"\)\s*=\s*world\.segment\(" + _X + r"," + _A + r"\);", _SIZE, _KARGS, "splitter", ["C12"], pick=1),
    # ---- random splitter ---------------------------------------------------------------------------
    K("src_random_train_size", RD, r"const auto train_size\s*=\s*(.*?);", _SIZE, _RARGS[:4], "splitter", ["C12"]),
    K("src_random_valid_size", RD, r"const auto valid_size\s*=\s*(.*?);", _SIZE, _RARGS[:5], "splitter", ["C12"]),
    K("src_random_valid_alloc", RD, r"indices_t valid\((.*?)\);", _SIZE, _RARGS, "splitter", ["C12"]),
    K("src_random_train_alloc", RD, r"indices_t train\((.*?)\);", _SIZE, _RARGS, "splitter", ["C12"]),
    K("src_random_train_src_start", RD, r"train\.vector\(\)\s*=\s*samples\.vector\(\)\.segment\(" + _A + r"," + _X + r"\);", _SIZE, _RARGS, "splitter", ["C12"]),
    K("src_random_train_src_len", RD, r"train\.vector\(\)\s*=\s*samples\.vector\(\)\.segment\(" + _X + r"," + _A + r"\);", _SIZE, _RARGS, "splitter", ["C12"]),
    K("src_random_valid_src_start", RD, r"valid\.vector\(\)\s*=\s*samples\.vector\(\)\.segment\(" + _A + r"," + _X + r"\);", _SIZE, _RARGS, "splitter", ["C12"]),
    K("src_random_valid_src_len", RD, r"valid\.vector\(\)\s*=\s*samples\.vector\(\)\.segment\(" + _X + r"," + _A + r"\);", _SIZE, _RARGS, "splitter", ["C12"]),
    # ---- samplers ------------------------------------------------------------------------------------
    K("src_sample_udist_lo", SP, r"auto udist\s*=\s*make_udist<tensor_size_t>\(" + _A + r"," + _X + r"\);", _SIZE, [("size", "Z"), ("count", "Z")], "sampling", ["C12"]),
    K("src_sample_udist_hi", SP, r"auto udist\s*=\s*make_udist<tensor_size_t>\(" + _X + r"," + _A + r"\);", _SIZE, [("size", "Z"), ("count", "Z")], "sampling", ["C12"]),
    K("src_sample_swor_begin", SP, r"auto selection\s*=\s*samples\.slice\(" + _A + r"," + _X + r"\);", _SIZE, [("size", "Z"), ("count", "Z")], "sampling", ["C12"]),
    K("src_sample_swor_end", SP, r"auto selection\s*=\s*samples\.slice\(" + _X + r"," + _A + r"\);", _SIZE, [("size", "Z"), ("count", "Z")], "sampling", ["C12"]),
    K("src_sample_swr_alloc", SP, r"auto selection\s*=\s*indices_t\{(.*?)\};", _SIZE, [("size", "Z"), ("count", "Z")], "sampling", ["C12"], pick=0),
    K("src_sample_swrw_alloc", SP, r"auto selection\s*=\s*indices_t\{(.*?)\};", _SIZE, [("size", "Z"), ("count", "Z")], "sampling", ["C12"], pick=1),
]
