"""kernels of the finite-termination stage of C01 (stage C01F): the loop decisions of src/solver/quasi.cpp and
src/solver/lbfgs.cpp that the exact-line-search runs of coq/theories/C01_Finite_Defs.v go through (the decisions of
cgd.cpp are those of stage C01CG, group c01cg, re-used).  Own group "c01f" (generated/Src_c01f.v).

  * quasi.cpp: the restart `!cstate.has_descent(descent)` (direction -g, H reset to the identity) and the test
    `first_iteration && init == quasi_initialization::scaled` that replaces H by the scaled identity before the first update;
  * lbfgs.cpp: `!has_descent` (direction forced to -g) and `has_descent` (the pair is stored / the history is cleared).
`kernels_c01f` (C01_Finite.v) pins the shape of each; the run theorems prove that with a positive definite H / positive
curvature pairs the restart branches are never taken."""
_Q = "src/solver/quasi.cpp"
_L = "src/solver/lbfgs.cpp"
_P = ["C01F"]

KERNELS = [
    K("src_qn_restart", _Q, r"if \((!cstate\.has_descent\(descent\))\)\s*\{\s*descent = -cstate\.gx\(\);\s*H\s*= matrix_t::identity",
      [(r"cstate\.has_descent\(descent\)", "hasdescent")], [("hasdescent", "bool")], "c01f", _P),
    K("src_qn_scaled_init", _Q, r"if \((first_iteration && init == quasi_initialization::scaled)\)",
      [(r"quasi_initialization::scaled", "scaled")], [("first_iteration", "bool"), ("init", "Z"), ("scaled", "Z")], "c01f", _P),
    K("src_lbfgs_force", _L, r"if \((!has_descent)\)\s*\{\s*descent = -cstate\.gx\(\);", [],
      [("has_descent", "bool")], "c01f", _P),
    K("src_lbfgs_store", _L, r"if \((has_descent)\)\s*\{\s*ss\.emplace_back", [], [("has_descent", "bool")], "c01f", _P),
]
