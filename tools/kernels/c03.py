"""kernels of the proximal bundle (src/solver/bundle.cpp), the curve search, the RQB/FPBA/ellipsoid loops and
solver_t::done that are small pure integer / boolean expressions (C03).  Own group "c03" (Src_c03.v imports Src_numeric).

Encodings (checked by the correspondence on every run because the harness prints the real enumerator values):
csearch_status: failed=0 max_iters=1 converged=2 null_step=3 descent_step=4 cutting_plane_step=5;
solver_status: max_iters=0 converged=1 failed=2."""
_B = "src/solver/bundle.cpp"
_C = "src/solver/csearch.cpp"
_R = "src/solver/rqb.cpp"
_F = "src/solver/fpba.cpp"
_E = "src/solver/ellipsoid.cpp"
_S = "src/solver.cpp"
_P = ["C03"]

_CS = [(r"csearch_status::failed", "0"), (r"csearch_status::max_iters", "1"), (r"csearch_status::converged", "2"),
       (r"csearch_status::null_step", "3"), (r"csearch_status::descent_step", "4"),
       (r"csearch_status::cutting_plane_step", "5")]
_SZ = [(r"\bsize\(\)", "size"), (r"\bcapacity\(\)", "capacity")]
_DONE = r"bool solver_t::done\(solver_state_t& state, const bool iter_ok, const bool converged, const logger_t& logger\) const\s*\{"

KERNELS = [
    # ---- bundle_t: storage, the trigger of the aggregation and its index arithmetic ------------------------
    K("src_c03_capacity", _B, r"bundle_t::bundle_t\(const solver_state_t& state, const tensor_size_t max_size\)\s*:\s*m_bundleS\((.*?),",
      [], [("max_size", "Z")], "c03", _P),
    K("src_c03_capacity_e", _B, r"bundle_t::bundle_t\(.*?m_bundleE\((.*?)\)", [], [("max_size", "Z")], "c03", _P),
    K("src_c03_capacity_a", _B, r"bundle_t::bundle_t\(.*?m_alphas\((.*?)\)", [], [("max_size", "Z")], "c03", _P),
    K("src_c03_full", _B, r"void bundle_t::delete_largest\(const tensor_size_t count\)\s*\{\s*if \((.*?)\)\s*\{",
      _SZ, [("size", "Z"), ("capacity", "Z")], "c03", _P),
    K("src_c03_nth", _B, r"std::nth_element\(m_alphas\.begin\(\), m_alphas\.begin\(\) \+ \((.*?)\),",
      _SZ, [("size", "Z"), ("count", "Z")], "c03", _P),
    K("src_c03_thres_index", _B, r"thres = m_alphas\((.*?)\) - epsilon0",
      _SZ, [("size", "Z"), ("count", "Z")], "c03", _P),
    K("src_c03_count", _B, r"delete_inactive\(epsilon0<scalar_t>\(\)\);\s*delete_largest\((.*?)\);", [], [], "c03", _P),
    K("src_c03_ilast_store", _B, r"void bundle_t::store_aggregate\(\)\s*\{\s*const auto ilast\s*=\s*(.*?);",
      _SZ, [("capacity", "Z")], "c03", _P),
    K("src_c03_ilast_append", _B, r"void bundle_t::append_aggregate\(\)\s*\{\s*const auto ilast\s*=\s*(.*?);",
      _SZ, [("capacity", "Z")], "c03", _P),
    K("src_c03_solve1", _B, r"void bundle_t::solve\(.*?if \((m_size == [^)]*)\)", [], [("m_size", "Z")], "c03", _P),
    K("src_c03_solve2", _B, r"void bundle_t::solve\(.*?else if \((m_size == [^)]*)\)", [], [("m_size", "Z")], "c03", _P),
    # ---- csearch: the convergence decision ------------------------------------------------------------------
    K("src_c03_cs_converged", _C, r"else if \(const auto converged = (.*?); converged\)",
      [], [("econv", "bool"), ("sconv", "bool")], "c03", _P),
    # the two flags of the decision ARE the bundle's own tests at the solver's epsilon (a locally recomputed tolerance breaks
    # the anchor: the certificate theorem is about econverged/sconverged with tol = epsilon * sqrt(dims))
    K("src_c03_cs_econv", _C, r"const auto\s+econv\s*=\s*(.*?);", [(r"bundle\.econverged\(epsilon\)", "bundle_econverged_epsilon")],
      [("bundle_econverged_epsilon", "bool")], "c03", _P),
    K("src_c03_cs_sconv", _C, r"const auto\s+sconv\s*=\s*(.*?);", [(r"bundle\.sconverged\(epsilon\)", "bundle_sconverged_epsilon")],
      [("bundle_sconverged_epsilon", "bool")], "c03", _P),
    # ---- RQB / FPBA: what is handed to solver_t::done -----------------------------------------------------
    K("src_c03_rqb_iter_ok", _R, r"const auto iter_ok\s*=\s*(.*?);", _CS, [("status", "Z")], "c03", _P),
    K("src_c03_rqb_converged", _R, r"const auto converged\s*=\s*(.*?);", _CS, [("status", "Z")], "c03", _P),
    K("src_c03_fpba_iter_ok", _F, r"const auto iter_ok\s*=\s*(.*?);", _CS, [("status", "Z")], "c03", _P),
    K("src_c03_fpba_converged", _F, r"const auto converged\s*=\s*(.*?);", _CS, [("status", "Z")], "c03", _P),
    # ---- ellipsoid: the bisection branch --------------------------------------------------------------------
    K("src_c03_ell_1d", _E, r"while \(function\.fcalls\(\).*?if \((function\.size\(\) == [^)]*)\)",
      [(r"function\.size\(\)", "n")], [("n", "Z")], "c03", _P),
    # ---- solver_t::done: status assigned on exit -------------------------------------------------------------
    K("src_c03_done_step_ok", _S, _DONE + r".*?if \(const auto step_ok = (.*?);",
      [(r"state\.valid\(\)", "valid")], [("iter_ok", "bool"), ("valid", "bool")], "c03", _P),
    K("src_c03_done_stop", _S, _DONE + r".*?if \(const auto step_ok = [^;]*;\s*(.*?)\)\s*\{",
      [], [("converged", "bool"), ("step_ok", "bool")], "c03", _P),
    K("src_c03_done_status", _S, _DONE + r".*?state\.status\((.*?)\);",
      [(r"solver_status::converged", "1"), (r"solver_status::failed", "2"), (r"solver_status::max_iters", "0")],
      [("converged", "bool"), ("step_ok", "bool")], "c03", _P),   # repo 85997bc: (converged && step_ok)
]

# ==== extension LOOP (C03_Loops_Defs.v): the control flow of csearch_t::search and of the RQB / FPBA outer loops ====
# float comparisons are atomised into named booleans (the atom must match the source text literally: a changed operand or sign
# breaks the anchor, which is a broken tie); the model computes those booleans over exact rationals
_CALLS_M = [(r"m_function\.fcalls\(\)", "fcalls"), (r"m_function\.gcalls\(\)", "gcalls")]
_CALLS_F = [(r"function\.fcalls\(\)", "fcalls"), (r"function\.gcalls\(\)", "gcalls")]
_BR = [(r"\btL\b", "0"), (r"\btR\b", "1")]
KERNELS += [
    K("src_c03_cs_budget", _C, r"while \((m_function\.fcalls\(\)[^)]*\(\)[^)]*)\)\s*\{", _CALLS_M,
      [("fcalls", "Z"), ("gcalls", "Z"), ("max_evals", "Z")], "c03", _P),
    K("src_c03_cs_failed", _C, r"if \(const auto failed = (.*?); failed\)", [(r"std::isfinite\(fy\)", "fy_finite")],
      [("fy_finite", "bool")], "c03", _P),
    K("src_c03_cs_descent", _C, r"else if \(const auto descent = (.*?); descent\)", [(r"fx - fy >= m_m1 \* delta", "m1_test")],
      [("m1_test", "bool")], "c03", _P),
    K("src_c03_cs_null", _C, r"tR = t;\s*if \((.*?)\)\s*\{\s*status", [(r"tL < epsilon0<scalar_t>\(\)", "tl_small"), (r"e <= m_m3 \* delta", "e_small")],
      [("tl_small", "bool"), ("e_small", "bool")], "c03", _P),
    K("src_c03_cs_dstep", _C, r"\}\s*if \(([^{]*?)\)\s*\{\s*status = csearch_status::descent_step", [(r"gy\.dot\(y - x\) >= -m_m2 \* delta", "m2_test")],
      [("m2_test", "bool")], "c03", _P),
    K("src_c03_cs_cstep", _C, r"else if \(([^{]*?)\)\s*\{\s*status = csearch_status::cutting_plane_step",
      [(r"std::isfinite\(tR\)", "tr_finite"), (r"s\.dot\(y - x\) >= -m_m4 \* delta", "m4_test")],
      [("tr_finite", "bool"), ("sconv", "bool"), ("m4_test", "bool")], "c03", _P),
    K("src_c03_cs_interp", _C, r"const auto new_trial = \[&\]\(\)\s*\{\s*if \((.*?)\)\s*\{", [(r"std::isfinite\(tR\)", "tr_finite")],
      [("tr_finite", "bool")], "c03", _P),
    # which end of the bracket each side of the m1 test moves (0 = tL, 1 = tR)
    K("src_c03_cs_descent_moves", _C, r"descent\)\s*\{\s*(t[LR]) = t;", _BR, [], "c03", _P),
    K("src_c03_cs_else_moves", _C, r"descent\)\s*\{[^}]*\}\s*else\s*\{\s*(t[LR]) = t;", _BR, [], "c03", _P),
    # repo 31bf93f: every call starts by resetting the member status (what is returned when the loop guard ends the call)
    K("src_c03_cs_st_init", _C, r"auto tL = 0\.0;.*?m_point\.m_status = (.*?);\s*auto tR", _CS, [], "c03", _P),
    # the status assigned on each exit
    K("src_c03_cs_st_failed", _C, r"failed\)\s*\{\s*status = (.*?);", _CS, [], "c03", _P),
    K("src_c03_cs_st_converged", _C, r"converged\)\s*\{\s*status = (.*?);", _CS, [], "c03", _P),
    K("src_c03_cs_st_null", _C, r"m_m3 \* delta\)\s*\{\s*status = (.*?);", _CS, [], "c03", _P),
    K("src_c03_cs_st_descent", _C, r"m_m2 \* delta\)\s*\{\s*status = (.*?);", _CS, [], "c03", _P),
    K("src_c03_cs_st_cutting", _C, r"m_m4 \* delta\)\)\s*\{\s*status = (.*?);", _CS, [], "c03", _P),
    # the outer loops: guard and dispatch on the status
    K("src_c03_rqb_budget", _R, r"while \((function\.fcalls\(\)[^)]*\(\)[^)]*)\)\s*\{", _CALLS_F,
      [("fcalls", "Z"), ("gcalls", "Z"), ("max_evals", "Z")], "c03", _P),
    K("src_c03_rqb_is_descent", _R, r"\}\s*if \((status == [^)]*)\)", _CS, [("status", "Z")], "c03", _P),
    K("src_c03_rqb_is_cutting", _R, r"else if \((status == csearch_status::cutting[^)]*)\)", _CS, [("status", "Z")], "c03", _P),
    K("src_c03_rqb_is_null", _R, r"else if \((status == csearch_status::null[^)]*)\)", _CS, [("status", "Z")], "c03", _P),
    K("src_c03_fpba_budget", _F, r"while \((function\.fcalls\(\)[^)]*\(\)[^)]*)\)\s*\{", _CALLS_F,
      [("fcalls", "Z"), ("gcalls", "Z"), ("max_evals", "Z")], "c03", _P),
    K("src_c03_fpba_is_descent", _F, r"\}\s*if \((status == [^)]*)\)", _CS, [("status", "Z")], "c03", _P),
    K("src_c03_fpba_is_cutting", _F, r"else if \((status == csearch_status::cutting[^)]*)\)", _CS, [("status", "Z")], "c03", _P),
    K("src_c03_fpba_is_null", _F, r"else if \((status == csearch_status::null[^)]*)\)", _CS, [("status", "Z")], "c03", _P),
]

# ==== extension WHOLE (C03_Whole_Defs.v): the composed model of a whole RQB / FPBA run ====
# which flag moveto() / append() hand to append(.., serious_step): the composed model issues its bundle operations through them
KERNELS += [
    K("src_c03_moveto_serious", _B, r"void bundle_t::moveto\([^)]*\)\s*\{\s*const auto serious_step\s*=\s*(.*?);", [], [], "c03", _P),
    K("src_c03_append_serious", _B,
      r"void bundle_t::append\(const vector_cmap_t y, const vector_cmap_t gy, const scalar_t fy\)\s*\{\s*const auto serious_step\s*=\s*(.*?);",
      [], [], "c03", _P),
]
