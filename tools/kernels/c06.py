"""integer kernels of the C06 objects: the size expressions of the function objects (C06)"""
_TS = [(r"tensor_size_t\s*[({]\s*(\d+)\s*[)}]", r"\1")]
KERNELS = [
    # function_rosenbrock_t: function_t("rosenbrock", std::max(dims, tensor_size_t(2)))
    K("src_c06_rosenbrock_size", "src/function/benchmark/rosenbrock.cpp",
      r"function_t\(\"rosenbrock\",\s*(.*?)\)\s*\{", _TS, [("dims", "Z")], "c06", ["C06"]),
    # function_powell_t: function_t("powell", std::max(tensor_size_t(4), dims - dims % 4))
    K("src_c06_powell_size", "src/function/benchmark/powell.cpp",
      r"function_t\(\"powell\",\s*(.*?)\)\s*\{", _TS, [("dims", "Z")], "c06", ["C06"]),
    # elastic net objectives: make_size / make_inputs
    K("src_c06_enet_size", "src/function/benchmark/elastic_net.cpp",
      r"auto make_size\(const tensor_size_t dims\)\s*\{\s*return\s+(.*?);", _TS, [("dims", "Z")], "c06", ["C06"]),
    K("src_c06_enet_inputs", "src/function/benchmark/elastic_net.cpp",
      r"auto make_inputs\(const tensor_size_t dims\)\s*\{\s*return\s+(.*?);", _TS, [("dims", "Z")], "c06", ["C06"]),
    # linear::function_t: (isize + 1) * tsize free dimensions
    K("src_c06_linear_size", "src/linear/function.cpp",
      r"::nano::function_t\(\"linear\",\s*(.*?)\)\s*,\s*m_iterator",
      [(r"::isize\(iterator\)", "isize"), (r"::tsize\(iterator\)", "tsize")], [("isize", "Z"), ("tsize", "Z")], "c06", ["C06"]),
    # quadratic_surrogate_fit_t: (n + 1) (n + 2) / 2 coefficients
    K("src_c06_surrogate_fit_size", "src/tuner/surrogate.cpp",
      r"function_t\(\"quadratic surrogate fitting function\",\s*(.*?)\)\s*,\s*m_loss",
      [(r"p\.cols\(\)", "n")], [("n", "Z")], "c06", ["C06"]),
    # chained CB3 I / II: the two tests that select the piece whose gradient is returned (after /repo 114b02b: non-strict, so that
    # on a tie an ACTIVE piece is selected); read structurally over Z, pinned to the model's Rgeb tests in C06_Proofs.v
    K("src_c06_cb3I_test1", "src/function/benchmark/chained_cb3I.cpp", r"\bif \((v1 [<>=]+ std::max\(v2, v3\))\)", [],
      [("v1", "Z"), ("v2", "Z"), ("v3", "Z")], "c06", ["C06"]),
    K("src_c06_cb3I_test2", "src/function/benchmark/chained_cb3I.cpp", r"else if \((v2 [<>=]+ std::max\(v1, v3\))\)", [],
      [("v1", "Z"), ("v2", "Z"), ("v3", "Z")], "c06", ["C06"]),
    K("src_c06_cb3II_test1", "src/function/benchmark/chained_cb3II.cpp", r"\bif \((fx1 [<>=]+ std::max\(fx2, fx3\))\)", [],
      [("fx1", "Z"), ("fx2", "Z"), ("fx3", "Z")], "c06", ["C06"]),
    K("src_c06_cb3II_test2", "src/function/benchmark/chained_cb3II.cpp", r"else if \((fx2 [<>=]+ std::max\(fx1, fx3\))\)", [],
      [("fx1", "Z"), ("fx2", "Z"), ("fx3", "Z")], "c06", ["C06"]),
]
