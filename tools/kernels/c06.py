"""integer kernels of the C06 objects: the size expressions of the function objects (C06)"""
_TS = [(r"tensor_size_t\s*[({]\s*(\d+)\s*[)}]", r"\1")]
# powell.cpp (extension C06_Rest): x(i4 + k) read as the variable xk; the gradient combinations over gfx0..gfx3
_PX = [(r"x\(i4 \+ (\d)\)", r"x\1")]
_PA = [("x0", "Z"), ("x1", "Z"), ("x2", "Z"), ("x3", "Z")]
_PG = [("gfx0", "Z"), ("gfx1", "Z"), ("gfx2", "Z"), ("gfx3", "Z")]
KERNELS = [
    # function_rosenbrock_t: function_t("rosenbrock", std::max(dims, tensor_size_t(2)))
    K("src_c06_rosenbrock_size", "src/function/benchmark/rosenbrock.cpp",
      r"function_t\(\"rosenbrock\",\s*(.*?)\)\s*\{", _TS, [("dims", "Z")], "c06", ["C06"]),
    # function_powell_t: function_t("powell", std::max(tensor_size_t(4), dims - dims % 4))
    K("src_c06_powell_size", "src/function/benchmark/powell.cpp",
      r"function_t\(\"powell\",\s*(.*?)\)\s*\{", _TS, [("dims", "Z")], "c06", ["C06"]),
    # elastic net objectives: make_size / make_inputs
    K("src_c06_enet_size", "src/function/benchmark/elastic_net.cpp",
      r"auto make_size\(const tensor_size_t dims\)\s*\{\s*return\s+(.*?);", _TS, [("dims", "Z")], "c06", ["C06"]),
    K("src_c06_enet_inputs", "src/function/benchmark/elastic_net.cpp",
      r"auto make_inputs\(const tensor_size_t dims\)\s*\{\s*return\s+(.*?);", _TS, [("dims", "Z")], "c06", ["C06"]),
    # linear::function_t: (isize + 1) * tsize free dimensions
    K("src_c06_linear_size", "src/linear/function.cpp",
      r"::nano::function_t\(\"linear\",\s*(.*?)\)\s*,\s*m_iterator",
      [(r"::isize\(iterator\)", "isize"), (r"::tsize\(iterator\)", "tsize")], [("isize", "Z"), ("tsize", "Z")], "c06", ["C06"]),
    # quadratic_surrogate_fit_t: (n + 1) (n + 2) / 2 coefficients
    K("src_c06_surrogate_fit_size", "src/tuner/surrogate.cpp",
      r"function_t\(\"quadratic surrogate fitting function\",\s*(.*?)\)\s*,\s*m_loss",
      [(r"p\.cols\(\)", "n")], [("n", "Z")], "c06", ["C06"]),
    # chained CB3 I / II: the two tests that select the piece whose gradient is returned (after /repo 114b02b: non-strict, so that
    # on a tie an ACTIVE piece is selected); read structurally over Z, pinned to the model's Rgeb tests in C06_Proofs.v
    K("src_c06_cb3I_test1", "src/function/benchmark/chained_cb3I.cpp", r"\bif \((v1 [<>=]+ std::max\(v2, v3\))\)", [],
      [("v1", "Z"), ("v2", "Z"), ("v3", "Z")], "c06", ["C06"]),
    K("src_c06_cb3I_test2", "src/function/benchmark/chained_cb3I.cpp", r"else if \((v2 [<>=]+ std::max\(v1, v3\))\)", [],
      [("v1", "Z"), ("v2", "Z"), ("v3", "Z")], "c06", ["C06"]),
    K("src_c06_cb3II_test1", "src/function/benchmark/chained_cb3II.cpp", r"\bif \((fx1 [<>=]+ std::max\(fx2, fx3\))\)", [],
      [("fx1", "Z"), ("fx2", "Z"), ("fx3", "Z")], "c06", ["C06"]),
    K("src_c06_cb3II_test2", "src/function/benchmark/chained_cb3II.cpp", r"else if \((fx2 [<>=]+ std::max\(fx1, fx3\))\)", [],
      [("fx1", "Z"), ("fx2", "Z"), ("fx3", "Z")], "c06", ["C06"]),
    # ---- extension (C06_Convex2): maxhilb weights 1.0 / static_cast<scalar_t>(i + j + 1); the loop test of maxquad (first largest piece)
    K("src_c06_maxhilb_den", "src/function/benchmark/maxhilb.cpp",
      r"m_weights\(i, j\)\s*=\s*1\.0\s*/\s*static_cast<scalar_t>\((.*?)\);", [], [("i", "Z"), ("j", "Z")], "c06", ["C06"]),
    K("src_c06_maxquad_test", "src/function/benchmark/maxquad.cpp", r"\bif \((kfx [<>=]+ fx)\)", [],
      [("kfx", "Z"), ("fx", "Z")], "c06", ["C06"]),
    # linear/function.cpp: the guards of the two regularisation terms (value and gradient use the same tests), read over Z
    K("src_c06_linear_l1_guard", "src/linear/function.cpp", r"auto fx = accumulator\.m_vm1;\s*if \((m_l1reg > 0\.0)\)", [(r"0\.0", "0")],
      [("m_l1reg", "Z")], "c06", ["C06"]),
    K("src_c06_linear_l2_guard", "src/linear/function.cpp", r"W\.array\(\)\.abs\(\)\.mean\(\);\s*\}\s*if \((m_l2reg > 0\.0)\)", [(r"0\.0", "0")],
      [("m_l2reg", "Z")], "c06", ["C06"]),
    # ---- extension (C06_Rest): own group `c06rest` (Src_c06rest.v) so that Src_c06.v (imported by C09 through C06_Defs) is untouched
    # functional constraints forward the flags of the wrapped function
    K("src_c06rest_functional_convex", "src/function/constraint.cpp",
      r"bool convex\(const functional_t& constraint\)\s*\{\s*return\s+(.*?);", [(r"constraint\.m_function->convex\(\)", "fconvex")],
      [("fconvex", "bool")], "c06rest", ["C06"]),
    K("src_c06rest_functional_smooth", "src/function/constraint.cpp",
      r"auto smooth\(const functional_t& constraint\)\s*\{\s*return\s+(.*?);", [(r"constraint\.m_function->smooth\(\)", "fsmooth")],
      [("fsmooth", "bool")], "c06rest", ["C06"]),
    K("src_c06rest_functional_sc", "src/function/constraint.cpp",
      r"scalar_t strong_convexity\(const functional_t& constraint\)\s*\{\s*return\s+(.*?);", [(r"constraint\.m_function->strong_convexity\(\)", "fsc")],
      [("fsc", "Z")], "c06rest", ["C06"]),
    # gboost grads objective / surrogate fit objective: convex iff the loss is
    K("src_c06rest_grads_convex", "src/gboost/function.cpp",
      r"grads_function_t::grads_function_t\(.*?\bconvex\((.*?)\);", [(r"loss\.convex\(\)", "lconvex"), (r"convexity::yes", "true"), (r"convexity::no", "false")],
      [("lconvex", "bool")], "c06rest", ["C06"]),
    K("src_c06rest_fit_convex", "src/tuner/surrogate.cpp",
      r"quadratic_surrogate_fit_t::quadratic_surrogate_fit_t\(.*?\bconvex\((.*?)\);", [(r"loss\.convex\(\)", "lconvex"), (r"convexity::yes", "true"), (r"convexity::no", "false")],
      [("lconvex", "bool")], "c06rest", ["C06"]),
    # maxquad.cpp, fill(A, k): index expressions of the matrix fill
    K("src_c06rest_maxquad_si", "src/function/benchmark/maxquad.cpp", r"const auto si = static_cast<scalar_t>\((.*?)\);", [], [("i", "Z")], "c06rest", ["C06"]),
    K("src_c06rest_maxquad_sk", "src/function/benchmark/maxquad.cpp", r"const auto sk = static_cast<scalar_t>\((.*?)\);", [], [("k", "Z")], "c06rest", ["C06"]),
    K("src_c06rest_maxquad_sj", "src/function/benchmark/maxquad.cpp", r"const auto sj = static_cast<scalar_t>\((.*?)\);", [], [("j", "Z")], "c06rest", ["C06"]),
    K("src_c06rest_maxquad_jstart", "src/function/benchmark/maxquad.cpp", r"for \(tensor_size_t j = (.*?); j < dims; \+\+j\)\s*\{\s*const auto sj", [], [("i", "Z")], "c06rest", ["C06"]),
    K("src_c06rest_maxquad_offdiag", "src/function/benchmark/maxquad.cpp", r"if \((i != j)\)\s*\{\s*sum \+=", [], [("i", "Z"), ("j", "Z")], "c06rest", ["C06"]),
    # powell.cpp: the four linear forms of a block (x(i4 + k) read as x0..x3 over Z) and the gradient combinations
    K("src_c06rest_powell_l0", "src/function/benchmark/powell.cpp", r"fx \+= nano::square\(([^;]*?)\);", _PX, _PA, "c06rest", ["C06"], flags=0),
    K("src_c06rest_powell_l1", "src/function/benchmark/powell.cpp", r"fx \+= nano::square\(([^;]*?)\) \* 5;", _PX, _PA, "c06rest", ["C06"], flags=0),
    K("src_c06rest_powell_l2", "src/function/benchmark/powell.cpp", r"fx \+= nano::quartic\(([^;]*?)\);", _PX, _PA, "c06rest", ["C06"], flags=0),
    K("src_c06rest_powell_l3", "src/function/benchmark/powell.cpp", r"fx \+= nano::quartic\(([^;]*?)\) \* 10;", _PX, _PA, "c06rest", ["C06"], flags=0),
    K("src_c06rest_powell_g0", "src/function/benchmark/powell.cpp", r"gx\(i4 \+ 0\) = (.*?);", [], _PG, "c06rest", ["C06"]),
    K("src_c06rest_powell_g1", "src/function/benchmark/powell.cpp", r"gx\(i4 \+ 1\) = (.*?);", [], _PG, "c06rest", ["C06"]),
    K("src_c06rest_powell_g2", "src/function/benchmark/powell.cpp", r"gx\(i4 \+ 2\) = (.*?);", [], _PG, "c06rest", ["C06"]),
    K("src_c06rest_powell_g3", "src/function/benchmark/powell.cpp", r"gx\(i4 \+ 3\) = (.*?);", [], _PG, "c06rest", ["C06"]),
    # surrogate.cpp: the inner loops over the upper triangle start at j = i (fit features, gradient, value)
    K("src_c06rest_surrogate_jstart", "src/tuner/surrogate.cpp", r"for \(tensor_size_t j = (\w+); j < size; \+\+j\)\s*\{\s*gx\(i\) \+=", [], [("i", "Z")], "c06rest", ["C06"]),
]
