"""integer kernels of the C06 objects: the size expressions of the function objects (C06)"""
_TS = [(r"tensor_size_t\s*[({]\s*(\d+)\s*[)}]", r"\1")]
KERNELS = [
    # function_rosenbrock_t: function_t("rosenbrock", std::max(dims, tensor_size_t(2)))
    K("src_c06_rosenbrock_size", "src/function/benchmark/rosenbrock.cpp",
      r"function_t\(\"rosenbrock\",\s*(.*?)\)\s*\{", _TS, [("dims", "Z")], "c06", ["C06"]),
    # function_powell_t: function_t("powell", std::max(tensor_size_t(4), dims - dims % 4))
    K("src_c06_powell_size", "src/function/benchmark/powell.cpp",
      r"function_t\(\"powell\",\s*(.*?)\)\s*\{", _TS, [("dims", "Z")], "c06", ["C06"]),
    # elastic net objectives: make_size / make_inputs
    K("src_c06_enet_size", "src/function/benchmark/elastic_net.cpp",
      r"auto make_size\(const tensor_size_t dims\)\s*\{\s*return\s+(.*?);", _TS, [("dims", "Z")], "c06", ["C06"]),
    K("src_c06_enet_inputs", "src/function/benchmark/elastic_net.cpp",
      r"auto make_inputs\(const tensor_size_t dims\)\s*\{\s*return\s+(.*?);", _TS, [("dims", "Z")], "c06", ["C06"]),
    # linear::function_t: (isize + 1) * tsize free dimensions
    K("src_c06_linear_size", "src/linear/function.cpp",
      r"::nano::function_t\(\"linear\",\s*(.*?)\)\s*,\s*m_iterator",
      [(r"::isize\(iterator\)", "isize"), (r"::tsize\(iterator\)", "tsize")], [("isize", "Z"), ("tsize", "Z")], "c06", ["C06"]),
    # quadratic_surrogate_fit_t: (n + 1) (n + 2) / 2 coefficients
    K("src_c06_surrogate_fit_size", "src/tuner/surrogate.cpp",
      r"function_t\(\"quadratic surrogate fitting function\",\s*(.*?)\)\s*,\s*m_loss",
      [(r"p\.cols\(\)", "n")], [("n", "Z")], "c06", ["C06"]),
    # chained CB3 I / II: the two tests that select the piece whose gradient is returned (after /repo 114b02b: non-strict, so that
    # on a tie an ACTIVE piece is selected); read structurally over Z, pinned to the model's Rgeb tests in C06_Proofs.v
    K("src_c06_cb3I_test1", "src/function/benchmark/chained_cb3I.cpp", r"\bif \((v1 [<>=]+ std::max\(v2, v3\))\)", [],
      [("v1", "Z"), ("v2", "Z"), ("v3", "Z")], "c06", ["C06"]),
    K("src_c06_cb3I_test2", "src/function/benchmark/chained_cb3I.cpp", r"else if \((v2 [<>=]+ std::max\(v1, v3\))\)", [],
      [("v1", "Z"), ("v2", "Z"), ("v3", "Z")], "c06", ["C06"]),
    K("src_c06_cb3II_test1", "src/function/benchmark/chained_cb3II.cpp", r"\bif \((fx1 [<>=]+ std::max\(fx2, fx3\))\)", [],
      [("fx1", "Z"), ("fx2", "Z"), ("fx3", "Z")], "c06", ["C06"]),
    K("src_c06_cb3II_test2", "src/function/benchmark/chained_cb3II.cpp", r"else if \((fx2 [<>=]+ std::max\(fx1, fx3\))\)", [],
      [("fx1", "Z"), ("fx2", "Z"), ("fx3", "Z")], "c06", ["C06"]),
    # ---- extension (C06_Convex2): maxhilb weights 1.0 / static_cast<scalar_t>(i + j + 1); the loop test of maxquad (first largest piece)
    K("src_c06_maxhilb_den", "src/function/benchmark/maxhilb.cpp",
      r"m_weights\(i, j\)\s*=\s*1\.0\s*/\s*static_cast<scalar_t>\((.*?)\);", [], [("i", "Z"), ("j", "Z")], "c06", ["C06"]),
    K("src_c06_maxquad_test", "src/function/benchmark/maxquad.cpp", r"\bif \((kfx [<>=]+ fx)\)", [],
      [("kfx", "Z"), ("fx", "Z")], "c06", ["C06"]),
    # linear/function.cpp: the guards of the two regularisation terms (value and gradient use the same tests), read over Z
    K("src_c06_linear_l1_guard", "src/linear/function.cpp", r"auto fx = accumulator\.m_vm1;\s*if \((m_l1reg > 0\.0)\)", [(r"0\.0", "0")],
      [("m_l1reg", "Z")], "c06", ["C06"]),
    K("src_c06_linear_l2_guard", "src/linear/function.cpp", r"W\.array\(\)\.abs\(\)\.mean\(\);\s*\}\s*if \((m_l2reg > 0\.0)\)", [(r"0\.0", "0")],
      [("m_l2reg", "Z")], "c06", ["C06"]),
]
