"""C05: branch conditions of the penalty / augmented-Lagrangian functions (src/function/penalty.cpp), the
equality classification of the 11 constraint kinds (src/function/constraint.cpp), the decisions of the
augmented-Lagrangian outer loop (src/solver/augmented.cpp) and of solver_t::done (src/solver.cpp).

The floating-point comparisons inside these expressions (`fc > 0.0`, `criterion <= epsilon`, ...) are atoms:
they become boolean arguments that the model computes over Q; what is translated is the boolean/integer
structure around them (which comparison is used is fixed by the atom's regex: a changed comparison no longer
matches and the kernel fails to translate = broken tie)."""

_GETIF = (r"std::get_if<constraint::(\w+)>\(&constraint\) != nullptr", r"is_\1")

KERNELS = [
    # ---- src/function/penalty.cpp -----------------------------------------------------------------
    K("src_pen_active", "src/function/penalty.cpp",
      r"auto penalty_vgrad\(.*?const auto eq = is_equality\(constraint\);\s*if \((.*?)\)\s*\{",
      [(r"fc > 0\.0", "fc_pos")],
      [("eq", "bool"), ("fc_pos", "bool")], "c05", ["C05"]),
    K("src_al_active", "src/function/penalty.cpp",
      r"augmented_lagrangian_function_t::do_vgrad\(.*?const auto mu\s*=[^;]*;\s*if \((.*?)\)\s*\{",
      [(r"\(fc \+ mu / ro > 0\.0\)", "shifted_pos")],
      [("eq", "bool"), ("shifted_pos", "bool")], "c05", ["C05"]),
    K("src_lin_sign", "src/function/penalty.cpp",
      r"linear_penalty_function_t::do_vgrad\(.*?gx \+= penalty\(\) \* \((.*?)\) \* gc;",
      [(r"fc >= 0\.0", "fc_nonneg"), (r"\+1\.0", "1"), (r"-1\.0", "(-1)")],
      [("fc_nonneg", "bool")], "c05", ["C05"]),
    K("src_is_linear_equality", "src/function/penalty.cpp",
      r"auto is_linear_equality\(const constraint_t& constraint\)\s*\{\s*return\s+(.*?);\s*\}",
      [_GETIF],
      [("is_constant_t", "bool"), ("is_linear_equality_t", "bool")], "c05", ["C05"]),
    K("src_pen_convex_ct", "src/function/penalty.cpp",
      r"auto convex\(const function_t& function\)\s*\{\s*const auto op = \[\]\(const auto& ct\)\s*\{\s*return (.*?);\s*\};",
      [(r"::nano::convex\(ct\)", "ct_convex"), (r"\bis_equality\(ct\)", "ct_eq"), (r"\bis_linear_equality\(ct\)", "ct_lineq")],
      [("ct_convex", "bool"), ("ct_eq", "bool"), ("ct_lineq", "bool")], "c05", ["C05"]),
    # ---- src/function/constraint.cpp --------------------------------------------------------------
    K("src_is_equality", "src/function/constraint.cpp",
      r"bool nano::is_equality\(const constraint_t& constraint\)\s*\{\s*return\s+(.*?);\s*\}",
      [_GETIF],
      [("is_constant_t", "bool"), ("is_linear_equality_t", "bool"), ("is_quadratic_equality_t", "bool"),
       ("is_functional_equality_t", "bool"), ("is_euclidean_ball_equality_t", "bool")], "c05", ["C05"]),
    # ---- src/solver/augmented.cpp -----------------------------------------------------------------
    K("src_al_converged", "src/solver/augmented.cpp",
      r"const auto converged = (.*?);",
      [(r"criterion <= epsilon", "crit_le_eps"), (r"::nano::converged\(bstate, cstate, epsilon\)", "dx_conv")],
      [("iter_ok", "bool"), ("crit_le_eps", "bool"), ("dx_conv", "bool")], "c05", ["C05"]),
    K("src_al_update", "src/solver/augmented.cpp",
      r"if \(([^{}]*?)\)\s*\{\s*bstate\.update\(cstate\.x\(\), lambda, miu\);",
      [(r"criterion < old_criterion", "crit_lt_old")],
      [("iter_ok", "bool"), ("crit_lt_old", "bool")], "c05", ["C05"]),
    K("src_al_grow", "src/solver/augmented.cpp",
      r"if \(([^{}]*?)\)\s*\{\s*ro = gamma \* ro;",
      [(r"criterion > tau \* old_criterion", "crit_gt_tau_old")],
      [("outer", "Z"), ("crit_gt_tau_old", "bool")], "c05", ["C05"]),
    K("src_al_loop", "src/solver/augmented.cpp",
      r"for \(tensor_size_t outer = 0; (.*?); \+\+outer\)",
      [],
      [("outer", "Z"), ("max_outers", "Z")], "c05", ["C05"]),
    # ---- src/solver.cpp: solver_t::done -----------------------------------------------------------
    K("src_done_step_ok", "src/solver.cpp",
      r"bool solver_t::done\(.*?const auto step_ok = (.*?);",
      [(r"state\.valid\(\)", "state_valid")],
      [("iter_ok", "bool"), ("state_valid", "bool")], "c05", ["C05"]),
    K("src_done_stop", "src/solver.cpp",
      r"bool solver_t::done\(.*?const auto step_ok = [^;]*;\s*(.*?)\)\s*\{",
      [],
      [("converged", "bool"), ("step_ok", "bool")], "c05", ["C05"]),
    K("src_done_status", "src/solver.cpp",
      r"bool solver_t::done\(.*?state\.status\((.*?)\);",
      [(r"solver_status::converged", "1"), (r"solver_status::failed", "2")],
      [("converged", "bool"), ("step_ok", "bool")], "c05", ["C05"]),
    # ---- src/solver/penalty.cpp: outer loop of solver_penalty_t::minimize (extension C05_Outer) ---------
    K("src_ps_loop", "src/solver/penalty.cpp",
      r"solver_penalty_t::minimize\(.*?for \(tensor_size_t outer = 0; (.*?); \+\+outer\)",
      [],
      [("outer", "Z"), ("max_outers", "Z")], "c05", ["C05"]),
    # the `continue` branch: the inner solution is not usable, only the penalty grows
    K("src_ps_skip", "src/solver/penalty.cpp",
      r"solver_penalty_t::minimize\(.*?const auto iter_ok = cstate\.valid\(\);\s*if \((.*?)\)\s*\{\s*penalty \*= eta;\s*continue;",
      [],
      [("iter_ok", "bool")], "c05", ["C05"]),
    # ---- src/solver/state.cpp: ::nano::converged(bstate, cstate, epsilon); the comparison is an atom (computed by the model
    # over Q with the rounded operations), its text is pinned by the atom's regex
    K("src_state_converged", "src/solver/state.cpp",
      r"bool nano::converged\(const solver_state_t& bstate, const solver_state_t& cstate, const scalar_t epsilon\)\s*\{\s*"
      r"const auto dx = \(cstate\.x\(\) - bstate\.x\(\)\)\.lpNorm<Eigen::Infinity>\(\);\s*return (.*?);",
      [(r"dx < epsilon \* std::max\(1\.0, bstate\.x\(\)\.lpNorm<Eigen::Infinity>\(\)\)", "dx_lt_scaled")],
      [("dx_lt_scaled", "bool")], "c05", ["C05"]),
    K("src_ps_converged", "src/solver/penalty.cpp",
      r"solver_penalty_t::minimize\(.*?const auto converged = (.*?);\s*bstate\.update\(cstate\.x\(\)\);\s*if \(done\(bstate, iter_ok, converged, logger\)\)",
      [(r"::nano::converged\(bstate, cstate, epsilon\)", "dx_conv")],
      [("iter_ok", "bool"), ("dx_conv", "bool")], "c05", ["C05"]),
]
