"""kernels of the solver skeleton (C02, C01): the decision of solver_t::done, the index arithmetic of
solver_state_t::value_test, the evaluation counters of function_t::vgrad and the budget-loop condition of every
do_minimize.  Own group "c02" (the generated Src_c02.v imports Src_numeric, which tools/checks/c02.py makes sure exists).

Conventions: solver_status is encoded by its enumerator position (max_iters=0, converged=1, failed=2; the harness
prints static_cast<int>(status), so the encoding is checked by the correspondence on every run)."""
_S = "src/solver.cpp"
_T = "src/solver/state.cpp"
_F = "src/function.cpp"
_P = ["C02", "C01"]

_DONE = r"bool solver_t::done\(solver_state_t& state, const bool iter_ok, const bool converged, const logger_t& logger\) const\s*\{"

KERNELS = [
    # ---- solver_t::done ---------------------------------------------------------------------------------
    K("src_done_step_ok", _S, _DONE + r".*?if \(const auto step_ok = (.*?);",
      [(r"state\.valid\(\)", "valid")], [("iter_ok", "bool"), ("valid", "bool")], "c02", _P),
    K("src_done_stop", _S, _DONE + r".*?if \(const auto step_ok = [^;]*;\s*(.*?)\)\s*\{",
      [], [("converged", "bool"), ("step_ok", "bool")], "c02", _P),
    K("src_done_status", _S, _DONE + r".*?state\.status\((.*?)\);",
      [(r"solver_status::converged", "1"), (r"solver_status::failed", "2"), (r"solver_status::max_iters", "0"),
       (r"state\.valid\(\)", "valid")],
      [("converged", "bool"), ("step_ok", "bool"), ("valid", "bool")], "c02", _P),   # repo 85997bc: (converged && step_ok)
    # the value returned on the two branches (first `return` = stop branch, second = go-on branch)
    K("src_done_ret_stop", _S, _DONE + r".*?state\.status\([^;]*;.*?return (.*?);", [], [], "c02", _P),
    K("src_done_ret_go", _S, _DONE + r".*?else\s*\{.*?return (.*?);", [], [], "c02", _P),
    # ---- solver_state_t::value_test ----------------------------------------------------------------------
    K("src_vt_loop", _T, r"scalar_t solver_state_t::value_test\(.*?for \(size_t it = m_history_df\.size\(\); (.*?);",
      [], [("it", "Z")], "c02", _P),
    K("src_vt_pos", _T, r"scalar_t solver_state_t::value_test\(.*?const auto df = m_history_df\[(.*?)\];",
      [], [("it", "Z")], "c02", _P),
    K("src_vt_index", _T, r"scalar_t solver_state_t::value_test\(.*?dd = std::max\(df, dx\);\s*ii = (.*?);",
      [], [("it", "Z")], "c02", _P),
    K("src_vt_none", _T, r"scalar_t solver_state_t::value_test\(.*?\}\s*\}\s*if \((.*?)\)\s*\{",
      [(r"m_history_df\.size\(\)", "size")], [("ii", "Z"), ("size", "Z")], "c02", _P),
    K("src_vt_enough", _T, r"scalar_t solver_state_t::value_test\(.*?return (m_history_df\.size\(\) [^?]*?)\? 0\.0 : dd;",
      [(r"m_history_df\.size\(\)", "size"), (r"static_cast<size_t>\(patience\)", "patience")],
      [("size", "Z"), ("patience", "Z")], "c02", _P),
    K("src_vt_recent", _T, r"scalar_t solver_state_t::value_test\(.*?else if \((.*?)\)\s*\{\s*return dd;",
      [(r"m_history_df\.size\(\)", "size"), (r"static_cast<size_t>\(patience\)", "patience")],
      [("ii", "Z"), ("size", "Z"), ("patience", "Z")], "c02", _P),
    # ---- function_t::vgrad counters -----------------------------------------------------------------------
    K("src_fn_fcalls", _F, r"scalar_t function_t::vgrad\(.*?m_fcalls \+= (.*?);",
      [], [("m_fcalls", "Z")], "c02", _P, wrap="m_fcalls + ({})"),
    K("src_fn_gcalls", _F, r"scalar_t function_t::vgrad\(.*?m_gcalls \+= (.*?);",
      [(r"gx\.size\(\)", "gsize"), (r"\bsize\(\)", "fsize")],
      [("m_gcalls", "Z"), ("gsize", "Z"), ("fsize", "Z")], "c02", _P, wrap="m_gcalls + ({})"),
]

# ---- the budget loop of every do_minimize: `while (function.fcalls() + function.gcalls() < max_evals)` -------------
_LOOPS = [("asga2", "src/solver/asga.cpp", 0), ("asga4", "src/solver/asga.cpp", 1), ("cgd", "src/solver/cgd.cpp", 0),
          ("cocob", "src/solver/cocob.cpp", 0), ("csearch", "src/solver/csearch.cpp", 0),
          ("ellipsoid", "src/solver/ellipsoid.cpp", 0), ("fpba", "src/solver/fpba.cpp", 0), ("gd", "src/solver/gd.cpp", 0),
          ("gsample", "src/solver/gsample.cpp", 0), ("lbfgs", "src/solver/lbfgs.cpp", 0), ("osga", "src/solver/osga.cpp", 0),
          ("pdsgm", "src/solver/pdsgm.cpp", 0), ("quasi", "src/solver/quasi.cpp", 0), ("rqb", "src/solver/rqb.cpp", 0),
          ("sgm", "src/solver/sgm.cpp", 0), ("pgm", "src/solver/universal.cpp", 0), ("dgm", "src/solver/universal.cpp", 1),
          ("fgm", "src/solver/universal.cpp", 2)]
for _n, _f, _k in _LOOPS:
    KERNELS.append(K("src_loop_" + _n, _f, r"while \(((?:m_)?function\.[fg]calls\(\)[^{;]*?)\)\s*\{",
                     [(r"(?:m_)?function\.fcalls\(\)", "fcalls"), (r"(?:m_)?function\.gcalls\(\)", "gcalls")],
                     [("fcalls", "Z"), ("gcalls", "Z"), ("max_evals", "Z")], "c02", _P, pick=_k))

# ---- extension (C02_LsLoop): the final `return` of the four line-search solver bodies -----------------------------------
# own group "c02ls" (Src_c02ls.v; C01 does not depend on it). 1 = the (c)state object, 0 = pstate.
_RET = r"::do_minimize\(.*?\n    return ([^;]*);\s*\n\}"
_RATOMS = [(r"cstate\.valid\(\)", "valid_c"), (r"\bcstate\b", "1"), (r"\bpstate\b", "0"), (r"\bstate\b", "1")]
KERNELS.append(K("src_ret_gd", "src/solver/gd.cpp", _RET, _RATOMS, [], "c02ls", ["C02"]))
for _n in ("cgd", "lbfgs", "quasi"):
    KERNELS.append(K("src_ret_" + _n, "src/solver/%s.cpp" % _n, _RET, _RATOMS, [("valid_c", "bool")], "c02ls", ["C02"]))

# ---- extension 2 (C02_Bodies): the decisions of the simplest best-state solver bodies: sgm.cpp, cocob.cpp, pdsgm.cpp ------
# own group "c02b" (Src_c02b.v; C01 does not depend on it). Floating-point comparisons / calls are atoms (booleans supplied by
# the model, which computes them in binary64); what is translated is HOW the body combines them: the flags handed to
# solver_t::done on the zero-sub-gradient exit and after an evaluation, the base of std::pow and the iteration counter of sgm,
# the choice of L0 in cocob, the reset test of pdsgm's model. A comparison operator that changes (`<` -> `<=`) no longer
# matches its atom: the kernel does not translate (broken tie) and the direct oracle / correspondence gives the input.
_B = ["C02"]
_SGM, _COC, _PDS = "src/solver/sgm.cpp", "src/solver/cocob.cpp", "src/solver/pdsgm.cpp"
_ZERO_S = r"g\.lpNorm<Eigen::Infinity>\(\) < std::numeric_limits<scalar_t>::epsilon\(\)"
_ZERO_P = r"gx\.lpNorm<Eigen::Infinity>\(\) < std::numeric_limits<scalar_t>::epsilon\(\)"
_DM = r"::do_minimize\(.*?"
KERNELS += [
    # sgm
    K("src_sgm_zero_exit", _SGM, _DM + r"while \([^{]*\{\s*if \((.*?)\)\s*\{", [(_ZERO_S, "small")], [("small", "bool")], "c02b", _B),
    K("src_sgm_zero_ok", _SGM, _DM + r"while \([^{]*\{\s*if \([^{]*\{\s*const auto iter_ok\s*=\s*(.*?);", [], [], "c02b", _B),
    K("src_sgm_zero_conv", _SGM, _DM + r"while \([^{]*\{\s*if \([^{]*\{\s*const auto iter_ok[^;]*;\s*const auto converged\s*=\s*(.*?);", [], [], "c02b", _B),
    K("src_sgm_pow_base", _SGM, _DM + r"const auto lambda = 1\.0 / std::pow\((.*?), power\);", [], [("iteration", "Z")], "c02b", _B),
    K("src_sgm_iter_ok", _SGM, _DM + r"update_if_better\(x, g, f\);\s*const auto iter_ok\s*=\s*(.*?);",
      [(r"std::isfinite\(f\)", "fin")], [("fin", "bool")], "c02b", _B),
    K("src_sgm_conv", _SGM, _DM + r"update_if_better\(x, g, f\);\s*const auto iter_ok[^;]*;\s*const auto converged\s*=\s*(.*?);",
      [(r"state\.value_test\(patience\) < epsilon", "below")], [("below", "bool")], "c02b", _B),
    K("src_sgm_next_iter", _SGM, _DM + r"if \(solver_t::done\(state, iter_ok, converged, logger\)\)\s*\{\s*break;\s*\}\s*(\+\+iteration);",
      [(r"\+\+iteration", "iteration + 1")], [("iteration", "Z")], "c02b", _B),
    K("src_sgm_iter0", _SGM, _DM + r"auto iteration = (.*?);", [], [], "c02b", _B),
    # cocob
    K("src_cocob_L0", _COC, _DM + r"const auto L0\s*=\s*(.*?);",
      [(r"function\.smooth\(\)", "smooth"), (r"L0_smooth", "1"), (r"L0_nonsmooth", "0")], [("smooth", "bool")], "c02b", _B),
    K("src_cocob_iter_ok", _COC, _DM + r"update_if_better\(x, gx, fx\);\s*const auto iter_ok\s*=\s*(.*?);",
      [(r"std::isfinite\(fx\)", "fin")], [("fin", "bool")], "c02b", _B),
    K("src_cocob_conv", _COC, _DM + r"update_if_better\(x, gx, fx\);\s*const auto iter_ok[^;]*;\s*const auto converged\s*=\s*(.*?);",
      [(r"state\.value_test\(patience\) < epsilon", "below")], [("below", "bool")], "c02b", _B),
    # pdsgm (sda, wda)
    K("src_pdsgm_zero_exit", _PDS, _DM + r"while \([^{]*\{\s*if \((.*?)\)\s*\{", [(_ZERO_P, "small")], [("small", "bool")], "c02b", _B),
    K("src_pdsgm_zero_ok", _PDS, _DM + r"while \([^{]*\{\s*if \([^{]*\{\s*const auto iter_ok\s*=\s*(.*?);",
      [(r"state\.valid\(\)", "valid")], [("valid", "bool")], "c02b", _B),
    K("src_pdsgm_zero_conv", _PDS, _DM + r"while \([^{]*\{\s*if \([^{]*\{\s*const auto iter_ok[^;]*;\s*const auto converged\s*=\s*(.*?);", [], [], "c02b", _B),
    K("src_pdsgm_iter_ok", _PDS, _DM + r"update_if_better\(x, gx, fx\);\s*const auto iter_ok\s*=\s*(.*?);",
      [(r"std::isfinite\(fx\)", "fin")], [("fin", "bool")], "c02b", _B),
    K("src_pdsgm_conv", _PDS, _DM + r"update_if_better\(x, gx, fx\);\s*const auto iter_ok[^;]*;\s*const auto converged\s*=\s*(.*?);",
      [(r"state\.value_test\(patience\) < epsilon", "below")], [("below", "bool")], "c02b", _B),
    K("src_pdsgm_reset", _PDS, r"void updateL\(.*?if \((.*?)\)\s*\{", [(r"gnorm > m_L", "larger")], [("larger", "bool")], "c02b", _B),
]

# ---- extension 3 (C02_Bodies2): the decisions of the remaining non-line-search bodies: ellipsoid.cpp, osga.cpp, universal.cpp
# (pgm / dgm / fgm), asga.cpp (asga2 / asga4) -- own group "c02c" (Src_c02c.v). As for c02b: floating-point comparisons are atoms
# (booleans the model computes in binary64), what is translated is how the body combines them, which integer parameter caps the
# inner backtracking loop (seeded change C02/3 read another parameter there) and the condition of that loop.
_ELL, _OSG, _UNI, _ASG = "src/solver/ellipsoid.cpp", "src/solver/osga.cpp", "src/solver/universal.cpp", "src/solver/asga.cpp"
_ZERO_E = r"gHg < std::numeric_limits<scalar_t>::epsilon\(\)"
_ZERO_O = r"state\.gx\(\)\.lpNorm<Eigen::Infinity>\(\) < epsilon0<scalar_t>\(\)"
_VT = (r"state\.value_test\(patience\) < epsilon", "below")
_PARAMS = [(r'parameter\("solver::max_evals"\)\.value<\w+>\(\)', "max_evals"),
           (r'parameter\("solver::universal::lsearch_max_iters"\)\.value<\w+>\(\)', "lsearch_max_iters"),
           (r'parameter\("solver::universal::patience"\)\.value<\w+>\(\)', "patience"),
           (r'parameter\("solver::asga::lsearch_max_iters"\)\.value<\w+>\(\)', "lsearch_max_iters"),
           (r'parameter\("solver::asga::patience"\)\.value<\w+>\(\)', "patience")]
_PARGS = [("lsearch_max_iters", "Z"), ("patience", "Z"), ("max_evals", "Z")]
KERNELS += [
    # ellipsoid
    K("src_ell_zero_exit", _ELL, _DM + r"while \([^{]*\{\s*const auto gHg[^;]*;\s*if \((.*?)\)\s*\{", [(_ZERO_E, "small")], [("small", "bool")], "c02c", _B),
    K("src_ell_zero_ok", _ELL, _DM + r"while \([^{]*\{\s*const auto gHg[^;]*;\s*if \([^{]*\{\s*const auto iter_ok\s*=\s*(.*?);", [], [], "c02c", _B),
    K("src_ell_zero_conv", _ELL, _DM + r"while \([^{]*\{\s*const auto gHg[^;]*;\s*if \([^{]*\{\s*const auto iter_ok[^;]*;\s*const auto converged\s*=\s*(.*?);", [], [], "c02c", _B),
    K("src_ell_1d", _ELL, _DM + r"#endif\s*if \((function\.size\(\) == 1)\)\s*\{", [(r"function\.size\(\)", "size")], [("size", "Z")], "c02c", _B),
    K("src_ell_H0_choice", _ELL, _DM + r"H\.array\(\) \*= (.*?);", [(r"function\.size\(\)", "size"), (r"\(R \* R\)", "2"), (r"\bR\b", "1")],
      [("size", "Z")], "c02c", _B),
    K("src_ell_iter_ok", _ELL, _DM + r"update_if_better\(x, g, f\);\s*const auto iter_ok\s*=\s*(.*?);",
      [(r"std::isfinite\(f\)", "fin")], [("fin", "bool")], "c02c", _B),
    K("src_ell_conv", _ELL, _DM + r"update_if_better\(x, g, f\);\s*const auto iter_ok[^;]*;\s*const auto converged\s*=\s*(.*?);",
      [(r"std::sqrt\(gHg\) < epsilon", "below")], [("below", "bool")], "c02c", _B),
    # osga
    K("src_osga_zero_exit", _OSG, _DM + r"while \([^{]*\{\s*if \((.*?)\)\s*\{", [(_ZERO_O, "small")], [("small", "bool")], "c02c", _B),
    K("src_osga_zero_conv", _OSG, _DM + r"while \([^{]*\{\s*if \([^{]*\{\s*const auto converged\s*=\s*(.*?);", [], [], "c02c", _B),
    K("src_osga_zero_ok", _OSG, _DM + r"while \([^{]*\{\s*if \([^{]*\{\s*const auto converged[^;]*;\s*const auto iter_ok\s*=\s*(.*?);",
      [(r"state\.valid\(\)", "valid")], [("valid", "bool")], "c02c", _B),
    K("src_osga_pick1", _OSG, _DM + r"const auto& xb_prime = (.*?);", [(r"f < fb", "lt"), (r"\bxb\b", "0"), (r"\bx\b", "1")], [("lt", "bool")], "c02c", _B),
    K("src_osga_pick2", _OSG, _DM + r"const auto& xb_hat = (.*?);", [(r"f_prime < fb_prime", "lt"), (r"\bxb_prime\b", "0"), (r"\bx_prime\b", "1")],
      [("lt", "bool")], "c02c", _B),
    K("src_osga_iter_ok", _OSG, _DM + r"update_if_better\(xb_hat, fb_hat\);.*?const auto iter_ok\s*=\s*(.*?);", [(r"state\.valid\(\)", "valid")], [("valid", "bool")], "c02c", _B),
    K("src_osga_conv", _OSG, _DM + r"update_if_better\(xb_hat, fb_hat\);.*?const auto iter_ok[^;]*;\s*const auto converged\s*=\s*(.*?);",
      [(r"eta_hat < epsilon", "eta_below"), _VT], [("eta_below", "bool"), ("below", "bool")], "c02c", _B),
]
# universal (pgm, dgm, fgm: occurrences 0, 1, 2) and asga (asga2, asga4: occurrences 0, 1)
for _n, _k in (("pgm", 0), ("dgm", 1), ("fgm", 2)):
    KERNELS += [
        K("src_%s_cap" % _n, _UNI, r"const auto lsearch_max_iterations\s*=\s*(.*?);", _PARAMS, _PARGS, "c02c", _B, pick=_k),
        K("src_%s_inner" % _n, _UNI, r"for \((?:tensor_size_t|int64_t) k = 0; (.*?); \+\+k\)",
          [(r"std::isfinite\(fxk1\) && std::isfinite\(fyk1\)", "fin"), (r"std::isfinite\(fxk1\)", "fin"), (r"lsearch_max_iterations", "cap")],
          [("k", "Z"), ("cap", "Z"), ("iter_ok", "bool"), ("fin", "bool")], "c02c", _B, pick=_k),
        K("src_%s_conv" % _n, _UNI, r"update_if_better\([^;]*;\s*converged\s*=\s*(.*?);", [_VT], [("below", "bool")], "c02c", _B, pick=_k),
    ]
for _n, _k in (("asga2", 0), ("asga4", 1)):
    KERNELS += [
        K("src_%s_cap" % _n, _ASG, r"const auto lsearch_max_iters\s*=\s*(.*?);", _PARAMS, _PARGS, "c02c", _B, pick=_k),
        K("src_%s_inner" % _n, _ASG, r"for \(auto p = 0; (.*?); \+\+p\)", [(r"lsearch_max_iters", "cap")],
          [("p", "Z"), ("cap", "Z"), ("iter_ok", "bool")], "c02c", _B, pick=_k),
        K("src_%s_conv" % _n, _ASG, r"update_if_better\([^;]*;\s*const auto converged\s*=\s*(.*?);", [_VT], [("below", "bool")], "c02c", _B, pick=_k),
    ]
