"""kernels of include/nano/core/stats.h (percentile rule) and include/nano/core/histogram.h (C20).

Only the integer/boolean decision expressions are translated; the floating-point position
`percentage * double(size - 1) / 100.0` and `std::floor/ceil` are modelled with PrimFloat in C20_Defs.v."""
_H = "include/nano/core/histogram.h"
_S = "include/nano/core/stats.h"
KERNELS = [
    # the generated Src_<group>.v files import Src_numeric: make sure it is (re)generated for C20 runs on a fresh
    # (alternate) tree as well -- same anchor as C16's src_idiv, not used by the C20 model
    K("src_idiv_c20", "include/nano/core/numeric.h",
      r"tnominator\s+idiv\s*\([^)]*\)\s*(?:noexcept)?\s*\{\s*return\s+(.*?);\s*\}",
      [(CAST + r"\((\w+)\)", r"\1"), (r"static_cast<\w+>\((\w+)\)", r"\1")],
      [("nominator", "Z"), ("denominator", "Z")], "numeric", ["C20"]),
    # ---- stats.h: detail::percentile ----------------------------------------------------------------
    # the integer argument of the position formula (last valid index)
    K("src_pct_last", _S,
      r"const double position\s*=\s*percentage\s*\*\s*static_cast<double>\((.*?)\)\s*/\s*100\.0\s*;",
      [], [("size", "Z")], "pctile", ["C20"]),
    # one element or the midpoint of two
    K("src_pct_same", _S,
      r"std::ceil\(position\)\);\s*if \((.*?)\)\s*\{\s*return from_position\(lpos\);",
      [], [("lpos", "Z"), ("rpos", "Z")], "pctile", ["C20"]),
    # ---- histogram.h: update / update_bin ----------------------------------------------------------
    K("src_hist_bins", _H,
      r"void update\(titerator begin, titerator end\)\s*\{\s*const auto bins\s*=\s*(.*?);",
      [(r"m_thresholds\.size\(\)", "nthr")], [("nthr", "Z")], "histogram", ["C20"]),
    K("src_hist_loop", _H,
      r"for \(tensor_size_t bin = 0;\s*(.*?);\s*\+\+bin\)\s*\{\s*if \(bin \+ 1 < bins\)",
      [], [("bin", "Z"), ("bins", "Z")], "histogram", ["C20"]),
    K("src_hist_not_last", _H,
      r"for \(tensor_size_t bin = 0; bin < bins; \+\+bin\)\s*\{\s*if \((.*?)\)\s*\{\s*const auto op",
      [], [("bin", "Z"), ("bins", "Z")], "histogram", ["C20"]),
    # "value >= threshold goes right": the predicate handed to std::upper_bound over the sorted values.
    # It is applied in the model to (three-way comparison of value and threshold, 0).
    K("src_hist_goes_right", _H,
      r"const auto op = \[\]\(scalar_t threshold, scalar_t value\)\s*\{\s*return (.*?);\s*\};\s*"
      r"const auto it = std::upper_bound\(begin, end, m_thresholds\(bin\), op\);\s*update_bin\(begin, it, bin\);\s*begin = it;",
      [], [("threshold", "Z"), ("value", "Z")], "histogram", ["C20"]),
    K("src_hist_nonempty", _H,
      r"m_bin_counts\(bin\) = count;\s*if \((.*?)\)\s*\{\s*m_bin_means\(bin\)\s*=\s*mean\(begin, end, count\);\s*"
      r"m_bin_medians\(bin\)\s*=\s*median_sorted\(begin, end\);",
      [], [("count", "Z")], "histogram", ["C20"]),
    # ---- histogram.h: bin(value) ---------------------------------------------------------------------
    # the query is compared as a scalar (identity); an integer cast here leaves the accepted subset
    K("src_bin_query", _H,
      r"tensor_size_t bin\(tvalue value\) const\s*\{\s*const auto svalue\s*=\s*(.*?);",
      [(r"static_cast<scalar_t>\((\w+)\)", r"\1")], [("value", "Z")], "histogram", ["C20"]),
    K("src_bin_at_end", _H,
      r"const auto\* const it = std::upper_bound\(begin, end, svalue\);\s*if \((.*?)\)",
      [], [("it", "Z"), ("end_", "Z")], "histogram", ["C20"]),
    K("src_bin_last", _H,
      r"std::upper_bound\(begin, end, svalue\);\s*if \(it == end\)\s*\{\s*return (.*?);",
      [(r"bins\(\)", "nbins")], [("nbins", "Z")], "histogram", ["C20"]),
    K("src_bin_found", _H,
      r"return bins\(\) - 1;\s*\}\s*else\s*\{\s*return (.*?);",
      [(r"static_cast<tensor_size_t>\(std::distance\(begin, it\)\)", "it")], [("it", "Z")], "histogram", ["C20"]),
    # ---- extension (C20_Float*): the shape of the position arithmetic, the index casts, the midpoint -----------
    # (new group `pctpos`, so that the files of the first round are not recompiled)
    # the position expression with the double conversions erased: for an integer percentage the real number it
    # denotes is percentage*(size-1)/100, whose floor is this integer expression (C20_kernel_position pins it to the
    # PrimFloat model; a re-associated expression such as `percentage / 100.0 * (size - 1)` translates but breaks it)
    K("src_pct_pos_int", _S,
      r"const double position\s*=\s*(.*?);",
      [(r"static_cast<double>\(([^()]*)\)", r"(\1)"), (r"\b100\.0\b", "100")],
      [("percentage", "Z"), ("size", "Z")], "pctpos", ["C20"]),
    # lpos / rpos: the casts of std::floor(position) / std::ceil(position); anything else leaves the subset
    # (`position + 0.5`) or breaks C20_kernel_indices (`lpos + 1`)
    K("src_pct_lpos", _S,
      r"const auto lpos\s*=\s*(.*?);",
      [(r"std::floor\(position\)", "pos_floor"), (r"std::ceil\(position\)", "pos_ceil"),
       (r"static_cast<decltype\(size\)>\((\w+)\)", r"\1")],
      [("pos_floor", "Z"), ("pos_ceil", "Z")], "pctpos", ["C20"]),
    K("src_pct_rpos", _S,
      r"const auto rpos\s*=\s*(.*?);",
      [(r"std::floor\(position\)", "pos_floor"), (r"std::ceil\(position\)", "pos_ceil"),
       (r"static_cast<decltype\(size\)>\((\w+)\)", r"\1")],
      [("pos_floor", "Z"), ("pos_ceil", "Z"), ("lpos", "Z")], "pctpos", ["C20"]),
    # the midpoint of the two neighbours (repaired in /repo 985fdb5: the sum of two large values overflows): the sum and the
    # two-branch result as integer expressions, `std::isfinite(sum)` being a boolean supplied by the model (`fin Op`);
    # C20_kernel_indices pins both to `mid_shape` / `midpoint` of the polymorphic model
    K("src_pct_sum", _S,
      r"const auto rvalue\s*=\s*from_position\(rpos\);\s*const auto sum\s*=\s*(.*?);",
      [], [("lvalue", "Z"), ("rvalue", "Z")], "pctpos", ["C20"]),
    K("src_pct_mid", _S,
      r"const auto sum\s*=\s*lvalue \+ rvalue;\s*return (.*?);",
      [(r"std::isfinite\(sum\)", "sum_finite")],
      [("lvalue", "Z"), ("rvalue", "Z"), ("sum", "Z"), ("sum_finite", "bool")], "pctpos", ["C20"]),
]
