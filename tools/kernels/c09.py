"""kernels of the ML objectives (C09): sum_reduce loop bounds (reduce.h), the parameter layout of the linear
objective (linear/function.{h,cpp}), the unassigned-sample tests and the gradient guards of the gboost objectives
(gboost/function.cpp), the cache tests of the dataset iterators (dataset/iterator.cpp).
The chunk bounds of pool_t::map (parallel.h) are the kernels of tools/kernels/c17.py (group "parallel")."""
RED = "include/nano/core/reduce.h"
LINH = "include/nano/linear/function.h"
LINC = "src/linear/function.cpp"
GBC = "src/gboost/function.cpp"
ITC = "src/dataset/iterator.cpp"
SR = r"const auto& sum_reduce\(std::vector<taccumulator>& accumulators, const tensor_size_t samples\)\s*\{"
SCALE = r"scalar_t scale_function_t::do_vgrad\(vector_cmap_t x, vector_map_t gx\) const\s*\{"
BIAS = r"scalar_t bias_function_t::do_vgrad\(vector_cmap_t x, vector_map_t gx\) const\s*\{"
LIN = r"scalar_t linear::function_t::do_vgrad\(vector_cmap_t x, vector_map_t gx\) const\s*\{"
SZ = [(r"gx\.size\(\)", "gx_size"), (r"x\.size\(\)", "x_size")]
KERNELS = [
    # ---- include/nano/core/reduce.h: accumulator0 += accumulators[i] for i = 1 .. size-1, then /= samples ---------
    K("src_c09_reduce_target", RED, SR + r"\s*auto& accumulator0 = accumulators\[(.*?)\];",
      [], [], "c09", ["C09"]),
    K("src_c09_reduce_first", RED, SR + r".*?for \(size_t i = (.*?);",
      [], [], "c09", ["C09"]),
    K("src_c09_reduce_continue", RED, SR + r".*?for \(size_t i = [^;]*;(.*?);",
      [(r"accumulators\.size\(\)", "size_")], [("i", "Z"), ("size_", "Z")], "c09", ["C09"]),
    K("src_c09_reduce_next", RED, SR + r".*?for \(size_t i = [^;]*;[^;]*;\s*(.*?)\)\s*\{",
      [(r"\+\+i", "i + 1")], [("i", "Z")], "c09", ["C09"]),
    # ---- linear objective: x = [W (tsize x isize, row-major) | b (tsize)] ------------------------------------------
    K("src_c09_lin_size", LINC, r"::nano::function_t\(\"linear\", (.*?)\)\s*,",
      [(r"::isize\(iterator\)", "isize"), (r"::tsize\(iterator\)", "tsize")],
      [("isize", "Z"), ("tsize", "Z")], "c09", ["C09"]),
    K("src_c09_lin_bias_offset", LINH, r"auto bias\(ttensor& x\) const\s*\{.*?return map_tensor\(x\.data\(\) \+ (.*?), m_tsize\);",
      [], [("m_isize", "Z"), ("m_tsize", "Z")], "c09", ["C09"]),
    K("src_c09_lin_layout_ok", LINH, r"auto weights\(ttensor& x\) const\s*\{\s*assert\((.*?)\);",
      SZ, [("x_size", "Z"), ("m_isize", "Z"), ("m_tsize", "Z")], "c09", ["C09"]),
    K("src_c09_lin_grad_requested", LINC, LIN + r".*?m_loss\.value\(.*?if \((.*?)\)\s*\{",
      SZ, [("gx_size", "Z")], "c09", ["C09"]),
    # ---- gboost objectives -----------------------------------------------------------------------------------------
    K("src_c09_scale_unassigned", GBC, SCALE + r".*?const auto scale\s*=\s*\((.*?)\)\s*\?\s*0\.0\s*:\s*x\(group\);",
      [], [("group", "Z")], "c09", ["C09"]),
    K("src_c09_scale_grad_requested", GBC, SCALE + r".*?accumulator\.update\(values\);\s*if \((.*?)\)\s*\{",
      SZ, [("gx_size", "Z"), ("x_size", "Z")], "c09", ["C09"]),
    K("src_c09_scale_grad_skip", GBC, SCALE + r".*?m_loss\.vgrad\(.*?if \((.*?)\)\s*\{\s*continue;",
      [], [("group", "Z")], "c09", ["C09"]),
    K("src_c09_bias_grad_requested", GBC, BIAS + r".*?accumulator\.update\(values\);\s*if \((.*?)\)\s*\{",
      SZ, [("gx_size", "Z")], "c09", ["C09"]),
    K("src_c09_grads_size", GBC, r"function_t\(\"gboost-grads\", (.*?)\)\s*,",
      [(r"iterator\.samples\(\)\.size\(\)", "samples"), (r"nano::size\(iterator\.dataset\(\)\.target_dims\(\)\)", "tsize")],
      [("samples", "Z"), ("tsize", "Z")], "c09", ["C09"]),
    # ---- dataset iterators: the cache is used iff it holds one row per sample --------------------------------------
    K("src_c09_targets_cached", ITC, r"tensor4d_cmap_t targets_iterator_t::targets\(size_t tnum, const tensor_range_t& range\) const\s*\{\s*if \((.*?)\)\s*\{",
      [(r"m_targets\.size<0>\(\)", "cached_rows"), (r"m_samples\.size\(\)", "samples")],
      [("cached_rows", "Z"), ("samples", "Z")], "c09", ["C09"]),
    K("src_c09_flatten_cached", ITC, r"tensor2d_cmap_t flatten_iterator_t::flatten\(size_t tnum, const tensor_range_t& range\) const\s*\{.*?if \((.*?)\)\s*\{",
      [(r"m_flatten\.size<0>\(\)", "cached_rows"), (r"samples\.size\(\)", "samples")],
      [("cached_rows", "Z"), ("samples", "Z")], "c09", ["C09"]),
    K("src_c09_targets_cache_fits", ITC, r"bool targets_iterator_t::cache_targets\(tensor_size_t max_bytes\)\s*\{.*?if \(const auto tdims = dataset\(\)\.target_dims\(\);\s*(.*?)\)\s*\{",
      [(r"static_cast<tensor_size_t>\(sizeof\(scalar_t\)\)", "scalar_bytes"), (r"m_samples\.size\(\)", "samples"), (r"nano::size\(tdims\)", "tsize")],
      [("scalar_bytes", "Z"), ("samples", "Z"), ("tsize", "Z"), ("max_bytes", "Z")], "c09", ["C09"]),
    K("src_c09_flatten_cache_fits", ITC, r"bool flatten_iterator_t::cache_flatten\(tensor_size_t max_bytes\)\s*\{.*?if \(const auto isize = dataset\.columns\(\);\s*(.*?)\)\s*\{",
      [(r"static_cast<tensor_size_t>\(sizeof\(scalar_t\)\)", "scalar_bytes"), (r"samples\.size\(\)", "samples")],
      [("scalar_bytes", "Z"), ("samples", "Z"), ("isize", "Z"), ("max_bytes", "Z")], "c09", ["C09"]),
    # ---- (extension: real-valued model) the divisors of the means --------------------------------------------------
    K("src_c09_reduce_divisor", RED, SR + r".*?return \(accumulator0 /= (.*?)\);",
      [], [("samples", "Z")], "c09", ["C09"]),
    K("src_c09_grads_divisor", GBC, r"scalar_t grads_function_t::do_vgrad\(vector_cmap_t x, vector_map_t gx\) const\s*\{.*?gx = grads\.vector\(\) / static_cast<scalar_t>\((.*?)\);",
      [(r"samples\.size\(\)", "samples")], [("samples", "Z")], "c09", ["C09"]),
]
