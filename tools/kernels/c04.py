"""kernels of the primal-dual interior-point solver (src/program/solver.cpp: decisions, step length) and of program::reduce
(src/program/util.cpp: integer expressions around the LU-based row reduction), property C04.

The expressions compare doubles; they are translated as order formulas over Z (comparisons, &&, ||, max, ?:) and the
Coq model instantiates them at an order embedding of the rational quantities into Z (C04_Defs.zs4 / phi), so the
*shape* of every decision (which quantities, which comparison, strict or not, how they are combined) is the one the
source has now. Status codes are the values of nano::solver_status (include/nano/solver/status.h)."""
KERNELS = [
    # solver_t::done: `if (feasible && std::max({eta, |rdual|, |rprim|}) < epsilon) converged`
    K("src_c04_converged", "src/program/solver.cpp",
      r"void\s+solver_t::done\s*\(.*?\bif\s*\((.*?)\)\s*\{\s*state\.m_status\s*=\s*solver_status::converged\s*;",
      [(r"state\.m_eta", "eta"),
       (r"state\.m_rdual\.lpNorm<2>\(\)", "nrdual"),
       (r"state\.m_rprim\.lpNorm<2>\(\)", "nrprim"),
       (r"std::max\(\{\s*(\w+)\s*,\s*(\w+)\s*,\s*(\w+)\s*\}\)", r"std::max(std::max(\1, \2), \3)")],
      [("feasible", "bool"), ("eta", "Z"), ("nrdual", "Z"), ("nrprim", "Z"), ("epsilon", "Z")], "c04", ["C04"]),
    # solver_t::done, else branch: `state.m_status = feasible ? unbounded : unfeasible`
    K("src_c04_else_status", "src/program/solver.cpp",
      r"void\s+solver_t::done\s*\(.*?else\s*\{.*?state\.m_status\s*=\s*(feasible\s*\?.*?);",
      [(r"solver_status::max_iters", "0"), (r"solver_status::converged", "1"), (r"solver_status::failed", "2"),
       (r"solver_status::unfeasible", "3"), (r"solver_status::unbounded", "4")],
      [("feasible", "bool")], "c04", ["C04"]),
    # program_t::feasible: `(A.rows() == 0 || |Ax-b|_2 < epsilon2) && (G.rows() == 0 || max(Gx-h) < epsilon2)`
    K("src_c04_feasible", "src/program/solver.cpp",
      r"bool\s+feasible\s*\(const solver_state_t&\s*state\)\s*const\s*\{.*?return\s+(.*?);",
      [(r"\(A \* state\.m_x - b\)\.lpNorm<2>\(\)", "neq"),
       (r"\(G \* state\.m_x - h\)\.maxCoeff\(\)", "mineq"),
       (r"epsilon2<scalar_t>\(\)", "eps2"),
       (r"A\.rows\(\)", "arows"), (r"G\.rows\(\)", "grows")],
      [("arows", "Z"), ("neq", "Z"), ("grows", "Z"), ("mineq", "Z"), ("eps2", "Z")], "c04", ["C04"]),
    # solve_with_inequality: the starting point must be strictly feasible, `mGxh >= 0.0` => unfeasible
    K("src_c04_start_unfeasible", "src/program/solver.cpp",
      r"if\s*\(const auto mGxh\s*=\s*\(G \* x0 - h\)\.maxCoeff\(\);\s*(mGxh\s*>=\s*0\.0)\)",
      [(r"0\.0", "0")],
      [("mGxh", "Z")], "c04", ["C04"]),
    # the linear system coupling (dx, dv) has n + p unknowns
    K("src_c04_sysdim", "src/program/solver.cpp",
      r"m_lvec\((n\(\)\s*\+\s*p\(\))\)",
      [(r"n\(\)", "n"), (r"p\(\)", "p")],
      [("n", "Z"), ("p", "Z")], "c04", ["C04"]),
]

# ---- program::reduce (src/program/util.cpp): the integer expressions around the LU-based row reduction -----------------
_RED = r"void\s+reduce\s*\(matrix_t&\s*A\)\s*\{"
KERNELS += [
    # `if (dd.rank() == A.rows()) return;` -- the early return for independent rows
    K("src_c04_reduce_full_rank", "src/program/util.cpp",
      _RED + r".*?\bif\s*\((dd\.rank\(\)\s*==\s*A\.rows\(\))\)\s*\{\s*return\s*;",
      [(r"dd\.rank\(\)", "rank"), (r"A\.rows\(\)", "arows")],
      [("rank", "Z"), ("arows", "Z")], "c04", ["C04"]),
    # `const auto n = std::min(A.rows(), A.cols());` -- inner dimension of the L (cols x n) and U (n x rows) factors
    K("src_c04_reduce_n", "src/program/util.cpp",
      _RED + r".*?const auto n\s*=\s*(std::min\(A\.rows\(\),\s*A\.cols\(\)\))\s*;",
      [(r"A\.rows\(\)", "arows"), (r"A\.cols\(\)", "acols")],
      [("arows", "Z"), ("acols", "Z")], "c04", ["C04"]),
    # `LU.leftCols(n)` / `LU.topRows(n)`: the factors are cut at n
    K("src_c04_reduce_lcols", "src/program/util.cpp",
      _RED + r".*?const auto L\s*=\s*LU\.leftCols\((\w+)\)\.triangularView<Eigen::UnitLower>\(\)",
      [], [("n", "Z")], "c04", ["C04"]),
    K("src_c04_reduce_urows", "src/program/util.cpp",
      _RED + r".*?const auto U\s*=\s*LU\.topRows\((\w+)\)\.triangularView<Eigen::Upper>\(\)",
      [], [("n", "Z")], "c04", ["C04"]),
    # `A = U.transpose().block(0, 0, dd.rank(), U.rows()) * L.transpose() * P;` -- the four block arguments
    K("src_c04_reduce_block_r0", "src/program/util.cpp",
      _RED + r".*?A\s*=\s*U\.transpose\(\)\.block\(\s*(\d+)\s*,\s*\d+\s*,[^;]*?\)\s*\*\s*L\.transpose\(\)\s*\*\s*P\s*;",
      [], [], "c04", ["C04"]),
    K("src_c04_reduce_block_c0", "src/program/util.cpp",
      _RED + r".*?A\s*=\s*U\.transpose\(\)\.block\(\s*\d+\s*,\s*(\d+)\s*,[^;]*?\)\s*\*\s*L\.transpose\(\)\s*\*\s*P\s*;",
      [], [], "c04", ["C04"]),
    K("src_c04_reduce_block_rows", "src/program/util.cpp",
      _RED + r".*?A\s*=\s*U\.transpose\(\)\.block\(\s*\d+\s*,\s*\d+\s*,\s*([^,;]*?)\s*,[^,;]*?\)\s*\*\s*L\.transpose\(\)\s*\*\s*P\s*;",
      [(r"dd\.rank\(\)", "rank"), (r"U\.rows\(\)", "urows")],
      [("rank", "Z"), ("urows", "Z")], "c04", ["C04"]),
    K("src_c04_reduce_block_cols", "src/program/util.cpp",
      _RED + r".*?A\s*=\s*U\.transpose\(\)\.block\(\s*\d+\s*,\s*\d+\s*,[^,;]*?,\s*([^,;]*?)\s*\)\s*\*\s*L\.transpose\(\)\s*\*\s*P\s*;",
      [(r"dd\.rank\(\)", "rank"), (r"U\.rows\(\)", "urows")],
      [("rank", "Z"), ("urows", "Z")], "c04", ["C04"]),
    # program::reduce(A, b): `if (A.rows() == 0) return false;`, the stacked width `A.cols() + 1` of [A|b] and the split
    K("src_c04_reduce_empty", "src/program/util.cpp",
      r"bool\s+nano::program::reduce\s*\(matrix_t&\s*A,\s*vector_t&\s*b\)\s*\{.*?\bif\s*\((A\.rows\(\)\s*==\s*0)\)\s*\{\s*return\s+false\s*;",
      [(r"A\.rows\(\)", "arows")],
      [("arows", "Z")], "c04", ["C04"]),
    K("src_c04_reduce_stack_cols", "src/program/util.cpp",
      r"auto Ab\s*=\s*::nano::stack<scalar_t>\(A\.rows\(\),\s*(A\.cols\(\)\s*\+\s*1)\s*,\s*A\.matrix\(\),\s*b\.vector\(\)\)\s*;\s*::reduce\(Ab\)\s*;",
      [(r"A\.cols\(\)", "acols")],
      [("acols", "Z")], "c04", ["C04"]),
    K("src_c04_reduce_split_A", "src/program/util.cpp",
      r"\bA\s*=\s*Ab\.block\(0,\s*0,\s*Ab\.rows\(\),\s*(Ab\.cols\(\)\s*-\s*1)\)\s*;",
      [(r"Ab\.cols\(\)", "abcols")],
      [("abcols", "Z")], "c04", ["C04"]),
    K("src_c04_reduce_split_b", "src/program/util.cpp",
      r"\bb\s*=\s*Ab\.matrix\(\)\.col\((Ab\.cols\(\)\s*-\s*1)\)\s*;",
      [(r"Ab\.cols\(\)", "abcols")],
      [("abcols", "Z")], "c04", ["C04"]),
]

# ---- the step-length kernel of solve_with_inequality (src/program/solver.cpp: make_smax, s = s0 * smax, s *= beta) ------
# doubles are compared / min-ed: translated as order formulas over Z and instantiated by the model (C04_Step.v) at the
# numerators over a common denominator; products are instantiated at numerators (Qmult is numerator * numerator over
# denominator * denominator). The quotient `-u(i) / du(i)` is an atom (its text is pinned by the atom table: any edit of it
# makes the kernel untranslatable).
_SMAX = r"auto\s+make_smax\s*\(const vector_t&\s*u,\s*const vector_t&\s*du\)\s*\{"
KERNELS += [
    K("src_c04_smax_loop_start", "src/program/solver.cpp",
      _SMAX + r".*?for\s*\(tensor_size_t i\s*=\s*(\d+)\s*,\s*size\s*=\s*u\.size\(\)\s*;",
      [], [], "c04", ["C04"]),
    K("src_c04_smax_loop_cond", "src/program/solver.cpp",
      _SMAX + r".*?for\s*\(tensor_size_t i\s*=\s*\d+\s*,\s*size\s*=\s*u\.size\(\)\s*;\s*([^;]*?)\s*;\s*\+\+i\)",
      [], [("i", "Z"), ("size", "Z")], "c04", ["C04"]),
    K("src_c04_smax_neg", "src/program/solver.cpp",
      _SMAX + r".*?\bif\s*\((du\(i\)\s*<\s*0\.0)\)\s*\{\s*smax\s*=",
      [(r"du\(i\)", "dui"), (r"0\.0", "0")],
      [("dui", "Z")], "c04", ["C04"]),
    K("src_c04_smax_min", "src/program/solver.cpp",
      _SMAX + r".*?\{\s*smax\s*=\s*(std::min\(smax,\s*-u\(i\) / du\(i\)\))\s*;",
      [(r"-u\(i\) / du\(i\)", "ratio")],
      [("smax", "Z"), ("ratio", "Z")], "c04", ["C04"]),
    K("src_c04_smax_cap", "src/program/solver.cpp",
      _SMAX + r".*?return\s+(std::min\(smax,\s*1\.0\))\s*;",
      [(r"1\.0", "one")],
      [("smax", "Z"), ("one", "Z")], "c04", ["C04"]),
    K("src_c04_step_init", "src/program/solver.cpp",
      r"auto\s+s\s*=\s*(s0 \* make_smax\(state\.m_u, du\))\s*;",
      [(r"make_smax\(state\.m_u, du\)", "smax")],
      [("s0", "Z"), ("smax", "Z")], "c04", ["C04"]),
    # the two backtracking stages only ever shrink the step: `s *= beta`
    K("src_c04_step_shrink1", "src/program/solver.cpp",
      r"\bs\s*\*=\s*(\w+)\s*;", [], [("s", "Z"), ("beta", "Z")], "c04", ["C04"], pick=0, wrap="s * ({})"),
    K("src_c04_step_shrink2", "src/program/solver.cpp",
      r"\bs\s*\*=\s*(\w+)\s*;", [], [("s", "Z"), ("beta", "Z")], "c04", ["C04"], pick=1, wrap="s * ({})"),
    # the accepted step is applied to the multipliers as it is: `state.m_u += s * du;`
    K("src_c04_step_applied", "src/program/solver.cpp",
      r"state\.m_u\s*\+=\s*(\w+)\s*\*\s*du\s*;", [], [("s", "Z")], "c04", ["C04"]),
]
