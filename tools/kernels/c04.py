"""kernels of the primal-dual interior-point solver (src/program/solver.cpp: decisions, step length) and of program::reduce
(src/program/util.cpp: integer expressions around the LU-based row reduction), property C04.

The expressions compare doubles; they are translated as order formulas over Z (comparisons, &&, ||, max, ?:) and the
Coq model instantiates them at an order embedding of the rational quantities into Z (C04_Defs.zs4 / phi), so the
*shape* of every decision (which quantities, which comparison, strict or not, how they are combined) is the one the
source has now. Status codes are the values of nano::solver_status (include/nano/solver/status.h)."""
KERNELS = [
    # solver_t::done: `if (feasible && std::max({eta, |rdual|, |rprim|}) < epsilon) converged`
    K("src_c04_converged", "src/program/solver.cpp",
      r"void\s+solver_t::done\s*\(.*?\bif\s*\((.*?)\)\s*\{\s*state\.m_status\s*=\s*solver_status::converged\s*;",
      [(r"state\.m_eta", "eta"),
       (r"state\.m_rdual\.lpNorm<2>\(\)", "nrdual"),
       (r"state\.m_rprim\.lpNorm<2>\(\)", "nrprim"),
       (r"std::max\(\{\s*(\w+)\s*,\s*(\w+)\s*,\s*(\w+)\s*\}\)", r"std::max(std::max(\1, \2), \3)")],
      [("feasible", "bool"), ("eta", "Z"), ("nrdual", "Z"), ("nrprim", "Z"), ("epsilon", "Z")], "c04", ["C04"]),
    # solver_t::done, else branch: `state.m_status = feasible ? unbounded : unfeasible`
    K("src_c04_else_status", "src/program/solver.cpp",
      r"void\s+solver_t::done\s*\(.*?else\s*\{.*?state\.m_status\s*=\s*(feasible\s*\?.*?);",
      [(r"solver_status::max_iters", "0"), (r"solver_status::converged", "1"), (r"solver_status::failed", "2"),
       (r"solver_status::unfeasible", "3"), (r"solver_status::unbounded", "4")],
      [("feasible", "bool")], "c04", ["C04"]),
    # program_t::feasible: `(A.rows() == 0 || |Ax-b|_2 < epsilon2) && (G.rows() == 0 || max(Gx-h) < epsilon2)`
    K("src_c04_feasible", "src/program/solver.cpp",
      r"bool\s+feasible\s*\(const solver_state_t&\s*state\)\s*const\s*\{.*?return\s+(.*?);",
      [(r"\(A \* state\.m_x - b\)\.lpNorm<2>\(\)", "neq"),
       (r"\(G \* state\.m_x - h\)\.maxCoeff\(\)", "mineq"),
       (r"epsilon2<scalar_t>\(\)", "eps2"),
       (r"A\.rows\(\)", "arows"), (r"G\.rows\(\)", "grows")],
      [("arows", "Z"), ("neq", "Z"), ("grows", "Z"), ("mineq", "Z"), ("eps2", "Z")], "c04", ["C04"]),
    # solve_with_inequality: the starting point must be strictly feasible, `mGxh >= 0.0` => unfeasible
    K("src_c04_start_unfeasible", "src/program/solver.cpp",
      r"if\s*\(const auto mGxh\s*=\s*\(G \* x0 - h\)\.maxCoeff\(\);\s*(mGxh\s*>=\s*0\.0)\)",
      [(r"0\.0", "0")],
      [("mGxh", "Z")], "c04", ["C04"]),
    # the linear system coupling (dx, dv) has n + p unknowns
    K("src_c04_sysdim", "src/program/solver.cpp",
      r"m_lvec\((n\(\)\s*\+\s*p\(\))\)",
      [(r"n\(\)", "n"), (r"p\(\)", "p")],
      [("n", "Z"), ("p", "Z")], "c04", ["C04"]),
]

# ---- program::reduce (src/program/util.cpp): the integer expressions around the LU-based row reduction -----------------
_RED = r"void\s+reduce\s*\(matrix_t&\s*A\)\s*\{"
KERNELS += [
    # `if (dd.rank() == A.rows()) return;` -- the early return for independent rows
    K("src_c04_reduce_full_rank", "src/program/util.cpp",
      _RED + r".*?\bif\s*\((dd\.rank\(\)\s*==\s*A\.rows\(\))\)\s*\{\s*return\s*;",
      [(r"dd\.rank\(\)", "rank"), (r"A\.rows\(\)", "arows")],
      [("rank", "Z"), ("arows", "Z")], "c04", ["C04"]),
    # `const auto n = std::min(A.rows(), A.cols());` -- inner dimension of the L (cols x n) and U (n x rows) factors
    K("src_c04_reduce_n", "src/program/util.cpp",
      _RED + r".*?const auto n\s*=\s*(std::min\(A\.rows\(\),\s*A\.cols\(\)\))\s*;",
      [(r"A\.rows\(\)", "arows"), (r"A\.cols\(\)", "acols")],
      [("arows", "Z"), ("acols", "Z")], "c04", ["C04"]),
    # `LU.leftCols(n)` / `LU.topRows(n)`: the factors are cut at n
    K("src_c04_reduce_lcols", "src/program/util.cpp",
      _RED + r".*?const auto L\s*=\s*LU\.leftCols\((\w+)\)\.triangularView<Eigen::UnitLower>\(\)",
      [], [("n", "Z")], "c04", ["C04"]),
    K("src_c04_reduce_urows", "src/program/util.cpp",
      _RED + r".*?const auto U\s*=\s*LU\.topRows\((\w+)\)\.triangularView<Eigen::Upper>\(\)",
      [], [("n", "Z")], "c04", ["C04"]),
    # `A = U.transpose().block(0, 0, dd.rank(), U.rows()) * L.transpose() * P;` -- the four block arguments
    K("src_c04_reduce_block_r0", "src/program/util.cpp",
      _RED + r".*?A\s*=\s*U\.transpose\(\)\.block\(\s*(\d+)\s*,\s*\d+\s*,[^;]*?\)\s*\*\s*L\.transpose\(\)\s*\*\s*P\s*;",
      [], [], "c04", ["C04"]),
    K("src_c04_reduce_block_c0", "src/program/util.cpp",
      _RED + r".*?A\s*=\s*U\.transpose\(\)\.block\(\s*\d+\s*,\s*(\d+)\s*,[^;]*?\)\s*\*\s*L\.transpose\(\)\s*\*\s*P\s*;",
      [], [], "c04", ["C04"]),
    K("src_c04_reduce_block_rows", "src/program/util.cpp",
      _RED + r".*?A\s*=\s*U\.transpose\(\)\.block\(\s*\d+\s*,\s*\d+\s*,\s*([^,;]*?)\s*,[^,;]*?\)\s*\*\s*L\.transpose\(\)\s*\*\s*P\s*;",
      [(r"dd\.rank\(\)", "rank"), (r"U\.rows\(\)", "urows")],
      [("rank", "Z"), ("urows", "Z")], "c04", ["C04"]),
    K("src_c04_reduce_block_cols", "src/program/util.cpp",
      _RED + r".*?A\s*=\s*U\.transpose\(\)\.block\(\s*\d+\s*,\s*\d+\s*,[^,;]*?,\s*([^,;]*?)\s*\)\s*\*\s*L\.transpose\(\)\s*\*\s*P\s*;",
      [(r"dd\.rank\(\)", "rank"), (r"U\.rows\(\)", "urows")],
      [("rank", "Z"), ("urows", "Z")], "c04", ["C04"]),
    # program::reduce(A, b): `if (A.rows() == 0) return false;`, the stacked width `A.cols() + 1` of [A|b] and the split
    K("src_c04_reduce_empty", "src/program/util.cpp",
      r"bool\s+nano::program::reduce\s*\(matrix_t&\s*A,\s*vector_t&\s*b\)\s*\{.*?\bif\s*\((A\.rows\(\)\s*==\s*0)\)\s*\{\s*return\s+false\s*;",
      [(r"A\.rows\(\)", "arows")],
      [("arows", "Z")], "c04", ["C04"]),
    K("src_c04_reduce_stack_cols", "src/program/util.cpp",
      r"auto Ab\s*=\s*::nano::stack<scalar_t>\(A\.rows\(\),\s*(A\.cols\(\)\s*\+\s*1)\s*,\s*A\.matrix\(\),\s*b\.vector\(\)\)\s*;\s*::reduce\(Ab\)\s*;",
      [(r"A\.cols\(\)", "acols")],
      [("acols", "Z")], "c04", ["C04"]),
    K("src_c04_reduce_split_A", "src/program/util.cpp",
      r"\bA\s*=\s*Ab\.block\(0,\s*0,\s*Ab\.rows\(\),\s*(Ab\.cols\(\)\s*-\s*1)\)\s*;",
      [(r"Ab\.cols\(\)", "abcols")],
      [("abcols", "Z")], "c04", ["C04"]),
    K("src_c04_reduce_split_b", "src/program/util.cpp",
      r"\bb\s*=\s*Ab\.matrix\(\)\.col\((Ab\.cols\(\)\s*-\s*1)\)\s*;",
      [(r"Ab\.cols\(\)", "abcols")],
      [("abcols", "Z")], "c04", ["C04"]),
]

# ---- the step-length kernel of solve_with_inequality (src/program/solver.cpp: make_smax, s = s0 * smax, s *= beta) ------
# doubles are compared / min-ed: translated as order formulas over Z and instantiated by the model (C04_Step.v) at the
# numerators over a common denominator; products are instantiated at numerators (Qmult is numerator * numerator over
# denominator * denominator). The quotient `-u(i) / du(i)` is an atom (its text is pinned by the atom table: any edit of it
# makes the kernel untranslatable).
_SMAX = r"auto\s+make_smax\s*\(const vector_t&\s*u,\s*const vector_t&\s*du\)\s*\{"
KERNELS += [
    K("src_c04_smax_loop_start", "src/program/solver.cpp",
      _SMAX + r".*?for\s*\(tensor_size_t i\s*=\s*(\d+)\s*,\s*size\s*=\s*u\.size\(\)\s*;",
      [], [], "c04", ["C04"]),
    K("src_c04_smax_loop_cond", "src/program/solver.cpp",
      _SMAX + r".*?for\s*\(tensor_size_t i\s*=\s*\d+\s*,\s*size\s*=\s*u\.size\(\)\s*;\s*([^;]*?)\s*;\s*\+\+i\)",
      [], [("i", "Z"), ("size", "Z")], "c04", ["C04"]),
    K("src_c04_smax_neg", "src/program/solver.cpp",
      _SMAX + r".*?\bif\s*\((du\(i\)\s*<\s*0\.0)\)\s*\{\s*smax\s*=",
      [(r"du\(i\)", "dui"), (r"0\.0", "0")],
      [("dui", "Z")], "c04", ["C04"]),
    K("src_c04_smax_min", "src/program/solver.cpp",
      _SMAX + r".*?\{\s*smax\s*=\s*(std::min\(smax,\s*-u\(i\) / du\(i\)\))\s*;",
      [(r"-u\(i\) / du\(i\)", "ratio")],
      [("smax", "Z"), ("ratio", "Z")], "c04", ["C04"]),
    K("src_c04_smax_cap", "src/program/solver.cpp",
      _SMAX + r".*?return\s+(std::min\(smax,\s*1\.0\))\s*;",
      [(r"1\.0", "one")],
      [("smax", "Z"), ("one", "Z")], "c04", ["C04"]),
    K("src_c04_step_init", "src/program/solver.cpp",
      r"auto\s+s\s*=\s*(s0 \* make_smax\(state\.m_u, du\))\s*;",
      [(r"make_smax\(state\.m_u, du\)", "smax")],
      [("s0", "Z"), ("smax", "Z")], "c04", ["C04"]),
    # the two backtracking stages only ever shrink the step: `s *= beta`
    K("src_c04_step_shrink1", "src/program/solver.cpp",
      r"\bs\s*\*=\s*(\w+)\s*;", [], [("s", "Z"), ("beta", "Z")], "c04", ["C04"], pick=0, wrap="s * ({})"),
    K("src_c04_step_shrink2", "src/program/solver.cpp",
      r"\bs\s*\*=\s*(\w+)\s*;", [], [("s", "Z"), ("beta", "Z")], "c04", ["C04"], pick=1, wrap="s * ({})"),
    # the accepted step is applied to the multipliers as it is: `state.m_u += s * du;`
    K("src_c04_step_applied", "src/program/solver.cpp",
      r"state\.m_u\s*\+=\s*(\w+)\s*\*\s*du\s*;", [], [("s", "Z")], "c04", ["C04"]),
]

# ---- the Newton iteration of solve_with_inequality / program_t::update (C04_Iter_Defs.v) --------------------------------
# integer guards and loop tests are translated as they are; comparisons of doubles are translated as order formulas over Z and
# instantiated by the model at order embeddings of the rational quantities (squares for the residual norms, C04_Iter_Defs.v);
# vector expressions (the trial point, the right-hand side of the stage-2 test) are atoms pinned by their text.
_UPD = r"void\s+update\s*\(const tvector&\s*x,\s*const tvector&\s*u,\s*const tvector&\s*v,\s*const scalar_t miu,\s*solver_state_t&\s*state\)\s*const\s*\{"
_SWI = r"solver_state_t\s+solver_t::solve_with_inequality\s*\("
KERNELS += [
    # program_t::update: `if (m > 0) state.m_eta = -u.dot(m_G * x - m_h);`
    K("src_c04_upd_gap_guard", "src/program/solver.cpp",
      _UPD + r".*?\bif\s*\((m\s*>\s*0)\)\s*\{\s*state\.m_eta\s*=\s*-u\.dot\(m_G \* x - m_h\)\s*;",
      [], [("m", "Z")], "c04", ["C04"]),
    # `if (p > 0) { m_rdual += A' v; m_rprim = A x - b; }`
    K("src_c04_upd_eq_guard", "src/program/solver.cpp",
      _UPD + r".*?\bif\s*\((p\s*>\s*0)\)\s*\{\s*state\.m_rdual\s*\+=\s*m_A\.transpose\(\)\s*\*\s*v\s*;\s*state\.m_rprim\s*=\s*m_A \* x - m_b\s*;",
      [], [("p", "Z")], "c04", ["C04"]),
    # `if (m > 0) { sm = m; m_rdual += G' u; m_rcent = -eta / (miu * sm) - u .* (G x - h); }`
    K("src_c04_upd_ineq_guard", "src/program/solver.cpp",
      _UPD + r".*?\bif\s*\((m\s*>\s*0)\)\s*\{\s*const auto sm\s*=\s*static_cast<scalar_t>\(m\)\s*;\s*state\.m_rdual\s*\+=\s*m_G\.transpose\(\)\s*\*\s*u\s*;"
             r"\s*state\.m_rcent\s*=\s*-state\.m_eta / \(miu \* sm\) - u\.array\(\) \* \(m_G \* x - m_h\)\.array\(\)\s*;",
      [], [("m", "Z")], "c04", ["C04"]),
    # the outer loop `for (state.m_iters = 0; state.m_iters < max_iters; ++state.m_iters)`
    K("src_c04_outer_cond", "src/program/solver.cpp",
      _SWI + r".*?for\s*\(state\.m_iters\s*=\s*0\s*;\s*(state\.m_iters\s*<\s*max_iters)\s*;\s*\+\+state\.m_iters\)",
      [(r"state\.m_iters", "iters")], [("iters", "Z"), ("max_iters", "Z")], "c04", ["C04"]),
    # the two backtracking loops `for (iter = 0; iter < max_lsearch_iters; ++iter)` and their exhaustion tests
    K("src_c04_ls_start1", "src/program/solver.cpp",
      r"for\s*\(iter\s*=\s*(\d+)\s*;\s*iter\s*<\s*max_lsearch_iters\s*;\s*\+\+iter\)", [], [], "c04", ["C04"], pick=0),
    K("src_c04_ls_start2", "src/program/solver.cpp",
      r"for\s*\(iter\s*=\s*(\d+)\s*;\s*iter\s*<\s*max_lsearch_iters\s*;\s*\+\+iter\)", [], [], "c04", ["C04"], pick=1),
    K("src_c04_ls_cond1", "src/program/solver.cpp",
      r"for\s*\(iter\s*=\s*\d+\s*;\s*(iter\s*<\s*max_lsearch_iters)\s*;\s*\+\+iter\)", [],
      [("iter", "Z"), ("max_lsearch_iters", "Z")], "c04", ["C04"], pick=0),
    K("src_c04_ls_cond2", "src/program/solver.cpp",
      r"for\s*\(iter\s*=\s*\d+\s*;\s*(iter\s*<\s*max_lsearch_iters)\s*;\s*\+\+iter\)", [],
      [("iter", "Z"), ("max_lsearch_iters", "Z")], "c04", ["C04"], pick=1),
    K("src_c04_ls_exhausted1", "src/program/solver.cpp",
      r"\bif\s*\((iter\s*==\s*max_lsearch_iters)\)", [], [("iter", "Z"), ("max_lsearch_iters", "Z")], "c04", ["C04"], pick=0),
    K("src_c04_ls_exhausted2", "src/program/solver.cpp",
      r"\bif\s*\((iter\s*==\s*max_lsearch_iters)\)", [], [("iter", "Z"), ("max_lsearch_iters", "Z")], "c04", ["C04"], pick=1),
    # stage 1: `if ((G * (state.m_x + s * dx) - h).maxCoeff() < 0.0) break;`
    K("src_c04_stage1_ok", "src/program/solver.cpp",
      r"\bif\s*\((\(G \* \(state\.m_x \+ s \* dx\) - h\)\.maxCoeff\(\)\s*<\s*0\.0)\)\s*\{\s*break\s*;",
      [(r"\(G \* \(state\.m_x \+ s \* dx\) - h\)\.maxCoeff\(\)", "mgxh"), (r"0\.0", "0")],
      [("mgxh", "Z")], "c04", ["C04"]),
    # stage 2: `program.update(x + s dx, u + s du, v + s dv, miu, state); if (state.residual() <= (1.0 - alpha * s) * r0) break;`
    K("src_c04_stage2_ok", "src/program/solver.cpp",
      r"program\.update\(state\.m_x \+ s \* dx, state\.m_u \+ s \* du, state\.m_v \+ s \* dv, miu, state\)\s*;"
      r"\s*if\s*\((state\.residual\(\)\s*<=\s*\(1\.0 - alpha \* s\) \* r0)\)\s*\{\s*break\s*;",
      [(r"state\.residual\(\)", "res"), (r"\(1\.0 - alpha \* s\) \* r0", "bound")],
      [("res", "Z"), ("bound", "Z")], "c04", ["C04"]),
    # the revert branch: `if (state.residual() > r0) program.update(state.m_x, state.m_u, state.m_v, miu, state);`
    K("src_c04_revert", "src/program/solver.cpp",
      r"\bif\s*\((state\.residual\(\)\s*>\s*r0)\)\s*\{\s*program\.update\(state\.m_x, state\.m_u, state\.m_v, miu, state\)\s*;",
      [(r"state\.residual\(\)", "res")],
      [("res", "Z"), ("r0", "Z")], "c04", ["C04"]),
    # exit 5: `else if (std::max({prev_eta - curr_eta, prev_rdual - curr_rdual, prev_rprim - curr_rprim}) < epsilon0)`
    K("src_c04_precise", "src/program/solver.cpp",
      r"else\s+if\s*\((std::max\(\{prev_eta - curr_eta, prev_rdual - curr_rdual, prev_rprim - curr_rprim\}\)\s*<\s*epsilon0)\)",
      [(r"prev_eta - curr_eta", "deta"), (r"prev_rdual - curr_rdual", "drdual"), (r"prev_rprim - curr_rprim", "drprim"),
       (r"std::max\(\{\s*(\w+)\s*,\s*(\w+)\s*,\s*(\w+)\s*\}\)", r"std::max(std::max(\1, \2), \3)")],
      [("deta", "Z"), ("drdual", "Z"), ("drprim", "Z"), ("epsilon0", "Z")], "c04", ["C04"]),
    # text pins (value 1; any edit of the pinned vector expression makes the kernel untranslatable): the back-substitution,
    # the two arguments handed to program.solve, the blocks program_t::solve writes
    K("src_c04_pin_du", "src/program/solver.cpp",
      r"\bdu\s*=\s*(\(state\.m_rcent\.array\(\) - state\.m_u\.array\(\) \* \(G \* dx\)\.array\(\)\) / Gxh\.array\(\))\s*;",
      [(r"^.*$", "1")], [], "c04", ["C04"]),
    K("src_c04_pin_solve_args", "src/program/solver.cpp",
      r"const auto Gxh\s*=\s*G \* state\.m_x - h\s*;\s*program\.solve\((G\.transpose\(\) \* \(state\.m_u\.array\(\) / Gxh\.array\(\)\)\.matrix\(\)\.asDiagonal\(\) \* G\.matrix\(\),"
      r"\s*state\.m_rdual \+ G\.transpose\(\) \* \(state\.m_rcent\.array\(\) / Gxh\.array\(\)\)\.matrix\(\), state\.m_rprim)\)\s*;",
      [(r"^.*$", "1")], [], "c04", ["C04"]),
    K("src_c04_pin_lmat", "src/program/solver.cpp",
      r"if\s*\(!m_Q\.size\(\)\)\s*\{\s*(m_lmat\.block\(0, 0, n, n\)\s*=\s*-hessvar\s*;\s*\}\s*else\s*\{\s*m_lmat\.block\(0, 0, n, n\)\s*=\s*Q\(\) - hessvar\s*;\s*\}"
      r"\s*m_lvec\.segment\(0, n\)\s*=\s*-rdual\s*;\s*m_lvec\.segment\(n, p\)\s*=\s*-rprim\s*;)",
      [(r"^.*$", "1")], [], "c04", ["C04"]),
    K("src_c04_pin_sol_split", "src/program/solver.cpp",
      r"\b(dx\s*=\s*program\.m_lsol\.segment\(0, n\)\s*;\s*dv\s*=\s*program\.m_lsol\.segment\(n, p\)\s*;)",
      [(r"^.*$", "1")], [], "c04", ["C04"]),
    K("src_c04_pin_state_update", "src/program/solver.cpp",
      r"(state\.m_x\s*\+=\s*s \* dx\s*;\s*state\.m_u\s*\+=\s*s \* du\s*;\s*state\.m_v\s*\+=\s*s \* dv\s*;)",
      [(r"^.*$", "1")], [], "c04", ["C04"]),
]

# ---- the rest of the solver (C04_Rest_Defs.v): solve_without_inequality, make_strictly_feasible / make_x0 ----------------
_SWO = r"solver_state_t\s+solver_t::solve_without_inequality\s*\("
_MSF = r"std::optional<vector_t>\s+linear_constrained_t::make_strictly_feasible\s*\(\)\s*const\s*\{"
_ST = [(r"solver_status::max_iters", "0"), (r"solver_status::converged", "1"), (r"solver_status::failed", "2"),
       (r"solver_status::unfeasible", "3"), (r"solver_status::unbounded", "4")]
KERNELS += [
    # `state.m_status = (valid && aprox) ? converged : (!valid ? failed : unfeasible);`
    K("src_c04_eq_status", "src/program/solver.cpp",
      _SWO + r".*?state\.m_status\s*=\s*(\(valid\s*&&\s*aprox\)\s*\?.*?);",
      _ST, [("valid", "bool"), ("aprox", "bool")], "c04", ["C04"]),
    # Eigen's isApprox (the header the library is compiled against): `|x - y|^2 <= prec^2 * min(|x|^2, |y|^2)`; instantiated by the
    # model at the numerators over a common denominator (C04_Rest_Defs.approx_b)
    K("src_c04_isapprox", "/usr/include/eigen3/Eigen/src/Core/Fuzzy.h",
      r"struct\s+isApprox_selector\s*\{.*?return\s+(\(nested - otherNested\)\.cwiseAbs2\(\)\.sum\(\)\s*<=[^;]*?);",
      [(r"\(nested - otherNested\)\.cwiseAbs2\(\)\.sum\(\)", "d2"), (r"otherNested\.cwiseAbs2\(\)\.sum\(\)", "b2"),
       (r"nested\.cwiseAbs2\(\)\.sum\(\)", "a2"), (r"numext::mini", "std::min"), (r"prec \* prec", "pp")],
      [("d2", "Z"), ("pp", "Z"), ("a2", "Z"), ("b2", "Z")], "c04", ["C04"]),
    # text pins of solve_without_inequality: the arguments of the KKT solve (signs!), the split of the solution, eta = 0, the two
    # booleans of the status
    K("src_c04_pin_eq_solve", "src/program/solver.cpp",
      _SWO + r".*?(program\.solve\(matrix_t::zero\(n, n\), c, -b\)\s*;\s*auto state\s*=\s*solver_state_t\{n, 0, p\}\s*;"
             r"\s*state\.m_x\s*=\s*program\.m_lsol\.segment\(0, n\)\s*;\s*state\.m_v\s*=\s*program\.m_lsol\.segment\(n, p\)\s*;"
             r"\s*state\.m_eta\s*=\s*0\.0\s*;\s*program\.update\(state\.m_x, state\.m_u, state\.m_v, miu, state\)\s*;)",
      [(r"^.*$", "1")], [], "c04", ["C04"]),
    K("src_c04_pin_eq_tests", "src/program/solver.cpp",
      _SWO + r".*?(const auto valid\s*=\s*std::isfinite\(state\.residual\(\)\)\s*;\s*const auto aprox\s*=\s*\(program\.m_lmat \* program\.m_lsol\)"
             r"\.isApprox\(program\.m_lvec\.vector\(\), epsilon2<scalar_t>\(\)\)\s*;)",
      [(r"^.*$", "1")], [], "c04", ["C04"]),
    # which path: `!program.m_ineq.valid() ? solve_without_inequality(...) : solve_with_inequality(..., make_x0(program), ...)`
    K("src_c04_pin_dispatch", "src/program/solver.cpp",
      r"solver_state_t\s+solver_t::solve\(const linear_program_t&\s*program,\s*const logger_t&\s*logger\)\s*const\s*\{\s*return\s+"
      r"(!program\.m_ineq\.valid\(\)\s*\?\s*solve_without_inequality\(program_t\{program\}, logger\)\s*:\s*solve_with_inequality\(program_t\{program\}, make_x0\(program\), logger\))\s*;",
      [(r"^.*$", "1")], [], "c04", ["C04"]),
    # make_x0: `if (!x0) return vector_t::zero(program.m_c.size()); else return x0.value();`
    K("src_c04_pin_make_x0", "src/program/solver.cpp",
      r"vector_t\s+make_x0\s*\(const tprogram&\s*program\)\s*\{\s*(const auto x0\s*=\s*program\.make_strictly_feasible\(\)\s*;\s*if\s*\(!x0\)\s*\{"
      r"\s*return\s+vector_t::zero\(program\.m_c\.size\(\)\)\s*;\s*\}\s*else\s*\{\s*return\s+x0\.value\(\)\s*;\s*\})",
      [(r"^.*$", "1")], [], "c04", ["C04"]),
    # make_strictly_feasible (src/program/constrained.cpp): the acceptance test of a candidate, the trial loop
    K("src_c04_msf_accept", "src/program/constrained.cpp",
      _MSF + r".*?\bif\s*\((\(A \* x\.vector\(\) - b\)\.maxCoeff\(\)\s*<\s*0\.0)\)\s*\{\s*ret\s*=\s*std::move\(x\)\s*;\s*return\s+true\s*;",
      [(r"\(A \* x\.vector\(\) - b\)\.maxCoeff\(\)", "maxb"), (r"0\.0", "0")],
      [("maxb", "Z")], "c04", ["C04"]),
    K("src_c04_msf_trials", "src/program/constrained.cpp",
      _MSF + r".*?static constexpr auto trials\s*=\s*(\d+)\s*;", [], [], "c04", ["C04"]),
    K("src_c04_msf_start", "src/program/constrained.cpp",
      _MSF + r".*?for\s*\(auto trial\s*=\s*(\d+)\s*;\s*trial\s*<\s*trials\s*;\s*trial\s*\+=\s*\d+\)", [], [], "c04", ["C04"]),
    K("src_c04_msf_cond", "src/program/constrained.cpp",
      _MSF + r".*?for\s*\(auto trial\s*=\s*\d+\s*;\s*(trial\s*<\s*trials)\s*;\s*trial\s*\+=\s*\d+\)", [],
      [("trial", "Z"), ("trials", "Z")], "c04", ["C04"]),
    K("src_c04_msf_next", "src/program/constrained.cpp",
      _MSF + r".*?for\s*\(auto trial\s*=\s*\d+\s*;\s*trial\s*<\s*trials\s*;\s*trial\s*\+=\s*(\d+)\)", [],
      [("trial", "Z")], "c04", ["C04"], wrap="trial + ({})"),
    # text pins: the candidate (normal equations of the least-squares fit of the slacks to y), the short-circuit of the two trials,
    # the start values and the updates of the two distances
    K("src_c04_pin_msf_eval", "src/program/constrained.cpp",
      _MSF + r".*?(const auto\s+decomp\s*=\s*\(A\.transpose\(\) \* A\)\.ldlt\(\)\s*;.*?x\.vector\(\)\s*=\s*decomp\.solve\(A\.transpose\(\) \* \(b \+ vector_t::constant\(A\.rows\(\), -y\)\)\)\s*;)",
      [(r"^.*$", "1")], [], "c04", ["C04"]),
    K("src_c04_pin_msf_loop", "src/program/constrained.cpp",
      _MSF + r".*?(static constexpr auto gamma\s*=\s*0\.3\s*;.*?auto ym\s*=\s*1\.0\s*;\s*auto yM\s*=\s*1\.0 / gamma\s*;.*?if\s*\(eval\(ym\) \|\| eval\(yM\)\)\s*\{\s*break\s*;\s*\}"
             r"\s*ym\s*\*=\s*gamma\s*;\s*yM\s*/=\s*gamma\s*;)",
      [(r"^.*$", "1")], [], "c04", ["C04"]),
]
