"""decision kernels of the primal-dual interior-point solver (src/program/solver.cpp), property C04.

The expressions compare doubles; they are translated as order formulas over Z (comparisons, &&, ||, max, ?:) and the
Coq model instantiates them at an order embedding of the rational quantities into Z (C04_Defs.zs4 / phi), so the
*shape* of every decision (which quantities, which comparison, strict or not, how they are combined) is the one the
source has now. Status codes are the values of nano::solver_status (include/nano/solver/status.h)."""
KERNELS = [
    # solver_t::done: `if (feasible && std::max({eta, |rdual|, |rprim|}) < epsilon) converged`
    K("src_c04_converged", "src/program/solver.cpp",
      r"void\s+solver_t::done\s*\(.*?\bif\s*\((.*?)\)\s*\{\s*state\.m_status\s*=\s*solver_status::converged\s*;",
      [(r"state\.m_eta", "eta"),
       (r"state\.m_rdual\.lpNorm<2>\(\)", "nrdual"),
       (r"state\.m_rprim\.lpNorm<2>\(\)", "nrprim"),
       (r"std::max\(\{\s*(\w+)\s*,\s*(\w+)\s*,\s*(\w+)\s*\}\)", r"std::max(std::max(\1, \2), \3)")],
      [("feasible", "bool"), ("eta", "Z"), ("nrdual", "Z"), ("nrprim", "Z"), ("epsilon", "Z")], "c04", ["C04"]),
    # solver_t::done, else branch: `state.m_status = feasible ? unbounded : unfeasible`
    K("src_c04_else_status", "src/program/solver.cpp",
      r"void\s+solver_t::done\s*\(.*?else\s*\{.*?state\.m_status\s*=\s*(feasible\s*\?.*?);",
      [(r"solver_status::max_iters", "0"), (r"solver_status::converged", "1"), (r"solver_status::failed", "2"),
       (r"solver_status::unfeasible", "3"), (r"solver_status::unbounded", "4")],
      [("feasible", "bool")], "c04", ["C04"]),
    # program_t::feasible: `(A.rows() == 0 || |Ax-b|_2 < epsilon2) && (G.rows() == 0 || max(Gx-h) < epsilon2)`
    K("src_c04_feasible", "src/program/solver.cpp",
      r"bool\s+feasible\s*\(const solver_state_t&\s*state\)\s*const\s*\{.*?return\s+(.*?);",
      [(r"\(A \* state\.m_x - b\)\.lpNorm<2>\(\)", "neq"),
       (r"\(G \* state\.m_x - h\)\.maxCoeff\(\)", "mineq"),
       (r"epsilon2<scalar_t>\(\)", "eps2"),
       (r"A\.rows\(\)", "arows"), (r"G\.rows\(\)", "grows")],
      [("arows", "Z"), ("neq", "Z"), ("grows", "Z"), ("mineq", "Z"), ("eps2", "Z")], "c04", ["C04"]),
    # solve_with_inequality: the starting point must be strictly feasible, `mGxh >= 0.0` => unfeasible
    K("src_c04_start_unfeasible", "src/program/solver.cpp",
      r"if\s*\(const auto mGxh\s*=\s*\(G \* x0 - h\)\.maxCoeff\(\);\s*(mGxh\s*>=\s*0\.0)\)",
      [(r"0\.0", "0")],
      [("mGxh", "Z")], "c04", ["C04"]),
    # the linear system coupling (dx, dv) has n + p unknowns
    K("src_c04_sysdim", "src/program/solver.cpp",
      r"m_lvec\((n\(\)\s*\+\s*p\(\))\)",
      [(r"n\(\)", "n"), (r"p\(\)", "p")],
      [("n", "Z"), ("p", "Z")], "c04", ["C04"]),
]
