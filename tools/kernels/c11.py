"""kernels of the early-stopping monitor, the gboost statistics table and the (trial, fold) slot arithmetic (C11)"""
_ES = r"bool\s+early_stopping_t::done\s*\("
KERNELS = [
    # every generated Src_<group>.v imports Src_numeric: list C11 on a kernel of that group so that it is (re)generated
    # for C11 runs too (alternate trees start with an empty coq/generated); same expression as src_idiv, not used by the model
    K("src_idiv_c11", "include/nano/core/numeric.h",
      r"tnominator\s+idiv\s*\([^)]*\)\s*(?:noexcept)?\s*\{\s*return\s+(.*?);\s*\}",
      [(CAST + r"\((\w+)\)", r"\1"), (r"static_cast<\w+>\((\w+)\)", r"\1")],
      [("nominator", "Z"), ("denominator", "Z")], "numeric", ["C11"]),
    # ---- src/gboost/early_stopping.cpp: the three conditions of the four-way decision ----------------------
    # the float comparisons are atoms (booleans supplied by the model: PrimFloat or an abstract order); the atom
    # patterns are literal, so a changed comparison (`<=`, swapped operands, missing `- epsilon`) leaves an unknown
    # identifier behind and breaks the translation
    K("src_es_train_exit", "src/gboost/early_stopping.cpp",
      _ES + r".*?\{.*?if\s*\(([^{}]*?)\)\s*\{",
      [(r"train_value < epsilon", "train_small")],
      [("train_small", "bool")], "earlystop", ["C11"]),
    K("src_es_accept", "src/gboost/early_stopping.cpp",
      _ES + r".*?\{.*?if\s*\([^{}]*?\)\s*\{[^{}]*\}\s*else\s+if\s*\(([^{}]*?)\)\s*\{",
      [(r"valid_value < m_value - epsilon", "improved"), (r"valid_samples\.size\(\)", "nvalid")],
      [("improved", "bool"), ("nvalid", "Z")], "earlystop", ["C11"]),
    K("src_es_wait", "src/gboost/early_stopping.cpp",
      _ES + r".*?\{.*?if\s*\([^{}]*?\)\s*\{[^{}]*\}\s*else\s+if\s*\([^{}]*?\)\s*\{[^{}]*\}\s*else\s+if\s*\(([^{}]*?)\)\s*\{",
      [(r"wlearners\.size\(\)", "size")],
      [("size", "Z"), ("m_round", "Z"), ("patience", "Z")], "earlystop", ["C11"]),
    # what the three branches return / the last one (bodies must be exactly `return <lit>;` for the non-updating ones)
    K("src_es_wait_result", "src/gboost/early_stopping.cpp",
      _ES + r".*?else\s+if\s*\(wlearners[^{}]*?\)\s*\{\s*return\s+(\w+);\s*\}",
      [], [], "earlystop", ["C11"]),
    K("src_es_giveup_result", "src/gboost/early_stopping.cpp",
      _ES + r".*?else\s+if\s*\(wlearners[^{}]*?\)\s*\{[^{}]*\}\s*else\s*\{\s*return\s+(\w+);\s*\}",
      [], [], "earlystop", ["C11"]),
    K("src_es_round_update", "src/gboost/early_stopping.cpp",
      _ES + r".*?else\s+if\s*\(valid_value[^{}]*?\)\s*\{[^{}]*?m_round\s*=\s*([^;]*?);",
      [(r"wlearners\.size\(\)", "size")], [("size", "Z")], "earlystop", ["C11"]),
    # ---- src/gboost/util.cpp: denominator of mean_error / mean_loss ------------------------------------------
    K("src_mean_error_denom", "src/gboost/util.cpp",
      r"scalar_t\s+gboost::mean_error\s*\(.*?const auto denom\s*=\s*static_cast<scalar_t>\((.*?)\);",
      [(r"samples\.size\(\)", "n"), (r"tensor_size_t\{1\}", "1")], [("n", "Z")], "earlystop", ["C11"]),
    K("src_mean_loss_denom", "src/gboost/util.cpp",
      r"scalar_t\s+gboost::mean_loss\s*\(.*?const auto denom\s*=\s*static_cast<scalar_t>\((.*?)\);",
      [(r"samples\.size\(\)", "n"), (r"tensor_size_t\{1\}", "1")], [("n", "Z")], "earlystop", ["C11"]),
    # ---- src/gboost/result.cpp: rows of the statistics table ---------------------------------------------------
    K("src_gb_stat_rows", "src/gboost/result.cpp",
      r"result_t::result_t\(const tensor2d_t\* errors_values.*?m_statistics\(([^,]*?),\s*8\)",
      [], [("max_rounds", "Z")], "earlystop", ["C11"]),
    K("src_gb_kept_rows", "src/gboost/result.cpp",
      r"void result_t::done\(.*?m_statistics\s*=\s*m_statistics\.slice\(0,\s*(.*?)\);",
      [], [("optimum_round", "Z")], "earlystop", ["C11"]),
    K("src_gb_erase_from", "src/gboost/result.cpp",
      r"void result_t::done\(.*?m_wlearners\.erase\(m_wlearners\.begin\(\)\s*\+\s*(.*?),\s*m_wlearners\.end\(\)\);",
      [], [("optimum_round", "Z")], "earlystop", ["C11"]),
    # ---- src/machine/result.cpp, src/machine/tune.cpp: (trial, fold) <-> slot ----------------------------------
    K("src_slot_store", "src/machine/result.cpp",
      r"void result_t::store\(const tensor_size_t trial.*?m_extras\[static_cast<size_t>\((.*?)\)\]",
      [(r"folds\(\)", "folds")], [("trial", "Z"), ("fold", "Z"), ("folds", "Z")], "mlresult", ["C11", "C18"]),
    K("src_slot_extra", "src/machine/result.cpp",
      r"const std::any& result_t::extra\(const tensor_size_t trial.*?m_extras\[static_cast<size_t>\((.*?)\)\]",
      [(r"folds\(\)", "folds")], [("trial", "Z"), ("fold", "Z"), ("folds", "Z")], "mlresult", ["C11", "C18"]),
    K("src_slot_log", "src/machine/result.cpp",
      r"const string_t& result_t::log_path\(const tensor_size_t trial.*?m_log_paths\[static_cast<size_t>\((.*?)\)\]",
      [(r"folds\(\)", "folds")], [("trial", "Z"), ("fold", "Z"), ("folds", "Z")], "mlresult", ["C11", "C18"]),
    K("src_tune_fold", "src/machine/tune.cpp",
      r"const auto fold\s*=\s*(.*?);", [], [("index", "Z"), ("folds", "Z")], "mlresult", ["C11", "C18"]),
    K("src_tune_trial", "src/machine/tune.cpp",
      r"const auto trial\s*=\s*(.*?);", [], [("index", "Z"), ("folds", "Z")], "mlresult", ["C11", "C18"]),
    K("src_tune_tasks", "src/machine/tune.cpp",
      r"tpool\.map\((.*?),\s*thread_callback\)", [], [("folds", "Z"), ("new_trials", "Z")], "mlresult", ["C11", "C18"]),
    K("src_tune_store_trial", "src/machine/tune.cpp",
      r"result\.store\((.*?),\s*fold,", [], [("old_trials", "Z"), ("trial", "Z")], "mlresult", ["C11", "C18"]),
]
