"""kernels of the early-stopping monitor, the gboost statistics table and the (trial, fold) slot arithmetic (C11)"""
_ES = r"bool\s+early_stopping_t::done\s*\("
KERNELS = [
    # ---- src/gboost/early_stopping.cpp: the three conditions of the four-way decision ----------------------
    # the float comparisons are atoms (booleans supplied by the model: PrimFloat or an abstract order); the atom
    # patterns are literal, so a changed comparison (`<=`, swapped operands, missing `- epsilon`) leaves an unknown
    # identifier behind and breaks the translation
    K("src_es_train_exit", "src/gboost/early_stopping.cpp",
      _ES + r".*?\{.*?if\s*\(([^{}]*?)\)\s*\{",
      [(r"train_value < epsilon", "train_small")],
      [("train_small", "bool")], "earlystop", ["C11"]),
    K("src_es_accept", "src/gboost/early_stopping.cpp",
      _ES + r".*?\{.*?if\s*\([^{}]*?\)\s*\{[^{}]*\}\s*else\s+if\s*\(([^{}]*?)\)\s*\{",
      [(r"valid_value < m_value - epsilon", "improved"), (r"valid_samples\.size\(\)", "nvalid")],
      [("improved", "bool"), ("nvalid", "Z")], "earlystop", ["C11"]),
    K("src_es_wait", "src/gboost/early_stopping.cpp",
      _ES + r".*?\{.*?if\s*\([^{}]*?\)\s*\{[^{}]*\}\s*else\s+if\s*\([^{}]*?\)\s*\{[^{}]*\}\s*else\s+if\s*\(([^{}]*?)\)\s*\{",
      [(r"wlearners\.size\(\)", "size")],
      [("size", "Z"), ("m_round", "Z"), ("patience", "Z")], "earlystop", ["C11"]),
    # what the three branches return / the last one (bodies must be exactly `return <lit>;` for the non-updating ones)
    K("src_es_wait_result", "src/gboost/early_stopping.cpp",
      _ES + r".*?else\s+if\s*\(wlearners[^{}]*?\)\s*\{\s*return\s+(\w+);\s*\}",
      [], [], "earlystop", ["C11"]),
    K("src_es_giveup_result", "src/gboost/early_stopping.cpp",
      _ES + r".*?else\s+if\s*\(wlearners[^{}]*?\)\s*\{[^{}]*\}\s*else\s*\{\s*return\s+(\w+);\s*\}",
      [], [], "earlystop", ["C11"]),
    K("src_es_round_update", "src/gboost/early_stopping.cpp",
      _ES + r".*?else\s+if\s*\(valid_value[^{}]*?\)\s*\{[^{}]*?m_round\s*=\s*([^;]*?);",
      [(r"wlearners\.size\(\)", "size")], [("size", "Z")], "earlystop", ["C11"]),
    # ---- src/gboost/util.cpp: denominator of mean_error / mean_loss ------------------------------------------
    K("src_mean_error_denom", "src/gboost/util.cpp",
      r"scalar_t\s+gboost::mean_error\s*\(.*?const auto denom\s*=\s*static_cast<scalar_t>\((.*?)\);",
      [(r"samples\.size\(\)", "n"), (r"tensor_size_t\{1\}", "1")], [("n", "Z")], "earlystop", ["C11"]),
    K("src_mean_loss_denom", "src/gboost/util.cpp",
      r"scalar_t\s+gboost::mean_loss\s*\(.*?const auto denom\s*=\s*static_cast<scalar_t>\((.*?)\);",
      [(r"samples\.size\(\)", "n"), (r"tensor_size_t\{1\}", "1")], [("n", "Z")], "earlystop", ["C11"]),
    # ---- src/gboost/result.cpp: rows of the statistics table ---------------------------------------------------
    K("src_gb_stat_rows", "src/gboost/result.cpp",
      r"result_t::result_t\(const tensor2d_t\* errors_values.*?m_statistics\(([^,]*?),\s*8\)",
      [], [("max_rounds", "Z")], "earlystop", ["C11"]),
    K("src_gb_kept_rows", "src/gboost/result.cpp",
      r"void result_t::done\(.*?m_statistics\s*=\s*m_statistics\.slice\(0,\s*(.*?)\);",
      [], [("optimum_round", "Z")], "earlystop", ["C11"]),
    K("src_gb_erase_from", "src/gboost/result.cpp",
      r"void result_t::done\(.*?m_wlearners\.erase\(m_wlearners\.begin\(\)\s*\+\s*(.*?),\s*m_wlearners\.end\(\)\);",
      [], [("optimum_round", "Z")], "earlystop", ["C11"]),
    # ---- src/machine/result.cpp, src/machine/tune.cpp: (trial, fold) <-> slot ----------------------------------
    K("src_slot_store", "src/machine/result.cpp",
      r"void result_t::store\(const tensor_size_t trial.*?m_extras\[static_cast<size_t>\((.*?)\)\]",
      [(r"folds\(\)", "folds")], [("trial", "Z"), ("fold", "Z"), ("folds", "Z")], "mlresult", ["C11", "C18"]),
    K("src_slot_extra", "src/machine/result.cpp",
      r"const std::any& result_t::extra\(const tensor_size_t trial.*?m_extras\[static_cast<size_t>\((.*?)\)\]",
      [(r"folds\(\)", "folds")], [("trial", "Z"), ("fold", "Z"), ("folds", "Z")], "mlresult", ["C11", "C18"]),
    K("src_slot_log", "src/machine/result.cpp",
      r"const string_t& result_t::log_path\(const tensor_size_t trial.*?m_log_paths\[static_cast<size_t>\((.*?)\)\]",
      [(r"folds\(\)", "folds")], [("trial", "Z"), ("fold", "Z"), ("folds", "Z")], "mlresult", ["C11", "C18"]),
    K("src_tune_fold", "src/machine/tune.cpp",
      r"const auto fold\s*=\s*(.*?);", [], [("index", "Z"), ("folds", "Z")], "mlresult", ["C11", "C18"]),
    K("src_tune_trial", "src/machine/tune.cpp",
      r"const auto trial\s*=\s*(.*?);", [], [("index", "Z"), ("folds", "Z")], "mlresult", ["C11", "C18"]),
    K("src_tune_tasks", "src/machine/tune.cpp",
      r"tpool\.map\((.*?),\s*thread_callback\)", [], [("folds", "Z"), ("new_trials", "Z")], "mlresult", ["C11", "C18"]),
    K("src_tune_store_trial", "src/machine/tune.cpp",
      r"result\.store\((.*?),\s*fold,", [], [("old_trials", "Z"), ("trial", "Z")], "mlresult", ["C11", "C18"]),
]

# ---- extension "assemble": the model-assembly block of gboost_model_t::fit (src/gboost/model.cpp) -------------------
_ASM = r"ml::result_t\s+gboost_model_t::fit\s*\("
KERNELS += [
    # `const auto denom = 1.0 / static_cast<scalar_t>(folds);` -- numerator and denominator of the rational factor
    K("src_asm_denom_num", "src/gboost/model.cpp",
      _ASM + r".*?const auto denom\s*=\s*(.*?)\s*/\s*static_cast<scalar_t>\(",
      [(r"^1\.0$", "1")], [], "asm", ["C11"]),
    K("src_asm_denom_den", "src/gboost/model.cpp",
      _ASM + r".*?const auto denom\s*=\s*[^;/]*/\s*static_cast<scalar_t>\((.*?)\);",
      [], [("folds", "Z")], "asm", ["C11"]),
    # `for (tensor_size_t fold = 0; fold < folds; ++fold)` -- the loop over the fold models of the optimum trial
    K("src_asm_fold_first", "src/gboost/model.cpp",
      _ASM + r".*?for\s*\(tensor_size_t fold\s*=\s*([^;]*?);", [], [], "asm", ["C11"]),
    K("src_asm_fold_cont", "src/gboost/model.cpp",
      _ASM + r".*?for\s*\(tensor_size_t fold\s*=[^;]*;\s*([^;]*?);", [], [("fold", "Z"), ("folds", "Z")], "asm", ["C11"]),
    K("src_asm_fold_step", "src/gboost/model.cpp",
      _ASM + r".*?for\s*\(tensor_size_t fold\s*=[^;]*;[^;]*;\s*([^;{]*?)\)\s*\{",
      [(r"^\+\+fold$", "fold + 1"), (r"^fold\+\+$", "fold + 1")], [("fold", "Z")], "asm", ["C11"]),
    # `fit_result.extra(optimum_trial, fold)` -- which stored fold model is read
    K("src_asm_extra_trial", "src/gboost/model.cpp",
      _ASM + r".*?std::any_cast<gboost::result_t>\(&fit_result\.extra\(([^,]*?),", [],
      [("optimum_trial", "Z"), ("fold", "Z")], "asm", ["C11"]),
    K("src_asm_extra_fold", "src/gboost/model.cpp",
      _ASM + r".*?std::any_cast<gboost::result_t>\(&fit_result\.extra\([^,]*?,\s*([^()]*?)\)\)", [],
      [("optimum_trial", "Z"), ("fold", "Z")], "asm", ["C11"]),
    # what is between the bias reset and the fold loop: `m_wlearners.clear();` keeps 0 of the n learners of the previous
    # fit (n * 0); if the statement is dropped the kernel reads n * 1 (all of them stay)
    K("src_asm_reset_size", "src/gboost/model.cpp",
      _ASM + r".*?m_bias\s*=\s*make_full_tensor<scalar_t>\([^;]*\);(.*?)for\s*\(tensor_size_t fold",
      [(r"\(\s*m_wlearners\.clear\(\);\s*\)", "(0)"), (r"\(\s*\)", "(1)")], [("n", "Z")], "asm", ["C11"], wrap="n * ({})"),
    # ::fit (anonymous namespace): `result.done(static_cast<tensor_size_t>(optimum.round()));` -- the cut-back index
    K("src_fit_done_round", "src/gboost/model.cpp",
      r"result\.done\((.*?)\);",
      [(r"static_cast<tensor_size_t>\(optimum\.round\(\)\)", "round"), (r"optimum\.round\(\)", "round")],
      [("round", "Z")], "asm", ["C11"]),
    # do_predict: `outputs...rowwise() = m_bias.vector().transpose();` -- how much of the previous contents of the row survives:
    # `=` keeps 0 times the old row, `+=` would keep it once
    K("src_predict_keep_prev", "src/gboost/model.cpp",
      r"void gboost_model_t::do_predict\(.*?\{\s*outputs\.reshape\(samples\.size\(\),\s*-1\)\.matrix\(\)\.rowwise\(\)\s*(\S+)\s*m_bias\.vector\(\)\.transpose\(\);",
      [(r"^=$", "0"), (r"^\+=$", "1")], [], "asm", ["C11"]),
]
