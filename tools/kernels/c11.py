"""kernels of the early-stopping monitor, the gboost statistics table and the (trial, fold) slot arithmetic (C11)"""
_ES = r"bool\s+early_stopping_t::done\s*\("
KERNELS = [
    # ---- src/gboost/early_stopping.cpp: the three conditions of the four-way decision ----------------------
    # the float comparisons are atoms (booleans supplied by the model: PrimFloat or an abstract order); the atom
    # patterns are literal, so a changed comparison (`<=`, swapped operands, missing `- epsilon`) leaves an unknown
    # identifier behind and breaks the translation
    K("src_es_train_exit", "src/gboost/early_stopping.cpp",
      _ES + r".*?\{.*?if\s*\(([^{}]*?)\)\s*\{",
      [(r"train_value < epsilon", "train_small")],
      [("train_small", "bool")], "earlystop", ["C11"]),
    K("src_es_accept", "src/gboost/early_stopping.cpp",
      _ES + r".*?\{.*?if\s*\([^{}]*?\)\s*\{[^{}]*\}\s*else\s+if\s*\(([^{}]*?)\)\s*\{",
      [(r"valid_value < m_value - epsilon", "improved"), (r"valid_samples\.size\(\)", "nvalid")],
      [("improved", "bool"), ("nvalid", "Z")], "earlystop", ["C11"]),
    K("src_es_wait", "src/gboost/early_stopping.cpp",
      _ES + r".*?\{.*?if\s*\([^{}]*?\)\s*\{[^{}]*\}\s*else\s+if\s*\([^{}]*?\)\s*\{[^{}]*\}\s*else\s+if\s*\(([^{}]*?)\)\s*\{",
      [(r"wlearners\.size\(\)", "size")],
      [("size", "Z"), ("m_round", "Z"), ("patience", "Z")], "earlystop", ["C11"]),
    # what the three branches return / the last one (bodies must be exactly `return <lit>;` for the non-updating ones)
    K("src_es_wait_result", "src/gboost/early_stopping.cpp",
      _ES + r".*?else\s+if\s*\(wlearners[^{}]*?\)\s*\{\s*return\s+(\w+);\s*\}",
      [], [], "earlystop", ["C11"]),
    K("src_es_giveup_result", "src/gboost/early_stopping.cpp",
      _ES + r".*?else\s+if\s*\(wlearners[^{}]*?\)\s*\{[^{}]*\}\s*else\s*\{\s*return\s+(\w+);\s*\}",
      [], [], "earlystop", ["C11"]),
    K("src_es_round_update", "src/gboost/early_stopping.cpp",
      _ES + r".*?else\s+if\s*\(valid_value[^{}]*?\)\s*\{[^{}]*?m_round\s*=\s*([^;]*?);",
      [(r"wlearners\.size\(\)", "size")], [("size", "Z")], "earlystop", ["C11"]),
    # ---- src/gboost/util.cpp: denominator of mean_error / mean_loss ------------------------------------------
    K("src_mean_error_denom", "src/gboost/util.cpp",
      r"scalar_t\s+gboost::mean_error\s*\(.*?const auto denom\s*=\s*static_cast<scalar_t>\((.*?)\);",
      [(r"samples\.size\(\)", "n"), (r"tensor_size_t\{1\}", "1")], [("n", "Z")], "earlystop", ["C11"]),
    K("src_mean_loss_denom", "src/gboost/util.cpp",
      r"scalar_t\s+gboost::mean_loss\s*\(.*?const auto denom\s*=\s*static_cast<scalar_t>\((.*?)\);",
      [(r"samples\.size\(\)", "n"), (r"tensor_size_t\{1\}", "1")], [("n", "Z")], "earlystop", ["C11"]),
    # ---- src/gboost/result.cpp: rows of the statistics table ---------------------------------------------------
    K("src_gb_stat_rows", "src/gboost/result.cpp",
      r"result_t::result_t\(const tensor2d_t\* errors_values.*?m_statistics\(([^,]*?),\s*8\)",
      [], [("max_rounds", "Z")], "earlystop", ["C11"]),
    K("src_gb_kept_rows", "src/gboost/result.cpp",
      r"void result_t::done\(.*?m_statistics\s*=\s*m_statistics\.slice\(0,\s*(.*?)\);",
      [], [("optimum_round", "Z")], "earlystop", ["C11"]),
    K("src_gb_erase_from", "src/gboost/result.cpp",
      r"void result_t::done\(.*?m_wlearners\.erase\(m_wlearners\.begin\(\)\s*\+\s*(.*?),\s*m_wlearners\.end\(\)\);",
      [], [("optimum_round", "Z")], "earlystop", ["C11"]),
    # ---- src/machine/result.cpp, src/machine/tune.cpp: (trial, fold) <-> slot ----------------------------------
    K("src_slot_store", "src/machine/result.cpp",
      r"void result_t::store\(const tensor_size_t trial.*?m_extras\[static_cast<size_t>\((.*?)\)\]",
      [(r"folds\(\)", "folds")], [("trial", "Z"), ("fold", "Z"), ("folds", "Z")], "mlresult", ["C11", "C18"]),
    K("src_slot_extra", "src/machine/result.cpp",
      r"const std::any& result_t::extra\(const tensor_size_t trial.*?m_extras\[static_cast<size_t>\((.*?)\)\]",
      [(r"folds\(\)", "folds")], [("trial", "Z"), ("fold", "Z"), ("folds", "Z")], "mlresult", ["C11", "C18"]),
    K("src_slot_log", "src/machine/result.cpp",
      r"const string_t& result_t::log_path\(const tensor_size_t trial.*?m_log_paths\[static_cast<size_t>\((.*?)\)\]",
      [(r"folds\(\)", "folds")], [("trial", "Z"), ("fold", "Z"), ("folds", "Z")], "mlresult", ["C11", "C18"]),
    K("src_tune_fold", "src/machine/tune.cpp",
      r"const auto fold\s*=\s*(.*?);", [], [("index", "Z"), ("folds", "Z")], "mlresult", ["C11", "C18"]),
    K("src_tune_trial", "src/machine/tune.cpp",
      r"const auto trial\s*=\s*(.*?);", [], [("index", "Z"), ("folds", "Z")], "mlresult", ["C11", "C18"]),
    K("src_tune_tasks", "src/machine/tune.cpp",
      r"tpool\.map\((.*?),\s*thread_callback\)", [], [("folds", "Z"), ("new_trials", "Z")], "mlresult", ["C11", "C18"]),
    K("src_tune_store_trial", "src/machine/tune.cpp",
      r"result\.store\((.*?),\s*fold,", [], [("old_trials", "Z"), ("trial", "Z")], "mlresult", ["C11", "C18"]),
]

# ---- extension "assemble": the model-assembly block of gboost_model_t::fit (src/gboost/model.cpp) -------------------
_ASM = r"ml::result_t\s+gboost_model_t::fit\s*\("
KERNELS += [
    # `const auto denom = 1.0 / static_cast<scalar_t>(folds);` -- numerator and denominator of the rational factor
    K("src_asm_denom_num", "src/gboost/model.cpp",
      _ASM + r".*?const auto denom\s*=\s*(.*?)\s*/\s*static_cast<scalar_t>\(",
      [(r"^1\.0$", "1")], [], "asm", ["C11"]),
    K("src_asm_denom_den", "src/gboost/model.cpp",
      _ASM + r".*?const auto denom\s*=\s*[^;/]*/\s*static_cast<scalar_t>\((.*?)\);",
      [], [("folds", "Z")], "asm", ["C11"]),
    # `for (tensor_size_t fold = 0; fold < folds; ++fold)` -- the loop over the fold models of the optimum trial
    K("src_asm_fold_first", "src/gboost/model.cpp",
      _ASM + r".*?for\s*\(tensor_size_t fold\s*=\s*([^;]*?);", [], [], "asm", ["C11"]),
    K("src_asm_fold_cont", "src/gboost/model.cpp",
      _ASM + r".*?for\s*\(tensor_size_t fold\s*=[^;]*;\s*([^;]*?);", [], [("fold", "Z"), ("folds", "Z")], "asm", ["C11"]),
    K("src_asm_fold_step", "src/gboost/model.cpp",
      _ASM + r".*?for\s*\(tensor_size_t fold\s*=[^;]*;[^;]*;\s*([^;{]*?)\)\s*\{",
      [(r"^\+\+fold$", "fold + 1"), (r"^fold\+\+$", "fold + 1")], [("fold", "Z")], "asm", ["C11"]),
    # `fit_result.extra(optimum_trial, fold)` -- which stored fold model is read
    K("src_asm_extra_trial", "src/gboost/model.cpp",
      _ASM + r".*?std::any_cast<gboost::result_t>\(&fit_result\.extra\(([^,]*?),", [],
      [("optimum_trial", "Z"), ("fold", "Z")], "asm", ["C11"]),
    K("src_asm_extra_fold", "src/gboost/model.cpp",
      _ASM + r".*?std::any_cast<gboost::result_t>\(&fit_result\.extra\([^,]*?,\s*([^()]*?)\)\)", [],
      [("optimum_trial", "Z"), ("fold", "Z")], "asm", ["C11"]),
    # what is between the bias reset and the fold loop: `m_wlearners.clear();` keeps 0 of the n learners of the previous
    # fit (n * 0); if the statement is dropped the kernel reads n * 1 (all of them stay)
    K("src_asm_reset_size", "src/gboost/model.cpp",
      _ASM + r".*?m_bias\s*=\s*make_full_tensor<scalar_t>\([^;]*\);(.*?)for\s*\(tensor_size_t fold",
      [(r"\(\s*m_wlearners\.clear\(\);\s*\)", "(0)"), (r"\(\s*\)", "(1)")], [("n", "Z")], "asm", ["C11"], wrap="n * ({})"),
    # ::fit (anonymous namespace): `result.done(static_cast<tensor_size_t>(optimum.round()));` -- the cut-back index
    K("src_fit_done_round", "src/gboost/model.cpp",
      r"result\.done\((.*?)\);",
      [(r"static_cast<tensor_size_t>\(optimum\.round\(\)\)", "round"), (r"optimum\.round\(\)", "round")],
      [("round", "Z")], "asm", ["C11"]),
    # do_predict: `outputs...rowwise() = m_bias.vector().transpose();` -- how much of the previous contents of the row survives:
    # `=` keeps 0 times the old row, `+=` would keep it once
    K("src_predict_keep_prev", "src/gboost/model.cpp",
      r"void gboost_model_t::do_predict\(.*?\{\s*outputs\.reshape\(samples\.size\(\),\s*-1\)\.matrix\(\)\.rowwise\(\)\s*(\S+)\s*m_bias\.vector\(\)\.transpose\(\);",
      [(r"^=$", "0"), (r"^\+=$", "1")], [], "asm", ["C11"]),
]

# ---- extension "stats": the code that COMPUTES and STORES the statistics (group `stats` -> coq/generated/Src_stats.v) ------------
# src/machine/stats.cpp (store_stats / load_stats), include/nano/tensor/tensor.h (variance / stdev), src/machine/result.cpp
# (the two store overloads, stats(), value(), optimum_trial(), closest_trial()), include/nano/core/stats.h (position kernels, the
# same anchors as C20's src_pct_last / src_pct_same: C11_Stats.v proves the two translations equal, so that a change there is an
# obligation of C11 as well)
_SC = "src/machine/stats.cpp"
_RC = "src/machine/result.cpp"
_TH = "include/nano/tensor/tensor.h"
_STORE = r"void nano::ml::store_stats\(.*?"
_QSEL = [(r"values\.mean\(\)", "q_mean"), (r"values\.stdev\(\)", "q_stdev"),
         (r"static_cast<scalar_t>\(values\.size\(\)\)", "q_count")]
_QARGS = [("q_mean", "Z"), ("q_stdev", "Z"), ("q_count", "Z")]
_FIELDS = ["m_mean", "m_stdev", "m_count", "m_per01", "m_per05", "m_per10", "m_per20", "m_per50", "m_per80", "m_per90",
           "m_per95", "m_per99"]
KERNELS += [
    # which of (mean, stdev, count) is written to column c: the kernel is applied to the selectors (0, 1, 2)
    K("src_st_col%d" % c, _SC, _STORE + r"stats\(%d\)\s*=\s*(.*?);" % c, _QSEL, _QARGS, "stats", ["C11"]) for c in range(3)
] + [
    # the percentage written to column c (an integer literal `N.0`; anything else leaves the accepted subset)
    K("src_st_pct%d" % c, _SC, _STORE + r"stats\(%d\)\s*=\s*::percentile\(values,\s*(.*?)\);" % c,
      [(r"^(\d+)\.0$", r"\1")], [], "stats", ["C11"]) for c in range(3, 12)
] + [
    # load_stats: the k-th initialiser of the aggregate (member k of stats_t) reads column ...
    K("src_ld_col%d" % k, _SC, r"stats_t nano::ml::load_stats\(.*?return\s*\{\s*(?:stats\(\d+\),\s*){%d}stats\((\d+)\)" % k,
      [], [], "stats", ["C11"]) for k in range(12)
] + [
    # tensor_t::variance / stdev (the clamp of /repo b0b87e4 is part of the translated expression)
    K("src_var_guard", _TH, r"double variance\(\) const\s*\{.*?if \((.*?)\)\s*\{", [(r"size\(\)", "n")], [("n", "Z")], "stats", ["C11"]),
    K("src_var_expr", _TH, r"double variance\(\) const\s*\{.*?variance\s*=\s*(std::max\(.*?\));",
      [(r"array\.square\(\)\.sum\(\)", "sumsq"), (r"\b0\.0\b", "0")],
      [("sumsq", "Z"), ("count", "Z"), ("average", "Z")], "stats", ["C11"]),
    K("src_sd_guard", _TH, r"double stdev\(\) const\s*\{.*?if \((.*?)\)\s*\{", [(r"size\(\)", "n")], [("n", "Z")], "stats", ["C11"]),
    K("src_sd_den", _TH, r"double stdev\(\) const\s*\{.*?stdev\s*=\s*std::sqrt\(variance\(\)\s*/\s*\((.*?)\)\);", [],
      [("count", "Z")], "stats", ["C11"]),
    # stats.h: the integer argument of the position and the one-element test (same anchors as C20)
    K("src_st_pct_last", "include/nano/core/stats.h",
      r"const double position\s*=\s*percentage\s*\*\s*static_cast<double>\((.*?)\)\s*/\s*100\.0\s*;",
      [], [("size", "Z")], "stats", ["C11"]),
    K("src_st_pct_same", "include/nano/core/stats.h",
      r"std::ceil\(position\)\);\s*if \((.*?)\)\s*\{\s*return from_position\(lpos\);",
      [], [("lpos", "Z"), ("rpos", "Z")], "stats", ["C11"]),
]
# result_t::store(trial, fold, ..): the k-th store_stats call reads row `row` of the train (0) / valid (1) tensor and writes the
# sub-tensor (trial, fold, split, kind)
_ST4 = r"store_stats\(%s_errors_losses\.tensor\(%s\), m_values\.tensor\(trial, fold, %s, %s\)\)"
_WHO = [(r"^train$", "0"), (r"^valid$", "1")]
for _k in range(4):
    KERNELS += [
        K("src_rs_store_who%d" % _k, _RC, _ST4 % (r"(\w+)", r"\d+", r"\d+", r"\d+"), _WHO, [], "stats", ["C11"], pick=_k),
        K("src_rs_store_row%d" % _k, _RC, _ST4 % (r"\w+", r"(\d+)", r"\d+", r"\d+"), [], [], "stats", ["C11"], pick=_k),
        K("src_rs_store_split%d" % _k, _RC, _ST4 % (r"\w+", r"\d+", r"(\d+)", r"\d+"), [], [], "stats", ["C11"], pick=_k),
        K("src_rs_store_kind%d" % _k, _RC, _ST4 % (r"\w+", r"\d+", r"\d+", r"(\d+)"), [], [], "stats", ["C11"], pick=_k),
    ]
_FIN = r"::store_stats\(errors_losses\.tensor\(%s\), m_optims\.tensor\(%s\)\)"
_LD4 = r"return load_stats\(m_values\.tensor\(%s, %s, %s, %s\)\);"
_LDARGS = [("trial", "Z"), ("fold", "Z"), ("isplit", "Z"), ("ivalue", "Z")]
_OPT = r"tensor_size_t result_t::optimum_trial\(\) const\s*\{.*?"
_CLO = r"tensor_size_t result_t::closest_trial\(.*?\) const\s*\{.*?"
_VAL = r"scalar_t result_t::value\(.*?\) const\s*\{.*?"
KERNELS += [
    K("src_rs_final_row%d" % k, _RC, _FIN % (r"(\d+)", r"\d+"), [], [], "stats", ["C11"], pick=k) for k in range(2)
] + [
    K("src_rs_final_kind%d" % k, _RC, _FIN % (r"\d+", r"(\d+)"), [], [], "stats", ["C11"], pick=k) for k in range(2)
] + [
    # stats(trial, fold, split, value): enum -> index, and the four indices handed to m_values.tensor
    K("src_rs_isplit", _RC, r"const auto isplit\s*=\s*(.*?);", [(r"split == split_type::train", "is_train")],
      [("is_train", "bool")], "stats", ["C11"]),
    K("src_rs_ivalue_final", _RC, r"const auto ivalue\s*=\s*(.*?);", [(r"value == value_type::errors", "is_errors")],
      [("is_errors", "bool")], "stats", ["C11"], pick=0),
    K("src_rs_ivalue", _RC, r"const auto ivalue\s*=\s*(.*?);", [(r"value == value_type::errors", "is_errors")],
      [("is_errors", "bool")], "stats", ["C11"], pick=1),
    K("src_rs_final_load", _RC, r"return load_stats\(m_optims\.tensor\((.*?)\)\);", [], [("ivalue", "Z")], "stats", ["C11"]),
    K("src_rs_load_a0", _RC, _LD4 % (r"(\w+)", r"\w+", r"\w+", r"\w+"), [], _LDARGS, "stats", ["C11"]),
    K("src_rs_load_a1", _RC, _LD4 % (r"\w+", r"(\w+)", r"\w+", r"\w+"), [], _LDARGS, "stats", ["C11"]),
    K("src_rs_load_a2", _RC, _LD4 % (r"\w+", r"\w+", r"(\w+)", r"\w+"), [], _LDARGS, "stats", ["C11"]),
    K("src_rs_load_a3", _RC, _LD4 % (r"\w+", r"\w+", r"\w+", r"(\w+)"), [], _LDARGS, "stats", ["C11"]),
    # value(trial, split, kind): the fold loop, the member that is summed, the denominator, the default arguments
    K("src_rs_value_first", _RC, _VAL + r"for \(tensor_size_t fold\s*=\s*(.*?),", [], [], "stats", ["C11"]),
    K("src_rs_value_cont", _RC, _VAL + r"for \(tensor_size_t fold\s*=[^;]*;\s*(.*?);", [], [("fold", "Z"), ("folds", "Z")],
      "stats", ["C11"]),
    K("src_rs_value_step", _RC, _VAL + r"for \(tensor_size_t fold\s*=[^;]*;[^;]*;\s*([^;{]*?)\)\s*\{",
      [(r"^\+\+fold$", "fold + 1"), (r"^fold\+\+$", "fold + 1")], [("fold", "Z")], "stats", ["C11"]),
    K("src_rs_value_field", _RC, _VAL + r"sum_mean\s*\+=\s*stats\.(\w+);",
      [(r"^%s$" % f, str(i)) for i, f in enumerate(_FIELDS)], [], "stats", ["C11"]),
    K("src_rs_value_den", _RC, _VAL + r"return sum_mean\s*/\s*static_cast<scalar_t>\((.*?)\);", [(r"folds\(\)", "folds")],
      [("folds", "Z")], "stats", ["C11"]),
    K("src_rs_value_dsplit", "include/nano/machine/result.h",
      r"scalar_t value\(tensor_size_t trial, split_type\s*=\s*(.*?),\s*value_type\s*=\s*[\w:]+\) const;",
      [(r"^split_type::train$", "0"), (r"^split_type::valid$", "1")], [], "stats", ["C11"]),
    K("src_rs_value_dkind", "include/nano/machine/result.h",
      r"scalar_t value\(tensor_size_t trial, split_type\s*=\s*[\w:]+,\s*value_type\s*=\s*(.*?)\) const;",
      [(r"^value_type::errors$", "0"), (r"^value_type::losses$", "1")], [], "stats", ["C11"]),
    # optimum_trial / closest_trial: first strict minimum
    K("src_rs_opt_first", _RC, _OPT + r"for \(tensor_size_t trial\s*=\s*(.*?);", [], [], "stats", ["C11"]),
    K("src_rs_opt_cont", _RC, _OPT + r"for \(tensor_size_t trial\s*=[^;]*;\s*(.*?);", [(r"trials\(\)", "trials")],
      [("trial", "Z"), ("trials", "Z")], "stats", ["C11"]),
    K("src_rs_opt_better", _RC, _OPT + r"if \((.*?)\)\s*\{\s*best_trial\s*=\s*trial;", [(r"value < best_value", "value_lt_best")],
      [("value_lt_best", "bool")], "stats", ["C11"]),
    K("src_rs_clo_cont", _RC, _CLO + r"for \(tensor_size_t trial\s*=[^;]*;\s*(.*?);", [],
      [("trial", "Z"), ("max_trials", "Z")], "stats", ["C11"]),
    K("src_rs_clo_better", _RC, _CLO + r"if \((.*?)\)\s*\{\s*best_trial\s*=\s*trial;",
      [(r"distance < best_distance", "dist_lt_best")], [("dist_lt_best", "bool")], "stats", ["C11"]),
]
