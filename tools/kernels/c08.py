"""kernels of the dataset / datasource / generator code (C08), group "c08".

The translator accepts only integer arithmetic, comparisons and && || (no bit operators), so the bit
expressions of mask.h are captured as their integer sub-expressions: the anchors spell out the surrounding
`|=`, `0x01 <<`, `&`, `!= 0x00` literally (a change of that structure breaks the anchor -> broken tie),
and what is translated is the byte index `sample / 8` and the shift count `7 - (sample % 8)` of setbit and
of getbit *separately* (C08_mask proves set/get agreement from the two translated pairs).
Shifted constants `tensor_size_t(1) << k` are normalised to their value by an atom (any other shift count
leaves the accepted subset and fails loudly).
"""
MASK = "include/nano/datasource/mask.h"
DSH = "include/nano/datasource.h"
DSC = "src/datasource.cpp"
DTC = "src/dataset.cpp"
IDH = "include/nano/generator/elemwise_identity.h"
ELH = "include/nano/generator/elemwise.h"
PWH = "include/nano/generator/pairwise.h"
PWC = "src/generator/pairwise_base.cpp"
SLH = "include/nano/generator/select.h"
GRC = "src/generator/elemwise_gradient.cpp"

_SHIFTS = [(r"\(?tensor_size_t\(1\) << 8\)?", "256"), (r"\(?tensor_size_t\(1\) << 16\)?", "65536"),
           (r"\(?tensor_size_t\(1\) << 32\)?", "4294967296")]
_CLS = [(r"feature\.classes\(\)", "classes")] + _SHIFTS
_P = ["C08"]
G = "c08"

KERNELS = [
    # ---- mask.h ---------------------------------------------------------------------------------
    K("src_mask_bytes", MASK, r"bit_dims\[trank - 1\]\s*=\s*(.*?);", [], [("samples", "Z")], G, _P),
    K("src_setbit_valid", MASK, r"inline void setbit\([^)]*\)\s*\{\s*assert\((.*?)\);\s*mask\(", [(r"mask\.size\(\)", "size")],
      [("sample", "Z"), ("size", "Z")], G, _P),
    K("src_setbit_byte", MASK,
      r"inline void setbit\([^)]*\)\s*\{.*?mask\(([^()]*?)\)\s*\|=\s*static_cast<uint8_t>\(0x01 << \(.*?\)\);\s*\}",
      [], [("sample", "Z")], G, _P),
    K("src_setbit_shift", MASK,
      r"inline void setbit\([^)]*\)\s*\{.*?mask\([^()]*?\)\s*\|=\s*static_cast<uint8_t>\(0x01 << \((.*?)\)\);\s*\}",
      [], [("sample", "Z")], G, _P),
    K("src_getbit_valid", MASK, r"inline bool getbit\([^)]*\)\s*\{\s*assert\((.*?)\);\s*return", [(r"mask\.size\(\)", "size")],
      [("sample", "Z"), ("size", "Z")], G, _P),
    K("src_getbit_byte", MASK,
      r"inline bool getbit\([^)]*\)\s*\{.*?return \(mask\(([^()]*?)\) & \(0x01 << \(.*?\)\)\) != 0x00;\s*\}",
      [], [("sample", "Z")], G, _P),
    K("src_getbit_shift", MASK,
      r"inline bool getbit\([^)]*\)\s*\{.*?return \(mask\([^()]*?\) & \(0x01 << \((.*?)\)\)\) != 0x00;\s*\}",
      [], [("sample", "Z")], G, _P),
    # ---- datasource.cpp: resize -------------------------------------------------------------------
    K("src_ds_mask_bytes", DSC, r"m_storage_mask\.resize\(static_cast<tensor_size_t>\(features\.size\(\)\),\s*(.*?)\);",
      [], [("samples", "Z")], G, _P),
    K("src_range_end", DSC, r"const auto end\s*=\s*(.*?);", [(CAST + r"\((\w+)\)", r"\1")],
      [("begin", "Z"), ("size", "Z")], G, _P),
    K("src_resize_sclass_u08", DSC, r"case feature_type::sclass:\s*type\s*=\s*\((.*?)\)\s*\?\s*feature_type::uint8", _CLS,
      [("classes", "Z")], G, _P),
    K("src_resize_sclass_u16", DSC, r"case feature_type::sclass:.*?feature_type::uint8\s*:\s*\((.*?)\)\s*\?\s*feature_type::uint16", _CLS,
      [("classes", "Z")], G, _P),
    K("src_resize_sclass_u32", DSC, r"case feature_type::sclass:.*?feature_type::uint16\s*:\s*\((.*?)\)\s*\?\s*feature_type::uint32", _CLS,
      [("classes", "Z")], G, _P),
    K("src_resize_target", DSC, r"m_target\s*=\s*\((.*?)\)\s*\?\s*static_cast<tensor_size_t>\(target\)",
      [(r"features\.size\(\)", "features")], [("target", "Z"), ("features", "Z")], G, _P),
    # ---- datasource.h: visit / features / feature ---------------------------------------------------
    K("src_maxu08", DSH, r"static constexpr auto maxu08\s*=\s*(.*?);", _SHIFTS, [], G, _P),
    K("src_maxu16", DSH, r"static constexpr auto maxu16\s*=\s*(.*?);", _SHIFTS, [], G, _P),
    K("src_visit_sclass_u08", DSH, r"case feature_type::sclass:\s*return \((.*?)\)\s*\?\s*op\(feature, m_storage_u08", _CLS,
      [("classes", "Z"), ("maxu08", "Z")], G, _P, pick=1),
    K("src_visit_sclass_u16", DSH, r"case feature_type::sclass:.*?m_storage_u08\.slice\(range\)\.reshape\(-1\), mask\)\s*:\s*\((.*?)\)\s*\?\s*op\(feature, m_storage_u16",
      _CLS, [("classes", "Z"), ("maxu16", "Z")], G, _P, pick=1),
    K("src_ds_features", DSH, r"tensor_size_t features\(\) const\s*\{.*?return\s+(.*?);",
      [], [("m_target", "Z"), ("total", "Z")], G, _P),
    K("src_ds_input_index", DSH, r"auto visit_inputs\(.*?return visit\((.*?), op\);",
      [], [("ifeature", "Z"), ("m_target", "Z")], G, _P),
    K("src_ds_feature_index", DSH, r"const feature_t& feature\(const tensor_size_t ifeature\) const\s*\{.*?m_features\[static_cast<size_t>\((.*?)\)\];",
      [], [("ifeature", "Z"), ("m_target", "Z")], G, _P),
    # ---- dataset.cpp: range checks and column counts ------------------------------------------------
    K("src_check_feature_bad", DTC, r"void dataset_t::check\(tensor_size_t feature\) const\s*\{\s*critical\((.*?),\s*\"",
      [(r"features\(\)", "features")], [("feature", "Z"), ("features", "Z")], G, _P),
    # repo 2030fc5: an empty list of samples is accepted before min()/max() are taken
    K("src_check_samples_empty", DTC, r"void dataset_t::check\(indices_cmap_t samples\) const\s*\{[^{}]*?if \((.*?)\)\s*\{\s*return;\s*\}",
      [(r"samples\.size\(\)", "size")], [("size", "Z")], G, _P),
    K("src_check_samples_bad", DTC, r"void dataset_t::check\(indices_cmap_t samples\) const\s*\{[^{}]*?if \([^()]*(?:\([^()]*\)[^()]*)*\)\s*\{\s*return;\s*\}\s*critical\((.*?),\s*\"",
      [(r"samples\.min\(\)", "smin"), (r"samples\.max\(\)", "smax"), (r"m_datasource\.samples\(\)", "count")],
      [("smin", "Z"), ("smax", "Z"), ("count", "Z")], G, _P),
    K("src_total_cols_sclass", DTC, r"case feature_type::sclass:\s*total_columns\s*\+=\s*(.*?);", _CLS, [("classes", "Z")], G, _P),
    K("src_total_cols_mclass", DTC, r"case feature_type::mclass:\s*total_columns\s*\+=\s*(.*?);", _CLS, [("classes", "Z")], G, _P),
    K("src_total_cols_struct", DTC, r"default:\s*total_columns\s*\+=\s*(.*?);", [(r"size\(feature\.dims\(\)\)", "size")],
      [("size", "Z")], G, _P),
    K("src_cols_sclass", DTC, r"case feature_type::sclass:\s*columns\s*=\s*(.*?);", _CLS, [("classes", "Z")], G, _P),
    K("src_cols_mclass", DTC, r"case feature_type::mclass:\s*dim1\s*=\s*feature\.classes\(\);\s*columns\s*=\s*(.*?);", _CLS,
      [("classes", "Z")], G, _P),
    K("src_cols_struct", DTC, r"dim3\s*=\s*feature\.dims\(\)\[2\];\s*columns\s*=\s*(.*?);", [(r"size\(feature\.dims\(\)\)", "size")],
      [("size", "Z")], G, _P),
    K("src_gen_columns", DTC, r"m_generator_mapping\(index\+\+, 0\)\s*=\s*(.*?);", [],
      [("offset_columns", "Z"), ("old_offset_columns", "Z")], G, _P),
    # ---- identity generators: column sizes, one-hot test -------------------------------------------
    K("src_id_sclass_colsize", IDH, r"class NANO_PUBLIC sclass_identity_t.*?const auto colsize\s*=\s*(.*?);",
      [(r"mapped_classes\(ifeature\)", "classes")], [("classes", "Z")], G, _P),
    K("src_id_mclass_colsize", IDH, r"class NANO_PUBLIC mclass_identity_t.*?const auto colsize\s*=\s*(.*?);",
      [(r"mapped_classes\(ifeature\)", "classes")], [("classes", "Z")], G, _P),
    K("src_id_scalar_colsize", IDH, r"class NANO_PUBLIC scalar_identity_t.*?const auto colsize\s*=\s*(.*?);",
      [(r"tensor_size_t\{1\}", "1")], [], G, _P),
    K("src_id_struct_colsize", IDH, r"class NANO_PUBLIC struct_identity_t.*?const auto colsize\s*=\s*(.*?);",
      [(r"size\(mapped_dims\(ifeature\)\)", "size")], [("size", "Z")], G, _P),
    K("src_onehot_hit", ELH, r"const auto class_index = op\(values\);\s*if \((.*?)\)\s*\{\s*segment\(class_index\) = \+1\.0;",
      [(r"segment\.size\(\)", "size")], [("class_index", "Z"), ("size", "Z")], G, _P),
    K("src_pw_onehot_hit", PWH, r"const auto class_index = op\(values1, values2\);\s*if \((.*?)\)\s*\{\s*segment\(class_index\) = \+1\.0;",
      [(r"segment\.size\(\)", "size")], [("class_index", "Z"), ("size", "Z")], G, _P),
    # ---- feature selection by kind, pairwise keys, gradient ---------------------------------------
    K("src_sel_scalar", SLH, r"void call_scalar\(.*?if \((components[^)]*?)\)", [], [("components", "Z")], G, _P),
    K("src_sel_struct", SLH, r"void call_struct\(.*?if \((components[^)]*?)\)", [], [("components", "Z")], G, _P),
    K("src_pair_key_lo", PWC, r"const auto key\s*=\s*std::make_pair\((std::min\(feature1, feature2\)),", [],
      [("feature1", "Z"), ("feature2", "Z")], G, _P),
    K("src_pair_key_hi", PWC, r"const auto key\s*=\s*std::make_pair\(std::min\(feature1, feature2\),\s*(.*?)\);", [],
      [("feature1", "Z"), ("feature2", "Z")], G, _P),
    # the value stored for a key: (row of mapping1, row of mapping2), never swapped (repo fix: the swapped pair indexed
    # mapping1 with a row number of mapping2)
    K("src_pair_value_first", PWC, r"upairs\.try_emplace\(key,\s*std::make_pair\((.*?),\s*i2\)\);", [],
      [("i1", "Z"), ("i2", "Z")], G, _P),
    K("src_pair_value_second", PWC, r"upairs\.try_emplace\(key,\s*std::make_pair\(i1,\s*(.*?)\)\);", [],
      [("i1", "Z"), ("i2", "Z")], G, _P),
    K("src_grad_applies", GRC, r"feature_mapping_t\{count, 7\};.*?if \((.*?)\)\s*\{",
      [(r"mapping\(i, 3\)", "rows"), (r"mapping\(i, 4\)", "cols")], [("rows", "Z"), ("cols", "Z")], G, _P),
    K("src_grad_count", GRC, r"count\s*\+=\s*(.*?);", [], [("channels", "Z")], G, _P),
]

# ---- gradient generator: window indexing of gradient3x3, output dims, feature -> (channel, mode) -------------------
# (added for the value-level model coq/theories/C08_Gradient.v; the float arithmetic itself -- make_gg, the kernel
# weights, sqrt -- is NOT translated: it is written by hand in PrimFloat and tied by the bit-exact value comparison)
GRH = "include/nano/generator/gradient.h"
GEH = "include/nano/generator/elemwise_gradient.h"


def _gg_anchor(which, idx, part):
    """anchor of the `part` (0 = row, 1 = column) index expression of the idx-th input(...) argument of make_gx / make_gy;
    the six reads are positional: make_gg(v0, v1, v2, v3, v4, v5) computes k0*(v0-v1) + k1*(v2-v3) + k2*(v4-v5)"""
    items = []
    for i in range(6):
        r = r"([^,()]*?)" if (i == idx and part == 0) else r"[^,()]*?"
        c = r"([^,()]*?)" if (i == idx and part == 1) else r"[^,()]*?"
        items.append(r"input\(%s,\s*%s\)" % (r, c))
    return (r"const auto make_%s\s*=\s*\[&\]\(tensor_size_t row, tensor_size_t col\)\s*\{\s*return make_gg\(" % which
            + r",\s*".join(items) + r"\);\s*\};")


for _w in ("gx", "gy"):
    for _i in range(6):
        KERNELS.append(K("src_%s_r%d" % (_w, _i), GRH, _gg_anchor(_w, _i, 0), [], [("row", "Z")], G, _P))
        KERNELS.append(K("src_%s_c%d" % (_w, _i), GRH, _gg_anchor(_w, _i, 1), [], [("col", "Z")], G, _P))

KERNELS += [
    # the input of gradient3x3 is (rows + 2) x (cols + 2) for an output of rows x cols (the two asserts)
    K("src_grad_in_rows", GRH, r"assert\(input\.template size<0>\(\) == (.*?)\);", [], [("rows", "Z")], G, _P),
    K("src_grad_in_cols", GRH, r"assert\(input\.template size<1>\(\) == (.*?)\);", [], [("cols", "Z")], G, _P),
    # do_fit: output dims and the (channel, mode) columns of the feature mapping, the number of modes
    K("src_grad_out_channels", GRC, r"feature_mapping\(k, 2\)\s*=\s*(.*?);", [], [], G, _P),
    K("src_grad_out_rows", GRC, r"feature_mapping\(k, 3\)\s*-=\s*(.*?);", [], [("rows", "Z")], G, _P, wrap="rows - ({})"),
    K("src_grad_out_cols", GRC, r"feature_mapping\(k, 4\)\s*-=\s*(.*?);", [], [("cols", "Z")], G, _P, wrap="cols - ({})"),
    K("src_grad_map_channel", GRC, r"feature_mapping\(k, 5\)\s*=\s*(.*?);", [], [("channel", "Z"), ("type", "Z")], G, _P),
    K("src_grad_map_mode", GRC, r"feature_mapping\(k\+\+, 6\)\s*=\s*(.*?);", [], [("channel", "Z"), ("type", "Z")], G, _P),
    K("src_grad_modes", GRC,
      r"for \(tensor_size_t channel = 0, channels = mapping\(i, 2\); channel < channels; \+\+channel\)\s*\{\s*"
      r"for \(tensor_size_t type = 0; type < (.*?); \+\+type\)", [], [], G, _P),
    K("src_grad_applies_count", GRC, r"tensor_size_t count = 0;.*?if \((.*?)\)\s*\{",
      [(r"mapping\(i, 3\)", "rows"), (r"mapping\(i, 4\)", "cols")], [("rows", "Z"), ("cols", "Z")], G, _P),
    # process(): column size of one generated feature
    K("src_grad_colsize", GEH, r"class NANO_PUBLIC elemwise_gradient_t.*?const auto colsize\s*=\s*(.*?);", [],
      [("rows", "Z"), ("cols", "Z")], G, _P),
]
