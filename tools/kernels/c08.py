"""kernels of the dataset / datasource / generator code (C08), group "c08".

The translator accepts only integer arithmetic, comparisons and && || (no bit operators), so the bit
expressions of mask.h are captured as their integer sub-expressions: the anchors spell out the surrounding
`|=`, `0x01 <<`, `&`, `!= 0x00` literally (a change of that structure breaks the anchor -> broken tie),
and what is translated is the byte index `sample / 8` and the shift count `7 - (sample % 8)` of setbit and
of getbit *separately* (C08_mask proves set/get agreement from the two translated pairs).
Shifted constants `tensor_size_t(1) << k` are normalised to their value by an atom (any other shift count
leaves the accepted subset and fails loudly).
"""
MASK = "include/nano/datasource/mask.h"
DSH = "include/nano/datasource.h"
DSC = "src/datasource.cpp"
DTC = "src/dataset.cpp"
IDH = "include/nano/generator/elemwise_identity.h"
ELH = "include/nano/generator/elemwise.h"
PWH = "include/nano/generator/pairwise.h"
PWC = "src/generator/pairwise_base.cpp"
SLH = "include/nano/generator/select.h"
GRC = "src/generator/elemwise_gradient.cpp"

_SHIFTS = [(r"\(?tensor_size_t\(1\) << 8\)?", "256"), (r"\(?tensor_size_t\(1\) << 16\)?", "65536"),
           (r"\(?tensor_size_t\(1\) << 32\)?", "4294967296")]
_CLS = [(r"feature\.classes\(\)", "classes")] + _SHIFTS
_P = ["C08"]
G = "c08"

KERNELS = [
    # ---- mask.h ---------------------------------------------------------------------------------
    K("src_mask_bytes", MASK, r"bit_dims\[trank - 1\]\s*=\s*(.*?);", [], [("samples", "Z")], G, _P),
    K("src_setbit_valid", MASK, r"inline void setbit\([^)]*\)\s*\{\s*assert\((.*?)\);\s*mask\(", [(r"mask\.size\(\)", "size")],
      [("sample", "Z"), ("size", "Z")], G, _P),
    K("src_setbit_byte", MASK,
      r"inline void setbit\([^)]*\)\s*\{.*?mask\(([^()]*?)\)\s*\|=\s*static_cast<uint8_t>\(0x01 << \(.*?\)\);\s*\}",
      [], [("sample", "Z")], G, _P),
    K("src_setbit_shift", MASK,
      r"inline void setbit\([^)]*\)\s*\{.*?mask\([^()]*?\)\s*\|=\s*static_cast<uint8_t>\(0x01 << \((.*?)\)\);\s*\}",
      [], [("sample", "Z")], G, _P),
    K("src_getbit_valid", MASK, r"inline bool getbit\([^)]*\)\s*\{\s*assert\((.*?)\);\s*return", [(r"mask\.size\(\)", "size")],
      [("sample", "Z"), ("size", "Z")], G, _P),
    K("src_getbit_byte", MASK,
      r"inline bool getbit\([^)]*\)\s*\{.*?return \(mask\(([^()]*?)\) & \(0x01 << \(.*?\)\)\) != 0x00;\s*\}",
      [], [("sample", "Z")], G, _P),
    K("src_getbit_shift", MASK,
      r"inline bool getbit\([^)]*\)\s*\{.*?return \(mask\([^()]*?\) & \(0x01 << \((.*?)\)\)\) != 0x00;\s*\}",
      [], [("sample", "Z")], G, _P),
    # ---- datasource.cpp: resize -------------------------------------------------------------------
    K("src_ds_mask_bytes", DSC, r"m_storage_mask\.resize\(static_cast<tensor_size_t>\(features\.size\(\)\),\s*(.*?)\);",
      [], [("samples", "Z")], G, _P),
    K("src_range_end", DSC, r"const auto end\s*=\s*(.*?);", [(CAST + r"\((\w+)\)", r"\1")],
      [("begin", "Z"), ("size", "Z")], G, _P),
    K("src_resize_sclass_u08", DSC, r"case feature_type::sclass:\s*type\s*=\s*\((.*?)\)\s*\?\s*feature_type::uint8", _CLS,
      [("classes", "Z")], G, _P),
    K("src_resize_sclass_u16", DSC, r"case feature_type::sclass:.*?feature_type::uint8\s*:\s*\((.*?)\)\s*\?\s*feature_type::uint16", _CLS,
      [("classes", "Z")], G, _P),
    K("src_resize_sclass_u32", DSC, r"case feature_type::sclass:.*?feature_type::uint16\s*:\s*\((.*?)\)\s*\?\s*feature_type::uint32", _CLS,
      [("classes", "Z")], G, _P),
    K("src_resize_target", DSC, r"m_target\s*=\s*\((.*?)\)\s*\?\s*static_cast<tensor_size_t>\(target\)",
      [(r"features\.size\(\)", "features")], [("target", "Z"), ("features", "Z")], G, _P),
    # ---- datasource.h: visit / features / feature ---------------------------------------------------
    K("src_maxu08", DSH, r"static constexpr auto maxu08\s*=\s*(.*?);", _SHIFTS, [], G, _P),
    K("src_maxu16", DSH, r"static constexpr auto maxu16\s*=\s*(.*?);", _SHIFTS, [], G, _P),
    K("src_visit_sclass_u08", DSH, r"case feature_type::sclass:\s*return \((.*?)\)\s*\?\s*op\(feature, m_storage_u08", _CLS,
      [("classes", "Z"), ("maxu08", "Z")], G, _P, pick=1),
    K("src_visit_sclass_u16", DSH, r"case feature_type::sclass:.*?m_storage_u08\.slice\(range\)\.reshape\(-1\), mask\)\s*:\s*\((.*?)\)\s*\?\s*op\(feature, m_storage_u16",
      _CLS, [("classes", "Z"), ("maxu16", "Z")], G, _P, pick=1),
    K("src_ds_features", DSH, r"tensor_size_t features\(\) const\s*\{.*?return\s+(.*?);",
      [], [("m_target", "Z"), ("total", "Z")], G, _P),
    K("src_ds_input_index", DSH, r"auto visit_inputs\(.*?return visit\((.*?), op\);",
      [], [("ifeature", "Z"), ("m_target", "Z")], G, _P),
    K("src_ds_feature_index", DSH, r"const feature_t& feature\(const tensor_size_t ifeature\) const\s*\{.*?m_features\[static_cast<size_t>\((.*?)\)\];",
      [], [("ifeature", "Z"), ("m_target", "Z")], G, _P),
    # ---- dataset.cpp: range checks and column counts ------------------------------------------------
    K("src_check_feature_bad", DTC, r"void dataset_t::check\(tensor_size_t feature\) const\s*\{\s*critical\((.*?),\s*\"",
      [(r"features\(\)", "features")], [("feature", "Z"), ("features", "Z")], G, _P),
    K("src_check_samples_bad", DTC, r"void dataset_t::check\(indices_cmap_t samples\) const\s*\{\s*critical\((.*?),\s*\"",
      [(r"samples\.min\(\)", "smin"), (r"samples\.max\(\)", "smax"), (r"m_datasource\.samples\(\)", "count")],
      [("smin", "Z"), ("smax", "Z"), ("count", "Z")], G, _P),
    K("src_total_cols_sclass", DTC, r"case feature_type::sclass:\s*total_columns\s*\+=\s*(.*?);", _CLS, [("classes", "Z")], G, _P),
    K("src_total_cols_mclass", DTC, r"case feature_type::mclass:\s*total_columns\s*\+=\s*(.*?);", _CLS, [("classes", "Z")], G, _P),
    K("src_total_cols_struct", DTC, r"default:\s*total_columns\s*\+=\s*(.*?);", [(r"size\(feature\.dims\(\)\)", "size")],
      [("size", "Z")], G, _P),
    K("src_cols_sclass", DTC, r"case feature_type::sclass:\s*columns\s*=\s*(.*?);", _CLS, [("classes", "Z")], G, _P),
    K("src_cols_mclass", DTC, r"case feature_type::mclass:\s*dim1\s*=\s*feature\.classes\(\);\s*columns\s*=\s*(.*?);", _CLS,
      [("classes", "Z")], G, _P),
    K("src_cols_struct", DTC, r"dim3\s*=\s*feature\.dims\(\)\[2\];\s*columns\s*=\s*(.*?);", [(r"size\(feature\.dims\(\)\)", "size")],
      [("size", "Z")], G, _P),
    K("src_gen_columns", DTC, r"m_generator_mapping\(index\+\+, 0\)\s*=\s*(.*?);", [],
      [("offset_columns", "Z"), ("old_offset_columns", "Z")], G, _P),
    # ---- identity generators: column sizes, one-hot test -------------------------------------------
    K("src_id_sclass_colsize", IDH, r"class NANO_PUBLIC sclass_identity_t.*?const auto colsize\s*=\s*(.*?);",
      [(r"mapped_classes\(ifeature\)", "classes")], [("classes", "Z")], G, _P),
    K("src_id_mclass_colsize", IDH, r"class NANO_PUBLIC mclass_identity_t.*?const auto colsize\s*=\s*(.*?);",
      [(r"mapped_classes\(ifeature\)", "classes")], [("classes", "Z")], G, _P),
    K("src_id_scalar_colsize", IDH, r"class NANO_PUBLIC scalar_identity_t.*?const auto colsize\s*=\s*(.*?);",
      [(r"tensor_size_t\{1\}", "1")], [], G, _P),
    K("src_id_struct_colsize", IDH, r"class NANO_PUBLIC struct_identity_t.*?const auto colsize\s*=\s*(.*?);",
      [(r"size\(mapped_dims\(ifeature\)\)", "size")], [("size", "Z")], G, _P),
    K("src_onehot_hit", ELH, r"const auto class_index = op\(values\);\s*if \((.*?)\)\s*\{\s*segment\(class_index\) = \+1\.0;",
      [(r"segment\.size\(\)", "size")], [("class_index", "Z"), ("size", "Z")], G, _P),
    K("src_pw_onehot_hit", PWH, r"const auto class_index = op\(values1, values2\);\s*if \((.*?)\)\s*\{\s*segment\(class_index\) = \+1\.0;",
      [(r"segment\.size\(\)", "size")], [("class_index", "Z"), ("size", "Z")], G, _P),
    # ---- feature selection by kind, pairwise keys, gradient ---------------------------------------
    K("src_sel_scalar", SLH, r"void call_scalar\(.*?if \((components[^)]*?)\)", [], [("components", "Z")], G, _P),
    K("src_sel_struct", SLH, r"void call_struct\(.*?if \((components[^)]*?)\)", [], [("components", "Z")], G, _P),
    K("src_pair_key_lo", PWC, r"const auto key\s*=\s*std::make_pair\((std::min\(feature1, feature2\)),", [],
      [("feature1", "Z"), ("feature2", "Z")], G, _P),
    K("src_pair_key_hi", PWC, r"const auto key\s*=\s*std::make_pair\(std::min\(feature1, feature2\),\s*(.*?)\);", [],
      [("feature1", "Z"), ("feature2", "Z")], G, _P),
    # the value stored for a key: (row of mapping1, row of mapping2), never swapped (repo fix: the swapped pair indexed
    # mapping1 with a row number of mapping2)
    K("src_pair_value_first", PWC, r"upairs\.try_emplace\(key,\s*std::make_pair\((.*?),\s*i2\)\);", [],
      [("i1", "Z"), ("i2", "Z")], G, _P),
    K("src_pair_value_second", PWC, r"upairs\.try_emplace\(key,\s*std::make_pair\(i1,\s*(.*?)\)\);", [],
      [("i1", "Z"), ("i2", "Z")], G, _P),
    K("src_grad_applies", GRC, r"feature_mapping_t\{count, 7\};.*?if \((.*?)\)\s*\{",
      [(r"mapping\(i, 3\)", "rows"), (r"mapping\(i, 4\)", "cols")], [("rows", "Z"), ("cols", "Z")], G, _P),
    K("src_grad_count", GRC, r"count\s*\+=\s*(.*?);", [], [("channels", "Z")], G, _P),
]
