"""kernels of C18 (access discipline of the shared const objects): which buffer / accumulator / cache / slot index the
parallel code uses and how many of them exist. Most are tiny (`tnum`, `concurrency()`): that is the point -- the
footprint model of coq/theories/C18_Defs.v takes its indices from these translations, so `buffer[0]` instead of
`buffer[tnum]`, a slot computed differently, or fewer buffers than workers breaks a proof obligation on the next run.
Own group "c18" (the tune/result/parallel expressions are re-translated here on purpose: C18_Proofs shows them equal to
the kernels the C11/C13/C17 theorems are about, so a change in the source is a broken tie of THIS check too)."""
_IT = "src/dataset/iterator.cpp"
_TU = "src/machine/tune.cpp"
_RS = "src/machine/result.cpp"
_PH = "include/nano/core/parallel.h"
_PC = "src/core/parallel.cpp"
_P = ["C18"]
_CONC = [(r"\b(?:m_)?iterator\.concurrency\(\)", "concurrency"), (r"\bconcurrency\(\)", "concurrency")]


def _table_idx(pick):
    return K("src_c18_table_cache_index_%d" % pick, "src/wlearner/table.cpp", r"auto&\s+cache\s*=\s*caches\[(.*?)\];",
             [], [("tnum", "Z")], "c18", _P, pick=pick)


def _table_cnt(pick):
    return K("src_c18_table_caches_%d" % pick, "src/wlearner/table.cpp", r"std::vector<cache_t> caches\((.*?),\s*cache_t",
             _CONC, [("concurrency", "Z")], "c18", _P, pick=pick)


# the "is this candidate better than the best one kept by this worker so far" test of every weak-learner fit cache, and the
# comparison of min_reduce: the model's selection rule (C18_Defs.cache_update / cache_less) must BE these tests -- the selection
# is schedule independent because it is a minimum w.r.t. ONE strict order used both inside a worker and across workers.
# std::isfinite(score) is the domain of the model (finite scores) and becomes `true`.
_BET = [(r"std::isfinite\(\w+\)", "true"), (r"cache\.m_score", "best"), (r"\bm_score\b", "best"), (r"\bscore_(?:neg|pos)\b", "score")]
_BARGS = [("score", "Z"), ("best", "Z")]


def _better(name, file, var="score", pick=0):
    return K(name, file, r"if \((std::isfinite\(%s\) && [^{;]*?)\)\s*\{" % var, _BET, _BARGS, "c18", _P, pick=pick)


KERNELS = [
    _better("src_c18_better_affine", "src/wlearner/affine.cpp"),
    _better("src_c18_better_stump", "src/wlearner/stump.cpp"),
    _better("src_c18_better_hinge_neg", "src/wlearner/hinge.cpp", "score_neg"),
    _better("src_c18_better_hinge_pos", "src/wlearner/hinge.cpp", "score_pos"),
    _better("src_c18_better_table_0", "src/wlearner/table.cpp", pick=0),
    _better("src_c18_better_table_1", "src/wlearner/table.cpp", pick=1),
    _better("src_c18_better_table_2", "src/wlearner/table.cpp", pick=2),
    K("src_c18_reduce_less", "include/nano/core/reduce.h", r"min_reduce\(.*?const auto op = \[\]\(.*?return\s+(.*?);",
      [(r"one\.m_score", "one"), (r"other\.m_score", "other")], [("one", "Z"), ("other", "Z")], "c18", _P),
    # ---- ml::tune: task index -> (trial, fold), slot written / read ------------------------------------------
    K("src_c18_fold", _TU, r"const auto fold\s*=\s*(.*?);", [], [("index", "Z"), ("folds", "Z")], "c18", _P),
    K("src_c18_trial", _TU, r"const auto trial\s*=\s*(.*?);", [], [("index", "Z"), ("folds", "Z")], "c18", _P),
    K("src_c18_tasks", _TU, r"tpool\.map\((.*?),\s*thread_callback\);", [], [("folds", "Z"), ("new_trials", "Z")], "c18", _P),
    K("src_c18_store_trial", _TU, r"result\.store\((.*?),\s*fold,", [], [("old_trials", "Z"), ("trial", "Z")], "c18", _P),
    K("src_c18_closest_limit", _TU, r"result\.closest_trial\(params,\s*(.*?)\);", [], [("old_trials", "Z")], "c18", _P),
    K("src_c18_extra_trial", _TU, r"const auto closest\s*=\s*result\.extra\((.*?),\s*fold\);", [], [("closest_trial", "Z")], "c18", _P),
    K("src_c18_slot_store", _RS, r"m_extras\[static_cast<size_t>\((.*?)\)\]\s*=\s*std::move\(extra\);",
      [(r"folds\(\)", "folds")], [("trial", "Z"), ("fold", "Z"), ("folds", "Z")], "c18", _P),
    K("src_c18_slot_load", _RS, r"return m_extras\[static_cast<size_t>\((.*?)\)\];",
      [(r"folds\(\)", "folds")], [("trial", "Z"), ("fold", "Z"), ("folds", "Z")], "c18", _P),
    # ---- pool_t: number of workers, worker ids, fast path ----------------------------------------------------
    # std::clamp(v, lo, hi) is rewritten to std::max(lo, std::min(v, hi)) (equal whenever lo <= hi; max_size() >= 1)
    K("src_c18_nworkers", _PC, r"const auto n_workers\s*=\s*(.*?);",
      [(r"std::clamp\(threads, size_t\((\d+)\), max_size\(\)\)", r"std::max(\1, std::min(threads, max_size))")],
      [("threads", "Z"), ("max_size", "Z")], "c18", _P),
    K("src_c18_worker_first", _PC, r"for \(size_t tnum = (.*?);", [], [], "c18", _P),
    K("src_c18_worker_continue", _PC, r"for \(size_t tnum = [^;]*;\s*(.*?);", [], [("tnum", "Z"), ("n_workers", "Z")], "c18", _P),
    K("src_c18_chunked_inline", _PH,
      r"void map\(tsize elements, tsize chunksize, const toperator& op, bool raise = true\)\s*\{.*?if \((.*?)\)\s*\{",
      [(r"size\(\)", "size_")], [("size_", "Z"), ("chunksize", "Z"), ("elements", "Z")], "c18", _P),
    K("src_c18_indexed_inline", _PH,
      r"void map\(tsize elements, const toperator& op, bool raise = true\)\s*\{.*?if \((.*?)\)\s*\{",
      [(r"size\(\)", "size_")], [("size_", "Z"), ("elements", "Z")], "c18", _P),
    # ---- dataset iterators: per-thread buffers (select: pick=1 is the pool-mapped loop; pick 0 is the single-feature
    #      overload that runs in the caller with a local `tnum = 0`) ----------------------------------------------------------------
    K("src_c18_features_per_thread", _IT, r"auto features_per_thread\(.*?return\s+(.*?);",
      [(r"tensor_size_t\{1\}", "1"), (r"features\.size\(\)", "fsize")], [("fsize", "Z"), ("concurrency", "Z")], "c18", _P),
    K("src_c18_targets_buffers", _IT, r"m_targets_buffers\((.*?)\)\s*\{", _CONC, [("concurrency", "Z")], "c18", _P),
    K("src_c18_flatten_buffers", _IT, r"m_flatten_buffers\((.*?)\)\s*\{", _CONC, [("concurrency", "Z")], "c18", _P),
    K("src_c18_select_buffers", _IT, r"m_buffers\((.*?)\)\s*,", _CONC, [("concurrency", "Z")], "c18", _P),
    K("src_c18_targets_buf_index", _IT, r"dataset\(\)\.targets\(m_samples\.slice\(range\), m_targets_buffers\[(.*?)\]\)",
      [], [("tnum", "Z")], "c18", _P),
    K("src_c18_targets_cache_buf_index", _IT, r"dataset\(\)\.targets\(samples, m_targets_buffers\[(.*?)\]\)",
      [], [("tnum", "Z")], "c18", _P),
    K("src_c18_flatten_buf_index", _IT, r"return flatten\(dataset\.flatten\(samples\.slice\(range\), m_flatten_buffers\[(.*?)\]\)\);",
      [], [("tnum", "Z")], "c18", _P),
    K("src_c18_flatten_cache_buf_index", _IT,
      r"m_flatten\.slice\(range\) = flatten\(dataset\.flatten\(samples\.slice\(range\), m_flatten_buffers\[(.*?)\]\)\);",
      [], [("tnum", "Z")], "c18", _P),
    K("src_c18_select_sclass_index", _IT, r"select\(samples, ifeature, m_buffers\[([^\]]*)\]\.m_sclass\)", [], [("tnum", "Z")], "c18", _P, pick=1),
    K("src_c18_select_mclass_index", _IT, r"select\(samples, ifeature, m_buffers\[([^\]]*)\]\.m_mclass\)", [], [("tnum", "Z")], "c18", _P, pick=1),
    K("src_c18_select_scalar_index", _IT, r"select\(samples, ifeature, m_buffers\[([^\]]*)\]\.m_scalar\)", [], [("tnum", "Z")], "c18", _P, pick=1),
    K("src_c18_select_struct_index", _IT, r"select\(samples, ifeature, m_buffers\[([^\]]*)\]\.m_struct\)", [], [("tnum", "Z")], "c18", _P, pick=1),
    K("src_c18_iterator_concurrency", _IT, r"size_t base_dataset_iterator_t::concurrency\(\) const\s*\{\s*return\s+(.*?);",
      [(r"m_dataset\.concurrency\(\)", "pool_size")], [("pool_size", "Z")], "c18", _P),
    K("src_c18_dataset_concurrency", "include/nano/dataset.h", r"size_t concurrency\(\) const\s*\{\s*return\s+(.*?);",
      [(r"m_pool->size\(\)", "pool_size")], [("pool_size", "Z")], "c18", _P),
    # ---- per-thread accumulators / caches of the objective functions and weak learners ---------------------------
    K("src_c18_linear_accumulators", "src/linear/function.cpp", r"m_accumulators\((.*?),\s*accumulator_t", _CONC,
      [("concurrency", "Z")], "c18", _P),
    K("src_c18_linear_acc_index", "src/linear/function.cpp", r"auto& accumulator\s*=\s*m_accumulators\[(.*?)\];", [],
      [("tnum", "Z")], "c18", _P),
    K("src_c18_gboost_accumulators_0", "src/gboost/function.cpp", r"m_accumulators\((.*?),\s*accumulator_t", _CONC,
      [("concurrency", "Z")], "c18", _P, pick=0),
    K("src_c18_gboost_accumulators_1", "src/gboost/function.cpp", r"m_accumulators\((.*?),\s*accumulator_t", _CONC,
      [("concurrency", "Z")], "c18", _P, pick=1),
    K("src_c18_gboost_acc_index_0", "src/gboost/function.cpp", r"auto& accumulator\s*=\s*m_accumulators\[(.*?)\];", [],
      [("tnum", "Z")], "c18", _P, pick=0),
    K("src_c18_gboost_acc_index_1", "src/gboost/function.cpp", r"auto& accumulator\s*=\s*m_accumulators\[(.*?)\];", [],
      [("tnum", "Z")], "c18", _P, pick=1),
    K("src_c18_stump_caches", "src/wlearner/stump.cpp", r"std::vector<cache_t> caches\((.*?),\s*cache_t", _CONC,
      [("concurrency", "Z")], "c18", _P),
    K("src_c18_stump_cache_index", "src/wlearner/stump.cpp", r"auto&\s+cache\s*=\s*caches\[(.*?)\];", [], [("tnum", "Z")], "c18", _P),
    K("src_c18_affine_caches", "src/wlearner/affine.cpp", r"std::vector<cache_t> caches\((.*?),\s*cache_t", _CONC,
      [("concurrency", "Z")], "c18", _P),
    K("src_c18_affine_cache_index", "src/wlearner/affine.cpp", r"auto&\s+cache\s*=\s*caches\[(.*?)\];", [], [("tnum", "Z")], "c18", _P),
    K("src_c18_hinge_caches", "src/wlearner/hinge.cpp", r"std::vector<cache_t> caches\((.*?),\s*cache_t", _CONC,
      [("concurrency", "Z")], "c18", _P),
    K("src_c18_hinge_cache_index", "src/wlearner/hinge.cpp", r"auto&\s+cache\s*=\s*caches\[(.*?)\];", [], [("tnum", "Z")], "c18", _P),
] + [_table_cnt(i) for i in range(4)] + [_table_idx(i) for i in range(8)] + [
    # ---- sum_reduce: accumulators 1.. are added into accumulator 0 ---------------------------------------------
    K("src_c18_reduce_first", "include/nano/core/reduce.h", r"sum_reduce\(.*?for \(size_t i = (.*?);", [], [], "c18", _P),
    K("src_c18_reduce_continue", "include/nano/core/reduce.h", r"sum_reduce\(.*?for \(size_t i = [^;]*;\s*(.*?);",
      [(r"accumulators\.size\(\)", "size")], [("i", "Z"), ("size", "Z")], "c18", _P),
]
