"""kernels of the binary stream formats (C15): hash.h, tensor/stream.h, dims.h, configurable.cpp.

The byte layout itself (field order and widths) is tied by the differential correspondence; the *decisions* and the
arithmetic of the readers are translated here:
  * the mixing sum of hash_combine (the outer `seed ^ (...)` is part of the anchor; `<<6`/`>>2` and the hex constant are
    normalised to `*64`, `/4` and the decimal literal by the atom table -- any other shift/constant no longer parses),
  * the tensor header rejection test, the element count of the payload (product of the dimensions),
  * the version compatibility test of configurable_t::read.
"""
HS = "include/nano/core/hash.h"
TS = "include/nano/tensor/stream.h"
DM = "include/nano/tensor/dims.h"
CF = "src/configurable.cpp"
SH = "include/nano/core/stream.h"

KERNELS = [
    # the generated Src_<group>.v files import Src_numeric: make sure it is (re)generated for C15 runs on a fresh
    # (alternate) tree as well -- same anchor as C16's src_idiv, not used by the C15 model
    K("src_idiv_c15", "include/nano/core/numeric.h",
      r"tnominator\s+idiv\s*\([^)]*\)\s*(?:noexcept)?\s*\{\s*return\s+(.*?);\s*\}",
      [(CAST + r"\((\w+)\)", r"\1"), (r"static_cast<\w+>\((\w+)\)", r"\1")],
      [("nominator", "Z"), ("denominator", "Z")], "numeric", ["C15"]),
    # ---- include/nano/core/hash.h --------------------------------------------------------------
    K("src_hash_version", HS, r"constexpr\s+uint32_t\s+hash_version\s*\(\)\s*\{\s*return\s+(.*?);", [], [], "stream", ["C15"]),
    K("src_hash_mix", HS,
      r"uint64_t\s+hash_combine\s*\(const uint64_t seed, const uint64_t hash\)\s*\{\s*return\s+seed\s*\^\s*\((.*)\)\s*;\s*\}",
      [(r"0x9e3779b9\b", "2654435769"), (r"\(\s*seed\s*<<\s*6\s*\)", "(seed * 64)"), (r"\(\s*seed\s*>>\s*2\s*\)", "(seed / 4)")],
      [("seed", "Z"), ("hash", "Z")], "stream", ["C15"], flags=0),
    # ---- include/nano/tensor/stream.h ----------------------------------------------------------
    K("src_tensor_hdr_bad", TS,
      r"!::nano::read\(stream, ihash\)\s*\|\|\s*(iversion.*?)\)\s*\{\s*stream\.setstate",
      [(r"detail::hash_version\(\)", "hash_version"), (CAST + r"\((\w+)\)", r"\1"), (r"sizeof\(tscalar\)", "wscalar")],
      [("iversion", "Z"), ("irank", "Z"), ("iscalar", "Z"), ("hash_version", "Z"), ("trank", "Z"), ("wscalar", "Z")],
      "stream", ["C15"]),
    # ---- include/nano/tensor/dims.h (tensor.resize(dims) allocates product(dims) elements) -----
    K("src_sz_step", DM,
      r"tensor_size_t\s+product\s*\(const tensor_dims_t<trank>&\s*dims\)\s*\{.*?else\s*\{\s*return\s+(.*?);",
      [(r"std::get<idim>\(dims\)", "dim"), (r"product<idim \+ 1, trank>\(dims\)", "rest")],
      [("dim", "Z"), ("rest", "Z")], "stream", ["C15"]),
    K("src_sz_base", DM,
      r"tensor_size_t\s+product\s*\(const tensor_dims_t<trank>&\s*dims\)\s*\{\s*if constexpr \(idim == trank\)\s*\{\s*return\s+(.*?);",
      [], [], "stream", ["C15"]),
    # ---- src/configurable.cpp -------------------------------------------------------------------
    K("src_version_newer", CF,
      r"critical\(\s*(m_major_version\s*>.*?),\s*\"configurable: version mismatch!\"\)",
      [(r"nano::major_version", "cur_major"), (r"nano::minor_version", "cur_minor"), (r"nano::patch_version", "cur_patch")],
      [("m_major_version", "Z"), ("m_minor_version", "Z"), ("m_patch_version", "Z"),
       ("cur_major", "Z"), ("cur_minor", "Z"), ("cur_patch", "Z")], "stream", ["C15"]),
    # ---- include/nano/core/stream.h, tensor/stream.h: the decisions of the STATEFUL readers (C15_Dest_Defs) --------
    # the early exit of the string / vector readers after the size field (`read_failed` = the size read failed) ...
    K("src_str_exit", SH, r"uint32_t\s+size\s*=\s*0;\s*if\s*\((.*?)\)\s*\{\s*return stream;",
      [(r"!\s*read\(stream, size\)", "read_failed")], [("read_failed", "bool"), ("size", "Z")], "stream", ["C15"]),
    K("src_vec_exit", SH, r"uint64_t\s+size\s*=\s*0;\s*if\s*\((.*?)\)\s*\{\s*return stream;",
      [(r"!\s*read\(stream, size\)", "read_failed")], [("read_failed", "bool"), ("size", "Z")], "stream", ["C15"]),
    # ... and the condition under which the tensor reader calls tensor.resize(dims) between header and payload:
    # `true` for the unconditional statement, the guard of an `if (...) tensor.resize(dims);` otherwise
    K("src_tensor_resize_when", TS, r"return stream;\s*\}\s*((?:if\s*\(.*?\)\s*\{?\s*)?tensor\.resize\(dims\));",
      [(r"^tensor\.resize\(dims\)$", "true"), (r"^if \((.*)\) ?\{? ?tensor\.resize\(dims\)$", r"\1"),
       (r"tensor\.size\(\)", "old_size"), (r"(?:::)?nano::size\(dims\)", "new_size")],
      [("old_size", "Z"), ("new_size", "Z")], "stream", ["C15"]),
]
