"""kernels of src/parameter.cpp, src/configurable.cpp and numeric.h (C19): the boolean skeletons of the domain checks.

The float and the integer kinds instantiate the same C++ templates, so the *structure* of every check (which
comparisons, how they are combined, LE/LT selection, serialisation flags) is translated once; the atoms are the
template-dependent leaves (`isfinite(value)`, `check(comp, a, b)`), supplied by the model for Z and for PrimFloat.
tools/checks/c19.py additionally derives the PrimFloat twin of `src_param_check` textually from the generated file."""

_UPD1 = r"auto&\s+update\(const string_t& name, parameter_t::range_t<tscalar>& param, tvalue value_\)\s*\{"
_UPD2 = (r"auto&\s+update\(const string_t& name, parameter_t::pair_range_t<tscalar>& param, tvalue1 value1_, "
         r"tvalue2 value2_\)\s*\{")
# the convertibility check (fix 0c6dfeb) is the FIRST statement of both overloads, before any static_cast
_CONV1 = r"\s*critical\(!::convertible<tscalar>\(value_\),[^;]*?\);"
_CONV2 = r"\s*critical\(!::convertible<tscalar>\(value1_\) \|\| !::convertible<tscalar>\(value2_\),[^;]*?\);"
_CONVF = (r"bool\s+convertible\(\[\[maybe_unused\]\]\s*const tvalue value\)\s*\{\s*if constexpr \(std::is_integral_v<tscalar> && "
          r"std::is_floating_point_v<tvalue>\)\s*\{\s*static_assert\(std::is_signed_v<tscalar>\);\s*constexpr auto lowest = "
          r"static_cast<tvalue>\(std::numeric_limits<tscalar>::lowest\(\)\);")
_UPDE = r"auto&\s+update\(const string_t& name, parameter_t::enum_t& param, string_t value\)\s*\{"

KERNELS = [
    # ---- include/nano/core/numeric.h: isfinite of an integer is constantly true ------------------
    K("src_isfinite_int", "include/nano/core/numeric.h",
      r"bool\s+isfinite\(\[\[maybe_unused\]\]\s*const tscalar value\)\s*noexcept\s*\{\s*if constexpr \(std::is_floating_point_v<tscalar>\)"
      r"\s*\{\s*return\s+std::isfinite\(value\);\s*\}\s*else\s*\{\s*return\s+(.*?);\s*\}",
      [], [], "numeric", ["C19"]),
    # ---- src/parameter.cpp ------------------------------------------------------------------------
    K("src_param_check", "src/parameter.cpp",
      r"auto\s+check\(const LEorLT& lelt, tscalar value1, tscalar value2\)\s*\{\s*return\s+(.*?);\s*\}",
      [(r"std::holds_alternative<LE_t>\(lelt\)", "is_le")],
      [("is_le", "bool"), ("value1", "Z"), ("value2", "Z")], "parameter", ["C19"]),
    K("src_enum_reject", "src/parameter.cpp",
      _UPDE + r"\s*critical\((.*?),\s*\"parameter \(",
      [(r"std::find\(param\.m_domain\.begin\(\), param\.m_domain\.end\(\), value\)", "pos"),
       (r"param\.m_domain\.end\(\)", "len")],
      [("pos", "Z"), ("len", "Z")], "parameter", ["C19"]),
    K("src_range_reject", "src/parameter.cpp",
      _UPD1 + _CONV1 + r"\s*const auto value = static_cast<tscalar>\(value_\);\s*critical\((.*?),\s*\"parameter \(",
      [(r"::nano::isfinite\(value\)", "fin"),
       (r"::check\(param\.m_mincomp, param\.m_min, value\)", "cmin"),
       (r"::check\(param\.m_maxcomp, value, param\.m_max\)", "cmax")],
      [("fin", "bool"), ("cmin", "bool"), ("cmax", "bool")], "parameter", ["C19"]),
    # the statement right after the check stores the *converted* value and nothing else happens before the return
    K("src_range_assign", "src/parameter.cpp",
      _UPD1 + _CONV1 + r"\s*const auto value = static_cast<tscalar>\(value_\);\s*critical\([^;]*?\);\s*param\.m_value\s*=\s*(\w+);\s*return param;",
      [], [("value", "Z")], "parameter", ["C19"]),
    K("src_pair_reject", "src/parameter.cpp",
      _UPD2 + _CONV2 + r"\s*const auto value1 = static_cast<tscalar>\(value1_\);\s*const auto value2 = static_cast<tscalar>\(value2_\);"
      r"\s*critical\((.*?),\s*\"parameter \(",
      [(r"::nano::isfinite\(value1\)", "fin1"), (r"::nano::isfinite\(value2\)", "fin2"),
       (r"::check\(param\.m_mincomp, param\.m_min, value1\)", "cmin"),
       (r"::check\(param\.m_valcomp, value1, value2\)", "cval"),
       (r"::check\(param\.m_maxcomp, value2, param\.m_max\)", "cmax")],
      [("fin1", "bool"), ("fin2", "bool"), ("cmin", "bool"), ("cval", "bool"), ("cmax", "bool")], "parameter", ["C19"]),
    K("src_pair_assign1", "src/parameter.cpp",
      _UPD2 + r"[^}]*?critical\([^;]*?\);\s*param\.m_value1\s*=\s*(\w+);\s*param\.m_value2\s*=\s*\w+;\s*return param;",
      [], [("value1", "Z"), ("value2", "Z")], "parameter", ["C19"]),
    K("src_pair_assign2", "src/parameter.cpp",
      _UPD2 + r"[^}]*?critical\([^;]*?\);\s*param\.m_value1\s*=\s*\w+;\s*param\.m_value2\s*=\s*(\w+);\s*return param;",
      [], [("value1", "Z"), ("value2", "Z")], "parameter", ["C19"]),
    # ---- fix 0c6dfeb: a floating value goes to an integer kind only when finite and -2^63 <= v < 2^63 ----------
    K("src_convertible", "src/parameter.cpp",
      _CONVF + r"\s*return\s+(.*?);",
      [(r"std::isfinite\(value\)", "fin"), (r"value >= lowest", "ge_lowest"), (r"value < -lowest", "lt_neg_lowest")],
      [("fin", "bool"), ("ge_lowest", "bool"), ("lt_neg_lowest", "bool")], "parameter", ["C19"]),
    K("src_convertible_other", "src/parameter.cpp",
      _CONVF + r"\s*return\s+[^;]*;\s*\}\s*else\s*\{\s*return\s+(.*?);",
      [], [], "parameter", ["C19"]),
    K("src_range_noconv", "src/parameter.cpp",
      _UPD1 + r"\s*critical\((.*?),\s*\"parameter \(",
      [(r"::convertible<tscalar>\(value_\)", "conv")], [("conv", "bool")], "parameter", ["C19"]),
    K("src_pair_noconv", "src/parameter.cpp",
      _UPD2 + r"\s*critical\((.*?),\s*\"parameter \(",
      [(r"::convertible<tscalar>\(value1_\)", "conv1"), (r"::convertible<tscalar>\(value2_\)", "conv2")],
      [("conv1", "bool"), ("conv2", "bool")], "parameter", ["C19"]),
    # serialisation flags of the comparison operators (LE = 1, LT = 0)
    K("src_make_comp", "src/parameter.cpp",
      r"auto\s+make_comp\(uint32_t flag\)\s*\{\s*return\s+(.*?);\s*\}",
      [(r"LEorLT\{LE\}", "1"), (r"LEorLT\{LT\}", "0")],
      [("flag", "Z")], "parameter", ["C19"]),
    K("src_make_flag", "src/parameter.cpp",
      r"auto\s+make_flag\(LEorLT comp\)\s*\{\s*return\s+(.*?);\s*\}",
      [(r"std::get_if<LE_t>\(&comp\) != nullptr", "is_le")],
      [("is_le", "bool")], "parameter", ["C19"]),
    # ---- src/configurable.cpp: mandatory lookup throws exactly when the name is absent -------------
    K("src_find_throws", "src/configurable.cpp",
      r"parameter_t\*\s+find_param\(parameters_t& parameters, const std::string_view name, const bool mandatory\)\s*\{.*?critical\((.*?),\s*\"configurable",
      [(r"it == parameters\.end\(\)", "pos == len")],
      [("mandatory", "bool"), ("pos", "Z"), ("len", "Z")], "configurable", ["C19"]),
    K("src_find_throws_const", "src/configurable.cpp",
      r"const parameter_t\*\s+find_param\(const parameters_t& parameters, const std::string_view name, const bool mandatory\)\s*\{.*?critical\((.*?),\s*\"configurable",
      [(r"it == parameters\.end\(\)", "pos == len")],
      [("mandatory", "bool"), ("pos", "Z"), ("len", "Z")], "configurable", ["C19"]),
]
