"""kernels of include/nano/core/parallel.h (C17, C09): chunk bounds and the fast-path tests of pool_t::map"""
F = "include/nano/core/parallel.h"
CH = r"void map\(tsize elements, tsize chunksize, const toperator& op, bool raise = true\)\s*\{"
IX = r"void map\(tsize elements, const toperator& op, bool raise = true\)\s*\{"
KERNELS = [
    K("src_chunked_inline", F, CH + r".*?if \((.*?)\)\s*\{",
      [(r"size\(\)", "size_")], [("size_", "Z"), ("chunksize", "Z"), ("elements", "Z")], "parallel", ["C17", "C09"]),
    K("src_indexed_inline", F, IX + r".*?if \((.*?)\)\s*\{",
      [(r"size\(\)", "size_")], [("size_", "Z"), ("elements", "Z")], "parallel", ["C17", "C09"]),
    # the loop inside the locked block of the chunked map (second `for` of that function)
    K("src_chunk_begin", F, CH + r".*?scoped_lock lock.*?for \(tsize begin = (.*?);",
      [], [], "parallel", ["C17", "C09"]),
    K("src_chunk_continue", F, CH + r".*?scoped_lock lock.*?for \(tsize begin = [^;]*;(.*?);",
      [], [("begin", "Z"), ("elements", "Z")], "parallel", ["C17", "C09"]),
    K("src_chunk_next", F, CH + r".*?scoped_lock lock.*?for \(tsize begin = [^;]*;[^;]*; begin \+= (.*?)\)\s*\{",
      [], [("begin", "Z"), ("chunksize", "Z")], "parallel", ["C17", "C09"], wrap="begin + ({})"),
    K("src_chunk_end", F, CH + r".*?scoped_lock lock.*?const auto end = (.*?);",
      [], [("begin", "Z"), ("chunksize", "Z"), ("elements", "Z")], "parallel", ["C17", "C09"]),
    # the same loop on the fast path (caller thread)
    K("src_chunk_inline_continue", F, CH + r".*?for \(tsize begin = [^;]*;(.*?);",
      [], [("begin", "Z"), ("elements", "Z")], "parallel", ["C17", "C09"]),
    K("src_chunk_inline_next", F, CH + r".*?for \(tsize begin = [^;]*;[^;]*; begin \+= (.*?)\)\s*\{",
      [], [("begin", "Z"), ("chunksize", "Z")], "parallel", ["C17", "C09"], wrap="begin + ({})"),
    K("src_chunk_inline_end", F, CH + r".*?for \(tsize begin.*?op\(begin, (.*?), 0U\);",
      [], [("begin", "Z"), ("chunksize", "Z"), ("elements", "Z")], "parallel", ["C17", "C09"]),
]
