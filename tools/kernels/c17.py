"""kernels of include/nano/core/parallel.h (C17, C09): chunk bounds and the fast-path tests of pool_t::map"""
F = "include/nano/core/parallel.h"
CH = r"void map\(tsize elements, tsize chunksize, const toperator& op, bool raise = true\)\s*\{"
IX = r"void map\(tsize elements, const toperator& op, bool raise = true\)\s*\{"
KERNELS = [
    K("src_chunked_inline", F, CH + r".*?if \((.*?)\)\s*\{",
      [(r"size\(\)", "size_")], [("size_", "Z"), ("chunksize", "Z"), ("elements", "Z")], "parallel", ["C17", "C09"]),
    K("src_indexed_inline", F, IX + r".*?if \((.*?)\)\s*\{",
      [(r"size\(\)", "size_")], [("size_", "Z"), ("elements", "Z")], "parallel", ["C17", "C09"]),
    # the loop inside the locked block of the chunked map (second `for` of that function)
    K("src_chunk_begin", F, CH + r".*?scoped_lock lock.*?for \(tsize begin = (.*?);",
      [], [], "parallel", ["C17", "C09"]),
    K("src_chunk_continue", F, CH + r".*?scoped_lock lock.*?for \(tsize begin = [^;]*;(.*?);",
      [], [("begin", "Z"), ("elements", "Z")], "parallel", ["C17", "C09"]),
    K("src_chunk_next", F, CH + r".*?scoped_lock lock.*?for \(tsize begin = [^;]*;[^;]*; begin \+= (.*?)\)\s*\{",
      [], [("begin", "Z"), ("chunksize", "Z")], "parallel", ["C17", "C09"], wrap="begin + ({})"),
    K("src_chunk_end", F, CH + r".*?scoped_lock lock.*?const auto end = (.*?);",
      [], [("begin", "Z"), ("chunksize", "Z"), ("elements", "Z")], "parallel", ["C17", "C09"]),
    # the same loop on the fast path (caller thread)
    K("src_chunk_inline_continue", F, CH + r".*?for \(tsize begin = [^;]*;(.*?);",
      [], [("begin", "Z"), ("elements", "Z")], "parallel", ["C17", "C09"]),
    K("src_chunk_inline_next", F, CH + r".*?for \(tsize begin = [^;]*;[^;]*; begin \+= (.*?)\)\s*\{",
      [], [("begin", "Z"), ("chunksize", "Z")], "parallel", ["C17", "C09"], wrap="begin + ({})"),
    K("src_chunk_inline_end", F, CH + r".*?for \(tsize begin.*?op\(begin, (.*?), 0U\);",
      [], [("begin", "Z"), ("chunksize", "Z"), ("elements", "Z")], "parallel", ["C17", "C09"]),
]

# ---- extension: the decisions of the worker loop and of ~pool_t (src/core/parallel.cpp), own group so that
# Src_parallel.v (shared with C09) stays as it is.  Pinned by theorem C17_worker_loop_decisions: the model's locked
# worker step sleeps / exits / pops exactly as these translated tests say.
S = "src/core/parallel.cpp"
QA = [(r"m_queue\.m_stop", "stop_"), (r"m_queue\.m_tasks\.empty\(\)", "empty_")]
KERNELS += [
    # condition_variable::wait(lock, pred): the worker sleeps while the predicate is false
    K("src_wait_pred", S, r"m_condition\.wait\(lock, \[&\]\s*\{\s*return (.*?);\s*\}\);",
      QA, [("stop_", "bool"), ("empty_", "bool")], "pool", ["C17"]),
    # the test that makes the worker leave its loop (first statement after the wait, still under the lock)
    K("src_exit_test", S, r"m_condition\.wait\(lock.*?\);\s*if \((.*?)\)\s*\{\s*NANO_VERIF_EVENT\(::nano::verif::ev_worker_exit",
      QA, [("stop_", "bool"), ("empty_", "bool")], "pool", ["C17"]),
    # ~pool_t: the value stored to m_stop under the lock
    K("src_stop_value", S, r"pool_t::~pool_t\(\)\s*\{.*?m_queue\.m_stop = (.*?);", [], [], "pool", ["C17"]),
]
