"""kernels of the conjugate-gradient direction (C01, stage C01CG): src/solver/cgd.cpp and has_descent / dg of
include/nano/solver/state.h.  Own group "c01cg" (generated/Src_c01cg.v).

Two kinds of kernels:
  * DECISIONS used by the model (coq/theories/C01CG_Defs.v) on sign images, exactly as in stage C01Q: the compared
    quantities are doubles, the translator emits the comparison over Z, the model applies it to the images of both sides
    under t |-> sign(t - rhs): the restart test, has_descent, the first-iteration test, the two tests of FRPR.
  * SHAPES: every beta formula, the clamps, the candidate direction and the formula each solver id returns, with the inner
    products / formulas replaced by named integer variables (`/` becomes Z.quot: only the shape matters).  They are pinned
    by `kernels_c01cg` (C01CG_Proofs.v) against the shape the hand-written model has, so that a changed operator, operand,
    constant, sign, branch order or formula-per-id breaks a named obligation, while the driver's comparison of the
    recorded beta / direction with the model turns it into a concrete input."""
_C = "src/solver/cgd.cpp"
_S = "include/nano/solver/state.h"
_P = ["C01CG"]

_DOTS = [(r"cg\.dot\(cg - pg\)", "gy"), (r"pd\.dot\(cg - pg\)", "pdy"), (r"pd\.dot\(pg\)", "pdpg"),
         (r"cg\.squaredNorm\(\)", "gg"), (r"pg\.squaredNorm\(\)", "pgpg")]
_FORMS = [(r"::HS\(pg, pd, cg\)", "hs"), (r"::FR\(pg, pd, cg\)", "fr"), (r"::PR\(pg, pd, cg\)", "pr"),
          (r"::CD\(pg, pd, cg\)", "cd"), (r"::LS\(pg, pd, cg\)", "ls"), (r"::DYCD\(pg, pd, cg\)", "dycd"),
          (r"::DYHS\(pg, pd, cg\)", "dyhs"), (r"::DY\(pg, pd, cg\)", "dy"), (r"::FRPR\(pg, pd, cg\)", "frpr"),
          (r"::N\(pg, pd, cg, eta\)", "nn"), (r"scalar_t\(0\)", "zero")]
_FARGS = [(v, "Z") for v in ("hs", "fr", "pr", "cd", "ls", "dy", "nn", "dycd", "dyhs", "frpr", "zero")]


def _formula(name, fn, args):
    return K("src_cg_formula_" + name, _C, r"scalar_t " + fn + r"\(const vector_t&[^)]*\)\s*\{\s*return (.*?);\s*\}",
             _DOTS, [(a, "Z") for a in args], "c01cg", _P)


def _beta(sid):
    return K("src_cg_beta_" + sid, _C, r"scalar_t solver_cgd_" + sid + r"_t::beta\([^)]*\) const\s*\{.*?return (.*?);\s*\}",
             _FORMS, _FARGS, "c01cg", _P)


KERNELS = [
    # ---- decisions (used by the model) ------------------------------------------------------------------------------
    # restart: !has_descent(d) || |g.pg| >= orthotest * g.g
    K("src_cg_restart", _C, r"if \((!cstate\.has_descent.*?)\)\s*\{\s*cdescent = -cstate\.gx\(\);",
      [(r"std::fabs\(cstate\.gx\(\)\.dot\(pstate\.gx\(\)\)\)", "agpg"), (r"cstate\.gx\(\)\.dot\(cstate\.gx\(\)\)", "gg"),
       (r"cstate\.has_descent\(cdescent\)", "hasdescent")],
      [("hasdescent", "bool"), ("agpg", "Z"), ("orthotest", "Z"), ("gg", "Z")], "c01cg", _P),
    # has_descent(d) = dg(d) < 0.0, dg(d) = m_gx.dot(d)
    K("src_state_has_descent", _S, r"bool has_descent\(const vector_t& descent\) const\s*\{\s*return (.*?);\s*\}",
      [(r"dg\(descent\)", "dg"), (r"0\.0", "zero")], [("dg", "Z"), ("zero", "Z")], "c01cg", _P),
    K("src_state_dg", _S, r"scalar_t dg\(const vector_t& descent\) const\s*\{\s*return (.*?);\s*\}",
      [(r"m_gx\.dot\(descent\)", "gdotd")], [("gdotd", "Z")], "c01cg", _P),
    # first iteration: no previous direction
    K("src_cg_first", _C, r"if \((cdescent\.size\(\) == 0)\)", [(r"cdescent\.size\(\)", "size")], [("size", "Z")], "c01cg", _P),
    # FRPR: the two tests of the three-way clamp
    K("src_cg_frpr_low", _C, r"scalar_t FRPR\(.*?return \((pr < -fr)\) \?", [], [("pr", "Z"), ("fr", "Z")], "c01cg", _P),
    K("src_cg_frpr_mid", _C, r"scalar_t FRPR\(.*?\? -fr : \((std::fabs\(pr\) <= fr)\) \?", [(r"std::fabs\(pr\)", "apr")],
      [("apr", "Z"), ("fr", "Z")], "c01cg", _P),
    # ---- shapes (pinned by kernels_c01cg) ---------------------------------------------------------------------------
    _formula("hs", "HS", ["gy", "pdy"]),
    _formula("fr", "FR", ["gg", "pgpg"]),
    _formula("pr", "PR", ["gy", "pgpg"]),
    _formula("cd", "CD", ["gg", "pdpg"]),
    _formula("ls", "LS", ["gy", "pdpg"]),
    _formula("dy", "DY", ["gg", "pdy"]),
    _formula("dycd", "DYCD", ["gg", "pdy", "pdpg"]),
    K("src_cg_formula_dyhs", _C, r"scalar_t DYHS\(const vector_t&[^)]*\)\s*\{\s*return (.*?);\s*\}",
      [(r"scalar_t\(0\)", "zero"), (r"\bDY\(pg, pd, cg\)", "dy"), (r"\bHS\(pg, pd, cg\)", "hs")],
      [("zero", "Z"), ("dy", "Z"), ("hs", "Z")], "c01cg", _P),
    K("src_cg_formula_frpr", _C, r"scalar_t FRPR\(.*?return (.*?);\s*\}", [(r"std::fabs\(pr\)", "apr")],
      [("pr", "Z"), ("fr", "Z"), ("apr", "Z")], "c01cg", _P),
    K("src_cg_frpr_fr", _C, r"scalar_t FRPR\(.*?const auto fr = (.*?);", _FORMS, _FARGS, "c01cg", _P),
    K("src_cg_frpr_pr", _C, r"scalar_t FRPR\(.*?const auto pr = (.*?);", _FORMS, _FARGS, "c01cg", _P),
    # N: div = +1 / pd.dot(y);  eta = -1 / (pd2 * min(eta, pg2));  max(eta, div * (y - 2 * pd * y.y * div).dot(cg)) with the
    # inner product distributed: y stands for y.cg, pd for pd.cg
    K("src_cg_n_div", _C, r"scalar_t N\(.*?const auto div = (.*?);", [(r"pd\.dot\(y\)", "pdy")], [("pdy", "Z")], "c01cg", _P),
    K("src_cg_n_y", _C, r"scalar_t N\(.*?const auto y\s*= (.*?);", [], [("cg", "Z"), ("pg", "Z")], "c01cg", _P),
    K("src_cg_n_eta", _C, r"scalar_t N\(.*?\beta\s*= (.*?);", [], [("pd2", "Z"), ("eta", "Z"), ("pg2", "Z")], "c01cg", _P),
    K("src_cg_n_formula", _C, r"scalar_t N\(.*?return (.*?);\s*\}",
      [(r"\((y - [^()]*(?:\(\))?[^()]*)\)\.dot\(cg\.vector\(\)\)", r"(\1)"), (r"y\.squaredNorm\(\)", "yy")],
      [("eta", "Z"), ("div", "Z"), ("y", "Z"), ("pd", "Z"), ("yy", "Z")], "c01cg", _P),
    # the candidate direction -g + beta * pd, the restart / first-iteration direction -g, the arguments of beta
    K("src_cg_candidate", _C, r"cdescent\s*= (-cstate\.gx\(\) \+ [^;]*);", [(r"cstate\.gx\(\)", "g"), (r"pdescent", "pd")],
      [("g", "Z"), ("beta", "Z"), ("pd", "Z")], "c01cg", _P),
    K("src_cg_first_direction", _C, r"cdescent\s*= (-cstate\.gx\(\));", [(r"cstate\.gx\(\)", "g")], [("g", "Z")], "c01cg", _P, pick=0),
    K("src_cg_restart_direction", _C, r"cdescent\s*= (-cstate\.gx\(\));", [(r"cstate\.gx\(\)", "g")], [("g", "Z")], "c01cg", _P, pick=1),
    K("src_cg_beta_call", _C, r"const auto beta = (.*?);", [(r"this->beta\(pstate\.gx\(\), pdescent, cstate\.gx\(\)\)", "1")],
      [], "c01cg", _P),
    # which formula each solver id returns
] + [_beta(s) for s in ("hs", "fr", "pr", "cd", "ls", "dy", "n", "dycd", "dyhs", "frpr")]
