"""kernels of src/dataset/stats.cpp (C14): the integer guards of update()/done() that select the statistics branch,
the per-column enable flags chosen by make_flatten_stats/make_targets_stats/make_feature_stats and the batch ranges.
The floating-point expressions themselves are modelled by hand over Q (C14_Defs.v) and tied by the correspondence."""
HEX = [(r"\b0x00\b", "0"), (r"\b0x01\b", "1")]
FULL = r"make_full_tensor<uint8_t>\(make_dims\(stats\.m_min\.size\(\)\),\s*(.*?)\)\)"
KERNELS = [
    # the generated Src_<group>.v files import Src_numeric: make sure it is (re)generated for C14 runs on a fresh
    # (alternate) tree as well -- same anchor as C16's src_idiv, not used by the C14 model
    K("src_idiv_c14", "include/nano/core/numeric.h",
      r"tnominator\s+idiv\s*\([^)]*\)\s*(?:noexcept)?\s*\{\s*return\s+(.*?);\s*\}",
      [(CAST + r"\((\w+)\)", r"\1"), (r"static_cast<\w+>\((\w+)\)", r"\1")],
      [("nominator", "Z"), ("denominator", "Z")], "numeric", ["C14"]),
    # update(): a finite value counts for one sample
    K("src_c14_count_inc", "src/dataset/stats.cpp",
      r"stats\.m_samples\(column\)\s*\+=\s*(.*?);",
      [], [], "dstats", ["C14"]),
    # done(): N > 1 -> full statistics, else degenerate branch
    K("src_c14_many", "src/dataset/stats.cpp",
      r"void done\(scalar_stats_t& stats.*?if \(const auto N = stats\.m_samples\(i\);\s*(.*?)\)\s*\{",
      [], [("N", "Z")], "dstats", ["C14"]),
    # done(): N == 0 -> min/max/mean reset to zero
    K("src_c14_none", "src/dataset/stats.cpp",
      r"void done\(scalar_stats_t& stats.*?else\s*\{\s*if \((.*?)\)\s*\{\s*stats\.m_min\(i\)\s*=\s*0\.0;",
      [], [("N", "Z")], "dstats", ["C14"]),
    # done(): the per-column switch that turns scaling off
    K("src_c14_disabled", "src/dataset/stats.cpp",
      r"void done\(scalar_stats_t& stats.*?if \((i < enable_scaling.*?)\)\s*\{\s*stats\.m_min\(i\)\s*=\s*0\.0;",
      [(r"enable_scaling\.size\(\)", "esize"), (r"enable_scaling\(i\)", "eflag")] + HEX,
      [("i", "Z"), ("esize", "Z"), ("eflag", "Z")], "dstats", ["C14"]),
    # make_flatten_stats(): categorical columns are flagged 0
    K("src_c14_isclass", "src/dataset/stats.cpp",
      r"make_flatten_stats\(.*?const auto isclass\s*=\s*(.*?);",
      [(r"feature\.is_sclass\(\)", "is_sclass"), (r"feature\.is_mclass\(\)", "is_mclass")],
      [("is_sclass", "bool"), ("is_mclass", "bool")], "dstats", ["C14"]),
    K("src_c14_flatten_flag", "src/dataset/stats.cpp",
      r"make_flatten_stats\(.*?enable_scaling\(column\)\s*=\s*(.*?);",
      HEX, [("isclass", "bool")], "dstats", ["C14"]),
    # make_targets_stats(): categorical target -> every flag 0, else 1
    K("src_c14_target_isclass", "src/dataset/stats.cpp",
      r"make_targets_stats\(.*?::update\(stats.*?if \((target\.is_sclass\(\) \|\| target\.is_mclass\(\))\)",
      [(r"target\.is_sclass\(\)", "is_sclass"), (r"target\.is_mclass\(\)", "is_mclass")],
      [("is_sclass", "bool"), ("is_mclass", "bool")], "dstats", ["C14"]),
    K("src_c14_target_flag_class", "src/dataset/stats.cpp",
      r"make_targets_stats\(.*?if \(target\.is_sclass\(\) \|\| target\.is_mclass\(\)\)\s*\{\s*::done\(stats,\s*" + FULL,
      HEX, [], "dstats", ["C14"]),
    K("src_c14_target_flag_cont", "src/dataset/stats.cpp",
      r"make_targets_stats\(.*?if \(target\.is_sclass\(\) \|\| target\.is_mclass\(\)\)\s*\{.*?\}\s*else\s*\{\s*::done\(stats,\s*" + FULL,
      HEX, [], "dstats", ["C14"]),
    K("src_c14_feature_flag", "src/dataset/stats.cpp",
      r"make_feature_stats\(.*?critical0\(\"scalar statistics cannot be computed for categorical feature.*?::done\(stats,\s*" + FULL,
      HEX, [], "dstats", ["C14"]),
    # make_flatten_stats(): batch [i, min(i + batch, size)) and the loop step
    K("src_c14_batch_end", "src/dataset/stats.cpp",
      r"make_flatten_stats\(.*?const auto range\s*=\s*make_range\(i,\s*(.*?)\);",
      [], [("i", "Z"), ("batch", "Z"), ("size", "Z")], "dstats", ["C14"]),
    K("src_c14_batch_more", "src/dataset/stats.cpp",
      r"make_flatten_stats\(.*?for \(tensor_size_t i = 0, size = samples\.size\(\);\s*(.*?);",
      [], [("i", "Z"), ("size", "Z")], "dstats", ["C14"]),
    K("src_c14_batch_next", "src/dataset/stats.cpp",
      r"make_flatten_stats\(.*?for \(tensor_size_t i = 0, size = samples\.size\(\);[^;]*;\s*i\s*\+=\s*(.*?)\)",
      [], [("batch", "Z")], "dstats", ["C14"]),
]
