"""kernels of src/dataset/stats.cpp (C14): the integer guards of update()/done() that select the statistics branch,
the per-column enable flags chosen by make_flatten_stats/make_targets_stats/make_feature_stats and the batch ranges.
The floating-point expressions themselves are modelled by hand over Q (C14_Defs.v) and tied by the correspondence."""
HEX = [(r"\b0x00\b", "0"), (r"\b0x01\b", "1")]
FULL = r"make_full_tensor<uint8_t>\(make_dims\(stats\.m_min\.size\(\)\),\s*(.*?)\)\)"
KERNELS = [
    # the generated Src_<group>.v files import Src_numeric: make sure it is (re)generated for C14 runs on a fresh
    # (alternate) tree as well -- same anchor as C16's src_idiv, not used by the C14 model
    K("src_idiv_c14", "include/nano/core/numeric.h",
      r"tnominator\s+idiv\s*\([^)]*\)\s*(?:noexcept)?\s*\{\s*return\s+(.*?);\s*\}",
      [(CAST + r"\((\w+)\)", r"\1"), (r"static_cast<\w+>\((\w+)\)", r"\1")],
      [("nominator", "Z"), ("denominator", "Z")], "numeric", ["C14"]),
    # update(): a finite value counts for one sample
    K("src_c14_count_inc", "src/dataset/stats.cpp",
      r"stats\.m_samples\(column\)\s*\+=\s*(.*?);",
      [], [], "dstats", ["C14"]),
    # done(): N > 1 -> full statistics, else degenerate branch
    K("src_c14_many", "src/dataset/stats.cpp",
      r"void done\(scalar_stats_t& stats.*?if \(const auto N = stats\.m_samples\(i\);\s*(.*?)\)\s*\{",
      [], [("N", "Z")], "dstats", ["C14"]),
    # done(): N == 0 -> min/max/mean reset to zero
    K("src_c14_none", "src/dataset/stats.cpp",
      r"void done\(scalar_stats_t& stats.*?else\s*\{\s*if \((.*?)\)\s*\{\s*stats\.m_min\(i\)\s*=\s*0\.0;",
      [], [("N", "Z")], "dstats", ["C14"]),
    # done(): the per-column switch that turns scaling off
    K("src_c14_disabled", "src/dataset/stats.cpp",
      r"void done\(scalar_stats_t& stats.*?if \((i < enable_scaling.*?)\)\s*\{\s*stats\.m_min\(i\)\s*=\s*0\.0;",
      [(r"enable_scaling\.size\(\)", "esize"), (r"enable_scaling\(i\)", "eflag")] + HEX,
      [("i", "Z"), ("esize", "Z"), ("eflag", "Z")], "dstats", ["C14"]),
    # make_flatten_stats(): categorical columns are flagged 0
    K("src_c14_isclass", "src/dataset/stats.cpp",
      r"make_flatten_stats\(.*?const auto isclass\s*=\s*(.*?);",
      [(r"feature\.is_sclass\(\)", "is_sclass"), (r"feature\.is_mclass\(\)", "is_mclass")],
      [("is_sclass", "bool"), ("is_mclass", "bool")], "dstats", ["C14"]),
    K("src_c14_flatten_flag", "src/dataset/stats.cpp",
      r"make_flatten_stats\(.*?enable_scaling\(column\)\s*=\s*(.*?);",
      HEX, [("isclass", "bool")], "dstats", ["C14"]),
    # make_targets_stats(): categorical target -> every flag 0, else 1
    K("src_c14_target_isclass", "src/dataset/stats.cpp",
      r"make_targets_stats\(.*?::update\(stats.*?if \((target\.is_sclass\(\) \|\| target\.is_mclass\(\))\)",
      [(r"target\.is_sclass\(\)", "is_sclass"), (r"target\.is_mclass\(\)", "is_mclass")],
      [("is_sclass", "bool"), ("is_mclass", "bool")], "dstats", ["C14"]),
    K("src_c14_target_flag_class", "src/dataset/stats.cpp",
      r"make_targets_stats\(.*?if \(target\.is_sclass\(\) \|\| target\.is_mclass\(\)\)\s*\{\s*::done\(stats,\s*" + FULL,
      HEX, [], "dstats", ["C14"]),
    K("src_c14_target_flag_cont", "src/dataset/stats.cpp",
      r"make_targets_stats\(.*?if \(target\.is_sclass\(\) \|\| target\.is_mclass\(\)\)\s*\{.*?\}\s*else\s*\{\s*::done\(stats,\s*" + FULL,
      HEX, [], "dstats", ["C14"]),
    K("src_c14_feature_flag", "src/dataset/stats.cpp",
      r"make_feature_stats\(.*?critical0\(\"scalar statistics cannot be computed for categorical feature.*?::done\(stats,\s*" + FULL,
      HEX, [], "dstats", ["C14"]),
    # make_flatten_stats(): batch [i, min(i + batch, size)) and the loop step
    K("src_c14_batch_end", "src/dataset/stats.cpp",
      r"make_flatten_stats\(.*?const auto range\s*=\s*make_range\(i,\s*(.*?)\);",
      [], [("i", "Z"), ("batch", "Z"), ("size", "Z")], "dstats", ["C14"]),
    K("src_c14_batch_more", "src/dataset/stats.cpp",
      r"make_flatten_stats\(.*?for \(tensor_size_t i = 0, size = samples\.size\(\);\s*(.*?);",
      [], [("i", "Z"), ("size", "Z")], "dstats", ["C14"]),
    K("src_c14_batch_next", "src/dataset/stats.cpp",
      r"make_flatten_stats\(.*?for \(tensor_size_t i = 0, size = samples\.size\(\);[^;]*;\s*i\s*\+=\s*(.*?)\)",
      [], [("batch", "Z")], "dstats", ["C14"]),
]

# ---- extension (C14_Float*.v): the SHAPES of the floating-point expressions of stats.cpp, translated over Z ------------------------
# (same operator tree with the fields as variables; literals 1.0 / 0.0 become the variables one / zero). The PrimFloat twin
# C14_FloatDefs.v instantiates one polymorphic shape with the binary64 operations, and C14_Float.v proves (by reflexivity, i.e.
# syntactically) that the Z instance of that shape is the translated kernel: a changed field / operator / association in the
# source breaks that lemma, and the bit-for-bit comparison of the twin with the library catches it on concrete values.
SCALE = r"void scalar_stats_t::scale\(const scaling_type scaling, tensor2d_map_t values\) const.*?case scaling_type::%s:.*?(?<!auto )\barray\s*=\s*(.*?);"
UPSC = r"void scalar_stats_t::upscale\(scaling_type scaling, tensor2d_map_t values\) const.*?case scaling_type::%s:.*?(?<!auto )\barray\s*=\s*(.*?);"
FIELDS = [(r"m_mean\.array\(\)", "mean"), (r"m_min\.array\(\)", "mn"), (r"m_max\.array\(\)", "mx"),
          (r"m_div_range\.array\(\)", "dr"), (r"m_mul_range\.array\(\)", "mr"),
          (r"m_div_stdev\.array\(\)", "ds"), (r"m_mul_stdev\.array\(\)", "ms"), (r"\barray\b", "x")]
SVARS = [("x", "Z"), ("mean", "Z"), ("mn", "Z"), ("mx", "Z"), ("dr", "Z"), ("mr", "Z"), ("ds", "Z"), ("ms", "Z")]
DONE = r"void done\(scalar_stats_t& stats.*?"
DFIELDS = [(r"\b1\.0\b", "one"), (r"\b0\.0\b", "zero"), (r"stats\.m_max\(i\)", "mx"), (r"stats\.m_min\(i\)", "mn"),
           (r"stats\.m_stdev\(i\)", "sd"), (r"stats\.m_mean\(i\)", "sum"), (r"\bepsilon\b", "eps")]
DVARS = [("one", "Z"), ("zero", "Z"), ("mx", "Z"), ("mn", "Z"), ("sd", "Z"), ("sum", "Z"), ("eps", "Z"), ("dN", "Z")]
MS = r"auto make_scaling\(const scalar_stats_t& stats.*?case scaling_type::%s:\s*w\s*=\s*(.*?);"
MSB = r"auto make_scaling\(const scalar_stats_t& stats.*?case scaling_type::%s:\s*w\s*=[^;]*;\s*b\.array\(\)\s*=\s*(.*?);"
MFIELDS = [(r"stats\.m_mean\.array\(\)", "mean"), (r"stats\.m_min\.array\(\)", "mn"), (r"stats\.m_div_range\.array\(\)", "dr"),
           (r"stats\.m_div_stdev\.array\(\)", "ds"), (r"stats\.m_div_range\b", "dr"), (r"stats\.m_div_stdev\b", "ds")]
MVARS = [("mean", "Z"), ("mn", "Z"), ("dr", "Z"), ("ds", "Z")]
UP = r"void nano::upscale\(const scalar_stats_t& flatten_stats.*?"
KERNELS += [
    K("src_c14f_scale_mean", "src/dataset/stats.cpp", SCALE % "mean", FIELDS, SVARS, "dstatsf", ["C14"]),
    K("src_c14f_scale_minmax", "src/dataset/stats.cpp", SCALE % "minmax", FIELDS, SVARS, "dstatsf", ["C14"]),
    K("src_c14f_scale_standard", "src/dataset/stats.cpp", SCALE % "standard", FIELDS, SVARS, "dstatsf", ["C14"]),
    K("src_c14f_upscale_mean", "src/dataset/stats.cpp", UPSC % "mean", FIELDS, SVARS, "dstatsf", ["C14"]),
    K("src_c14f_upscale_minmax", "src/dataset/stats.cpp", UPSC % "minmax", FIELDS, SVARS, "dstatsf", ["C14"]),
    K("src_c14f_upscale_standard", "src/dataset/stats.cpp", UPSC % "standard", FIELDS, SVARS, "dstatsf", ["C14"]),
    # done(), branch N > 1: variance under the square root, mean, the four (de)normalisers
    K("src_c14f_var", "src/dataset/stats.cpp", DONE + r"stats\.m_stdev\(i\)\s*=\s*std::sqrt\((.*?)\);", DFIELDS, DVARS, "dstatsf", ["C14"]),
    K("src_c14f_mean", "src/dataset/stats.cpp", DONE + r"stats\.m_mean\(i\)\s*/=\s*(.*?);", DFIELDS, DVARS, "dstatsf", ["C14"],
      wrap="sum / ({})"),
    K("src_c14f_div_range", "src/dataset/stats.cpp", DONE + r"stats\.m_div_range\(i\)\s*=\s*(.*?);", DFIELDS, DVARS, "dstatsf", ["C14"]),
    K("src_c14f_div_stdev", "src/dataset/stats.cpp", DONE + r"stats\.m_div_stdev\(i\)\s*=\s*(.*?);", DFIELDS, DVARS, "dstatsf", ["C14"]),
    K("src_c14f_mul_range", "src/dataset/stats.cpp", DONE + r"stats\.m_mul_range\(i\)\s*=\s*(.*?);", DFIELDS, DVARS, "dstatsf", ["C14"]),
    K("src_c14f_mul_stdev", "src/dataset/stats.cpp", DONE + r"stats\.m_mul_stdev\(i\)\s*=\s*(.*?);", DFIELDS, DVARS, "dstatsf", ["C14"]),
    # update(): the two running sums
    K("src_c14f_upd_sum", "src/dataset/stats.cpp", r"stats\.m_mean\(column\)\s*\+=\s*(.*?);", [], [("sum", "Z"), ("value", "Z")],
      "dstatsf", ["C14"], wrap="sum + ({})"),
    K("src_c14f_upd_sq", "src/dataset/stats.cpp", r"stats\.m_stdev\(column\)\s*\+=\s*(.*?);", [], [("sq", "Z"), ("value", "Z")],
      "dstatsf", ["C14"], wrap="sq + ({})"),
    # make_scaling(): x -> w * x + b per mode
    K("src_c14f_mk_w_mean", "src/dataset/stats.cpp", MS % "mean", MFIELDS, MVARS, "dstatsf", ["C14"]),
    K("src_c14f_mk_w_minmax", "src/dataset/stats.cpp", MS % "minmax", MFIELDS, MVARS, "dstatsf", ["C14"]),
    K("src_c14f_mk_w_standard", "src/dataset/stats.cpp", MS % "standard", MFIELDS, MVARS, "dstatsf", ["C14"]),
    K("src_c14f_mk_b_mean", "src/dataset/stats.cpp", MSB % "mean", MFIELDS, MVARS, "dstatsf", ["C14"]),
    K("src_c14f_mk_b_minmax", "src/dataset/stats.cpp", MSB % "minmax", MFIELDS, MVARS, "dstatsf", ["C14"]),
    K("src_c14f_mk_b_standard", "src/dataset/stats.cpp", MSB % "standard", MFIELDS, MVARS, "dstatsf", ["C14"]),
    # nano::upscale(): bias = (W fb + bias - tb) / tw ; W = W / tw * fw
    K("src_c14f_up_bias_num", "src/dataset/stats.cpp", UP + r"bias\.array\(\)\s*=\s*(.*?);",
      [(r"\(weights\.matrix\(\) \* flatten_b\.vector\(\)\)\.array\(\)", "dotwfb"), (r"bias\.array\(\)", "b"),
       (r"targets_b\.array\(\)", "tb")], [("dotwfb", "Z"), ("b", "Z"), ("tb", "Z")], "dstatsf", ["C14"]),
    K("src_c14f_up_bias_div", "src/dataset/stats.cpp", UP + r"bias\.array\(\)\s*/=\s*(.*?);",
      [(r"targets_w\.array\(\)", "tw")], [("num", "Z"), ("tw", "Z")], "dstatsf", ["C14"], wrap="num / ({})"),
    K("src_c14f_up_w_div", "src/dataset/stats.cpp", UP + r"weights\.matrix\(\)\.array\(\)\.colwise\(\)\s*/=\s*(.*?);",
      [(r"targets_w\.array\(\)", "tw")], [("w", "Z"), ("tw", "Z")], "dstatsf", ["C14"], wrap="w / ({})"),
    K("src_c14f_up_w_mul", "src/dataset/stats.cpp", UP + r"weights\.matrix\(\)\.array\(\)\.rowwise\(\)\s*\*=\s*(.*?);",
      [(r"flatten_w\.array\(\)\.transpose\(\)", "fw")], [("w", "Z"), ("fw", "Z")], "dstatsf", ["C14"], wrap="w * ({})"),
]

# ---- second extension (C14_Wrap*.v): which scaling modes the wrappers of src/linear.cpp hand over ---------------------------------
# ::fit (anonymous namespace): the training iterator gets the model's `linear::scaling` parameter, nano::upscale gets
# iterator.scaling() for BOTH the inputs and the targets; linear_t::do_predict and linear::evaluate run their iterator with
# scaling_type::none (missing raw inputs become 0 in raw space). Modes as integers: none 0, mean 1, minmax 2, standard 3.
LMODES = [(r"scaling_type::none", "0"), (r"scaling_type::mean", "1"), (r"scaling_type::minmax", "2"), (r"scaling_type::standard", "3")]
KERNELS += [
    K("src_c14l_fit_scaling", "src/linear.cpp",
      r"auto fit\(const linear_t& model.*?iterator\.scaling\((.*?)\);",
      [(r"model\.parameter\(\"linear::scaling\"\)\.value<scaling_type>\(\)", "scaling_param")], [("scaling_param", "Z")], "dlinear", ["C14"]),
    K("src_c14l_fit_fmode", "src/linear.cpp",
      r"::upscale\(iterator\.flatten_stats\(\),\s*(.*?),\s*iterator\.targets_stats\(\)",
      [(r"iterator\.scaling\(\)", "scaling")], [("scaling", "Z")], "dlinear", ["C14"]),
    K("src_c14l_fit_tmode", "src/linear.cpp",
      r"::upscale\(iterator\.flatten_stats\(\),[^;]*?iterator\.targets_stats\(\),\s*(.*?),\s*weights",
      [(r"iterator\.scaling\(\)", "scaling")], [("scaling", "Z")], "dlinear", ["C14"]),
    K("src_c14l_predict_mode", "src/linear.cpp",
      r"void linear_t::do_predict\(.*?iterator\.scaling\((.*?)\);", LMODES, [], "dlinear", ["C14"]),
    K("src_c14l_evaluate_mode", "src/linear/util.cpp",
      r"tensor2d_t linear::evaluate\(.*?iterator\.scaling\((.*?)\);", LMODES, [], "dlinear", ["C14"]),
]
