#!/usr/bin/env python3
"""print the prompt for a round-N seeder sub-agent: property text + its scratch worktree, nothing else from /verif
usage: seed_prompt.py <PID> <count> [round-tag]   (the worktree /tmp/<tag>-<pid> must be created by the caller)"""
import glob
import json
import os
import sys

ROOT = os.path.dirname(os.path.dirname(os.path.abspath(__file__)))
pid = sys.argv[1].upper()
n = sys.argv[2]
tag = sys.argv[3] if len(sys.argv) > 3 else "seed2"
prop = None
for line in open(os.path.join(ROOT, "properties.jsonl")):
    p = json.loads(line)
    if p["id"] == pid:
        prop = p
avoid = []
for mf in sorted(glob.glob(os.path.join(ROOT, "seeded", pid, "*", "meta.json"))):
    m = json.load(open(mf))
    s = m.get("summary", "")
    avoid.append("; ".join(m.get("files", [])) + " (" + s[:110].replace("\n", " ") + "…)")
txt = open(os.path.join(ROOT, "notes", "AGENT_SEED_PROMPT.md")).read()
q = prop.get("quantifier", {})
out = (txt.replace("{WT}", "/tmp/%s-%s" % (tag, pid.lower())).replace("{OUT}", "/tmp/%s-%s-out" % (tag, pid.lower()))
       .replace("{PROPERTY}", prop["statement"]).replace("{QUANT}", q.get("text", "") if isinstance(q, dict) else str(q))
       .replace("{N}", n).replace("{PID}", pid).replace("{AVOID}", " | ".join(avoid) if avoid else "none"))
print(out)
