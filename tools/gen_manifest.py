#!/usr/bin/env python3
"""writes MANIFEST.json from the table below (keeps it schema-valid at all times)"""
import json
import os

ROOT = os.path.dirname(os.path.dirname(os.path.abspath(__file__)))

import importlib
import sys

sys.path.insert(0, os.path.join(ROOT, "tools"))
sys.path.insert(0, os.path.join(ROOT, "tools", "checks"))

# checks validated by the integrator (unchanged tree passes with several seeds, breaking changes detected)
READY = ["C%02d" % i for i in range(1, 21)]

# every tools/checks/cXX.py that defines MANIFEST = dict(text=, note=, technique=, design=[, category=]) is a claimed check
CLAIMED = {}
for _f in sorted(os.listdir(os.path.join(ROOT, "tools", "checks"))):
    if _f.startswith("c") and _f.endswith(".py"):
        _m = importlib.import_module(_f[:-3])
        if hasattr(_m, "MANIFEST") and _f[:-3].upper() in READY:
            CLAIMED[_f[:-3].upper()] = _m.MANIFEST

PENDING = {
}

ALL = ["C%02d" % i for i in range(1, 21)]


def main():
    checks = []
    for pid in ALL:
        if pid in CLAIMED:
            c = CLAIMED[pid]
            checks.append({
                "property_id": pid,
                "quick_cmd": "./check %s --tier quick" % pid,
                "thorough_cmd": "./check %s --tier thorough" % pid,
                "evidence_file": "/verif/evidence/%s.json" % pid,
                "replay_cmd_template": "./check %s --replay {path}" % pid,
                "engine": "coq-proof+correspondence",
                "level_claimed": {"category": c.get("category", "proof"), "text": c["text"], "design_ref": c["design"]},
                "level_note": c["note"],
                "technique": c["technique"],
            })
    na = [{"property_id": p, "reason": PENDING.get(p, "check not built yet (construction in progress, see DESIGN.md §6)")}
          for p in ALL if p not in CLAIMED]
    man = {
        "version": 1,
        "setup_cmd": "python3 tools/setup.py",
        "hooks": {
            "guard": "NANO_VERIF",
            "enable": "checks build /repo's working tree into /verif/_work/build-<variant> with -DNANO_VERIF (tools/vlib.py build_repo)",
            "baseline_off_cmd": "sh /verif/tools/baseline_off.sh",
            "source_commits": HOOK_COMMITS,
            "add_only": True,
        },
        "engines": [{"name": "coq-proof+correspondence", "path": "/verif/check",
                     "serves_properties": sorted(CLAIMED),
                     "kind_free_text": "Coq 8.16 theorems about executable models; models tied to /repo by a source translator "
                                       "(tools/translate.py) and by differential correspondence of the extracted OCaml model "
                                       "against C++ harnesses built from the working tree"}],
        "checks": checks,
        "not_applicable": na,
        "notes": "see DESIGN.md; known_findings.json lists genuine defects (fixed or recorded)",
    }
    json.dump(man, open(os.path.join(ROOT, "MANIFEST.json"), "w"), indent=1)
    print("MANIFEST.json: %d checks, %d not claimed" % (len(checks), len(na)))


HOOK_COMMITS = ["33b7190 verif: add the NANO_VERIF hook header (no-op unless the guard is defined)",
                "d179c32 verif: thread-pool event and schedule points (guarded by NANO_VERIF, add-only)",
                "4fadb44 verif: value events, RNG seed and thread-count overrides in the hook header (guarded)",
                "d95bbb0 verif: solver_t::done entry/exit events (guarded by NANO_VERIF, add-only)",
                "02c0abb verif: augmented-lagrangian outer-iteration event (guarded by NANO_VERIF, add-only)",
                "be21e41 verif: optional deterministic seed for make_rng() (guarded by NANO_VERIF, add-only)",
                "d73ded6 verif: optional override of pool_t::max_size() (guarded by NANO_VERIF, add-only)",
                "b10c141 verif: event kinds for the quasi-Newton update and the L-BFGS direction (guarded by NANO_VERIF, add-only)",
                "1a2d3c2 verif: quasi-Newton update and L-BFGS direction value events (guarded by NANO_VERIF, add-only)",
                "5ddf7c9 verif: ellipsoid update value event (guarded by NANO_VERIF, add-only)",
                "b097245 verif: conjugate-gradient direction value event (guarded by NANO_VERIF, add-only)",
                "5425f48 verif: interior-point program and iteration value events (guarded by NANO_VERIF, add-only)"]

if __name__ == "__main__":
    main()
