#!/bin/bash
# regression of DETECTION: re-run the quick check of each listed seed (seeded/<PID>/<k>) against /repo's HEAD + the seed's
# patch (no rebuild of the repository's tests, no demo: those were confirmed when the seed was accepted).
# usage: recheck_seeds.sh <lane worktree dir> <PID/k> [<PID/k> ...]   -> one line per seed on stdout
set -u
WT=$1; shift
if [ ! -d "$WT" ]; then git -C /repo worktree add -q "$WT" HEAD || exit 2; fi
for item in "$@"; do
  pid=${item%%/*}; k=${item##*/}
  git -C "$WT" checkout -q -- . && git -C "$WT" clean -fdq && git -C "$WT" checkout -q --detach "$(git -C /repo rev-parse HEAD)"
  if ! git -C "$WT" apply "/verif/seeded/$pid/$k/patch.diff" 2>/dev/null; then
    echo "$item PATCH-DOES-NOT-APPLY (repo HEAD moved: a later fix touched the same lines)"; continue
  fi
  out=$(cd /verif && nice -n 5 env VERIF_REPO="$WT" ./check "$pid" --tier quick 2>&1); rc=$?
  tags=$(echo "$out" | grep -o "replay=[^ ]*" | sed 's/.*-[0-9]*-//; s/\.json//' | sort -u | tr '\n' ' ')
  nf=$(echo "$out" | grep -c "no-failing-input-found")
  echo "$item rc=$rc tags: $tags nf=$nf"
  git -C "$WT" checkout -q -- .
done
