#!/usr/bin/env python3
"""prints the markdown table of the seeded breaking changes (seeded/<id>/<k>/meta.json) for DESIGN.md §7.9"""
import glob
import json
import os

ROOT = os.path.dirname(os.path.dirname(os.path.abspath(__file__)))
rows = []
for m in sorted(glob.glob(os.path.join(ROOT, "seeded", "C*", "*", "meta.json"))):
    d = json.load(open(m))
    pid, k = m.split(os.sep)[-3], m.split(os.sep)[-2]
    c = d.get("confirmed_by_integrator", {})
    summ = " ".join(str(d.get("summary", "")).split())
    needs = " ".join(str(d.get("needs", "")).split())
    short = lambda t, n: (t[:n].rsplit(" ", 1)[0] + " …") if len(t) > n else t
    rows.append("| %s/%s | %s | %s | %s | %s |" % (pid, k, short(summ, 260).replace("|", "/"), short(needs, 200).replace("|", "/"),
                                                  c.get("check_result", "not confirmed yet"),
                                                  (short(" ".join(str(c.get("caught_by", "")).split()), 260) +
                                                   (" — history: " + short(" ".join(c["history"].split()), 260) if c.get("history") else "")).replace("|", "/")))
table = "| seed | change | needs, in order to manifest | check | caught by |\n|---|---|---|---|---|\n" + "\n".join(rows)
import sys
if len(sys.argv) > 1 and sys.argv[1] == "--write":
    dp = os.path.join(ROOT, "DESIGN.md")
    s = open(dp).read()
    a, b = s.index("<!-- SEEDS-BEGIN -->") + len("<!-- SEEDS-BEGIN -->"), s.index("<!-- SEEDS-END -->")
    open(dp, "w").write(s[:a] + "\n" + table + "\n" + s[b:])
    print("DESIGN.md updated: %d seeds" % len(rows))
else:
    print(table)
