#!/bin/sh
# integrator's acceptance run for one property: quick tier with three seeds on the unchanged tree + evidence schema
pid=$1
cd /verif
for s in 1 2 20260926; do
  out=$(VERIF_SEED=$s ./check $pid --tier quick 2>&1); rc=$?
  echo "seed $s rc=$rc $(echo "$out" | grep -c VIOLATION) violation lines; $(echo "$out" | grep KNOWN-FINDING | head -2)"
  [ $rc -ne 0 ] && echo "$out" | tail -5
done
python3-vt -c "
import json,jsonschema
e=json.load(open('/verif/evidence/$pid.json'))
jsonschema.validate(e,json.load(open('/root/.vp/EVIDENCE.schema.json')))
c=e['coverage']
print('evidence valid: level',e['level'],'obligations',c.get('obligations'),'discharged',c.get('discharged'),'evaluations',c.get('evaluations'),'distinct',c.get('distinct_nontrivial'),'wall',e['wall_s'])"
grep -n "Admitted\|admit\.\|^Axiom\|^Parameter\|^Conjecture" coq/theories/${pid}_*.v coq/theories/Properties_${pid}.v | head
