"""C04 -- LP/QP primal-dual interior point: `converged` means feasible and optimal as stated
(proof over Q + translated decision kernels + differential correspondence + direct oracles, incl. exact rational decision
of small integer programs)."""
import collections
import itertools
import json
import os
import re
import shlex
from fractions import Fraction as F

import vlib


MANIFEST = dict(
    text=("Coq theorems over exact rationals about an executable model of what program::solver_t computes about a returned "
          "state (normalised program, objective, surrogate gap, dual/primal residuals, program_t::feasible, the status "
          "decision of solver_t::done): weak-duality gap bound with residuals (upper side) and its Cauchy-Schwarz/l1 form, the "
          "KKT-side lower bound, invariance of feasible set / argmin / residual algebra under positive normalisation, "
          "transfer of the internal feasibility test to the caller's program, `converged` <-> feasible and "
          "max(eta,|rdual|,|rprim|) < eps, never converged when no point passes the transferred feasibility test, and the "
          "combined bound f(x)-f* <= M*eps*(1+|x-x*|+|v|_1) for a state the model declares converged. The decision "
          "expressions are regenerated from solver.cpp on every run. The extracted model is compared with the real solver "
          "on KKT-constructed LPs/QPs (random active sets, rank-deficient Q=D'D, mixed magnitudes, default and user x0), "
          "equivalent restatements, infeasible/unbounded constructions and small integer programs; the property's own "
          "inequalities are checked on every converged state against the constructed optimum or an exact rational "
          "decision (Fourier-Motzkin + active-set enumeration). program::reduce is inside the model: the reduced [A'|b'] "
          "is assembled from a full-pivoting LU factorisation of [A|b]^T given as an oracle answer exactly as util.cpp forms "
          "U^T.block(0,0,rank,n)*L^T*P, and for every valid factorisation the solution set of A x = b is exactly preserved, "
          "inconsistency is preserved, rank = rows returns the system unchanged; per run the library's program::reduce is "
          "called on [A|b] systems with dependent rows next to Eigen's fullPivLu (same call): the printed factors are checked "
          "to be a factorisation, the model's assembly is compared with the library's output, and the row spaces of [A|b] and "
          "of the library's [A'|b'] are compared by exact elimination over Q. The step-length kernel (make_smax, s0*smax, "
          "s *= beta) is modelled from translated expressions: u > 0 and s0 < 1 imply u + s*du > 0. The Newton iteration of "
          "solve_with_inequality is inside the model (C04_Iter_Defs.v): program_t::update as a state transformer with its guards, the "
          "reduced KKT system [[Q - G'diag(u/(Gx-h))G, A'],[A,0]] and its right-hand side as the code assembles them, the "
          "back-substitution for du, both backtracking stages as fuelled loops with the translated tests, the five exits, the state "
          "update and the status through done(); the LDLT solve is an oracle answer. Proved for every program / state / answer: the "
          "elimination of du is correct (reduced system + back-substitution = full primal-dual Newton system), rprim and rdual "
          "contract exactly by 1 - s along such a direction, every iterate the loop can reach keeps G x - h < 0 strictly and u > 0 "
          "(hence eta > 0), stage 2 exits only with residual <= (1 - alpha s) r0 or by exhaustion, the revert branch restores every "
          "field update() owns, `converged` only through done() on the stored numbers; the stale trial-point numbers after an "
          "exhausted stage 2 with residual <= r0 are a refuted statement with a witness. Per run the values hook "
          "(ev_program_start / ev_program_iter) records every pass of ~225 solves with solver parameters across their domains: the "
          "recorded (dx, dv) must solve the model's system whenever the matrix is regular, du / step lengths / stage counters / exit "
          "kind / new state / eta / residual / status are recomputed by the extracted model on the implementation's numbers "
          "(bit-exact mirrors for scalar code, decisions within rounding of a threshold are counted as ambiguous), and the proved "
          "properties are evaluated on the implementation's numbers by independent exact code. That the LDLT answer solves the "
          "system (it does not when Q - hessvar is singular: finding in notes/C04.md), that Eigen's fullPivLu returns a "
          "factorisation, and floating-point rounding are searched, not proved. The rest of the solver is inside the model too "
          "(C04_Rest_Defs.v): solve_without_inequality (the KKT matrix [[Q,A'],[A,0]] and right-hand side (-c,b) as program.solve(zero,c,-b) "
          "assembles them, the LDLT answer as an oracle, update, Eigen's isApprox translated from Fuzzy.h, the translated status expression): "
          "the system is stationarity + feasibility, an exact answer is a global minimiser over {Ax=b} for psd Q, converged <-> finite and "
          "isApprox, the reported objective / residuals are those of the returned point, converged implies |A'x-b'|_2 <= eps2 |(c',b')|_2 on "
          "the normalised rows and hence never on a system without such a point; that it implies the property's tolerance 1e-6(1+|b|_inf) "
          "is refuted with a witness (|A|_F >> 1+|b|_inf) and reproduced on the library (defect candidate equality-tolerance-vs-row-scale). "
          "make_strictly_feasible / make_x0 (it is not an auxiliary LP: least-squares candidates (G'G)^-1 G'(h - y 1) for 100 distances y): a "
          "returned point is strictly inside every inequality for any inner answers, a candidate solving its normal equations is the "
          "least-squares fit, a point with all slacks equal to a trial distance is found, nothing found => start 0 => `unfeasible` without an "
          "iteration unless h > 0; that a strictly feasible program gets a start is refuted with a witness (x<=0, -2x<=2, x<=10) reproduced on "
          "the library, and measured (15-22 % of the generated programs with a known strictly feasible point are reported unfeasible "
          "before the first iteration). LDLT failures: lu_ok_b = the recorded (dx,dv) solves the reduced system within a tolerance; for ANY "
          "direction the full Newton rows hold up to the defect and the residuals after a step are (1-s) times the old ones plus s times the "
          "defect (no contraction without lu_ok: refuted with a witness), while every run of the loop that ends converged -- whatever the "
          "answers -- ends at a point passing the feasibility test transferred to the caller's rows with eta, |rdual|, |rprim| < eps: a failed "
          "factorisation cannot produce a false converged. Per run the REST stage solves ~680 equality-only programs (KKT-consistent, "
          "rank-deficient restatements, inconsistent, unbounded, large right-hand sides, rows much larger than their right-hand side, nearly "
          "dependent rows, ill-conditioned Q), re-takes the status with the extracted model on the returned (x,v) and evaluates the proved "
          "bound by independent exact code; calls make_strictly_feasible on ~780 programs next to its trial loop recomputed with the same "
          "Eigen calls (distances bit-exact, candidates checked against their normal equations, the model's loop on them against the library's "
          "result) and observes the default start through ev_program_start; the ITER stage counts the passes violating lu_ok (7-11 %) and "
          "checks every converged final state for feasibility on the program as solved."),
    note=("Coq kernel; translator (5 decision kernels + 9 step-length kernels + 14 iteration kernels and 5 text pins of solver.cpp, 12 integer kernels of util.cpp); extraction with ExtrOcamlZBigInt (Zarith) + Z.gcd realised by Zarith's gcd; the guarded values hook ev_program_start/ev_program_iter of /repo (NANO_VERIF); harness "
          "against the library built from the working tree + OCaml driver + exact rational oracle in tools/checks/c04.py; "
          "square roots are not modelled (norm divisors are inputs checked against the exact squares); the LU factorisation "
          "inside program::reduce is an oracle answer whose validity is checked per run on the factors Eigen returns (exactly "
          "when they are exact in doubles, within 1e-12 otherwise); make_smax is in an anonymous namespace: its expressions are "
          "translated, its effect is observed as u > 0 on every returned state and on every iterate of the ITER stage, and its value "
          "s0*make_smax bit-exactly through the hook. The iteration model is exact: the LDLT answer is an oracle validated per pass; "
          "vector expressions are compared within 1e-11 of the summed magnitudes; the two `all finite` tests are oracle bits. REST stage: "
          "13 more kernels (status expression of solve_without_inequality, Eigen's isApprox from /usr/include/eigen3/Eigen/src/Core/Fuzzy.h, the "
          "acceptance test / loop start / condition / increment / trial count of make_strictly_feasible, 6 text pins); no hook exists in "
          "solve_without_inequality: the program as solved is reconstructed by the harness with the library's reduce and the same norms (as in "
          "the SOLVE stage) and the decision is re-taken on the returned (x,v), ambiguous within rounding of the isApprox threshold; the trial "
          "loop of make_strictly_feasible is recomputed in the harness with the same Eigen calls (its candidates are oracle answers validated "
          "against their normal equations); the default start is read from ev_program_start."),
    technique="Coq proof over Q of a translated+extracted model, differential correspondence within rounding tolerance, "
              "direct property oracles on the implementation (constructed optima, exact rational decision)",
    design="DESIGN.md section 2, C04")

VARIANTS = ["rel"]

CHUNKS = {"quick": (1, 5000), "thorough": (40, 10000)}   # (chunks, programs per chunk); the chunk id perturbs the seed
REDUCE_COUNTERS = ("reduce_systems_checked", "reduce_exact_factorisations", "reduce_rows_removed", "reduce_full_rank", "reduce_empty",
                   "reduce_inconsistent", "reduce_exact_rowspace")
ITER_CHUNKS = {"quick": (1, 250), "thorough": (8, 1000)}   # ITER stage: (chunks, generator draws per chunk)
ITER_COUNTERS = ("solves", "events", "systems_solved", "systems_inaccurate_singular_block", "systems_regular", "full_passes_compared",
                 "exact_stage_counts", "bit_exact_mirrors", "status_decisions", "ambiguous", "skipped", "starts_rejected", "underflow_events",
                 "boundary_events", "over_budget_events", "propfails", "strict_feasibility_at_rounding", "stage2_exhausted_reverted",
                 "stage2_exhausted_stale", "starts", "finals", "lu_ok_checked", "lu_ok_violations", "converged_after_lu_ok_violation",
                 "converged_finals_checked")
REST_CHUNKS = {"quick": (1, 1200), "thorough": (10, 4000)}   # REST stage: (chunks, generator draws per chunk)
REST_COUNTERS = ("eq_states", "eq_status_decisions", "eq_ambiguous", "eq_nonfinite", "eq_converged", "msf_calls", "msf_found", "msf_trials",
                 "msf_systems_solved", "msf_systems_singular", "msf_ambiguous", "msf_bit_exact_results", "msf_rounding_level", "rest_propfails",
                 "default_starts", "started", "started_from_zero", "rejected_without_iteration", "start_ambiguous", "strictly_feasible_known",
                 "strictly_feasible_known_msf_nothing", "strictly_feasible_known_rejected", "feasible_known", "feasible_known_rejected")
KF_SCALE = "equality-tolerance-vs-row-scale"
KF_STALE = "objective-stale-trial-point"
KF_HUGE = "feasibility-at-rounding-level"


def _build_driver():
    """the extracted model uses Zarith (ExtrOcamlZBigInt), so the shared zutil.ml.inc (helpers for the inductive Z)
    cannot be prefixed: private variant of vlib.build_ocaml"""
    odir = os.path.join(vlib.WORK, "ocaml")
    os.makedirs(odir, exist_ok=True)
    exe = os.path.join(odir, "c04_driver")
    model = os.path.join(vlib.COQ, "extracted", "c04_model.ml")
    driver = os.path.join(vlib.ROOT, "ocaml", "c04_driver.ml")
    with vlib.Lock("ocaml-c04_driver"):
        srcs = [model, model + "i", driver]
        for s in srcs:
            if not os.path.exists(s):
                raise vlib.CheckError("missing %s (extraction failed?)" % s)
        if os.path.exists(exe) and all(os.path.getmtime(s) <= os.path.getmtime(exe) for s in srcs):
            return exe
        bd = os.path.join(odir, "c04_driver.build")
        vlib.sh("rm -rf %s && mkdir -p %s" % (shlex.quote(bd), shlex.quote(bd)))
        for s in (model, model + "i"):
            vlib.sh("cp %s %s/" % (shlex.quote(s), shlex.quote(bd)))
        with open(os.path.join(bd, "driver_main.ml"), "w") as f:
            f.write("open C04_model\n# 1 \"c04_driver.ml\"\n")
            f.write(open(driver).read())
        cmd = "ocamlfind ocamlopt -w -a -package zarith -linkpkg c04_model.mli c04_model.ml driver_main.ml -o %s" % shlex.quote(exe)
        rc, out = vlib.sh(cmd, cwd=bd, timeout=600)
        if rc != 0:
            raise vlib.CheckError("ocaml build of c04_driver failed:\n%s" % out[-3000:])
    return exe


def _seed_last_good_kernels():
    """an alternate tree (VERIF_REPO) starts with an empty coq/generated: one kernel that no longer translates would leave no
    Src_c04.v at all and with it no extracted model and no driver, i.e. no correspondence stage on exactly the changes that
    matter. Start from the main tree's last good file, as a run in the main tree does; translate.run overwrites it whenever
    every kernel translates (and reports the kernel that does not)."""
    if not vlib.ALT:
        return
    src = os.path.join(vlib.ROOT, "coq", "generated", "Src_c04.v")
    dst = os.path.join(vlib.COQ, "generated", "Src_c04.v")
    if os.path.exists(src) and not os.path.exists(dst):
        os.makedirs(os.path.dirname(dst), exist_ok=True)
        with vlib.Lock("coq"):
            open(dst, "w").write(open(src).read())


def setup():
    vlib.build_harness("c04_program", "rel", need_lib=True)
    try:
        _build_driver()
    except vlib.CheckError:
        pass  # extraction not built yet: run() builds it after coq_check


# ------------------------------------------------------------------------------------------------------------------
# parsing of SOLVE lines
# ------------------------------------------------------------------------------------------------------------------
def _fl(s):
    s = s.strip()
    if s in ("nan", "-nan"):
        return float("nan")
    if s in ("inf", "-inf"):
        return float(s)
    return float.fromhex(s)


def _vec(s):
    s = s.strip()
    return [] if s in ("-", "") else [_fl(t) for t in s.split(",")]


def _mat(s):
    s = s.strip()
    return [] if s in ("-", "") else [_vec(t) for t in s.split(";")]


def parse_solve(line):
    lhs, rhs = line.split(" = ", 1)
    lp = lhs.split(" | ")
    rp = rhs.split(" | ")
    hdr = lp[0].split()
    d = {"id": hdr[1], "text": " | ".join(lp[:7])}
    for tok in hdr[2:]:
        k, v = tok.split("=", 1)
        d[k] = v
    d["Q"], d["c"], d["A"], d["b"], d["G"], d["h"] = _mat(lp[1]), _vec(lp[2]), _mat(lp[3]), _vec(lp[4]), _mat(lp[5]), _vec(lp[6])
    d["x0v"], d["xs"], d["us"], d["vs"] = _vec(lp[10]), _vec(lp[11]), _vec(lp[12]), _vec(lp[13])
    st = rp[0].split()
    d["status"], d["iters"], d["fx"] = int(st[0]), int(st[1]), _fl(st[2])
    d["x"], d["u"], d["v"] = _vec(rp[1]), _vec(rp[2]), _vec(rp[3])
    return d


# ------------------------------------------------------------------------------------------------------------------
# exact rational decision of small programs (independent of the Coq model and of the library)
# ------------------------------------------------------------------------------------------------------------------
def fm_feasible(eqs, ineqs, nvar):
    """is { x in Q^nvar : a.x = r for (a, r) in eqs, a.x <= r for (a, r) in ineqs } non-empty?  Equalities are
    eliminated by substitution, inequalities by Fourier-Motzkin (duplicates merged)."""
    eqs = [([F(t) for t in a], F(r)) for a, r in eqs]
    ineqs = [([F(t) for t in a], F(r)) for a, r in ineqs]
    while eqs:
        a, r = eqs.pop()
        j = next((k for k in range(nvar) if a[k] != 0), None)
        if j is None:
            if r != 0:
                return False
            continue

        def sub(row):
            b, s = row
            if b[j] == 0:
                return row
            f = b[j] / a[j]
            return ([b[k] - f * a[k] for k in range(nvar)], s - f * r)
        eqs = [sub(e) for e in eqs]
        ineqs = [sub(e) for e in ineqs]
    for j in range(nvar):
        pos = [e for e in ineqs if e[0][j] > 0]
        neg = [e for e in ineqs if e[0][j] < 0]
        new = [e for e in ineqs if e[0][j] == 0]
        for (a, r) in pos:
            for (b, s) in neg:
                fa, fb = 1 / a[j], -1 / b[j]
                new.append(([fa * a[k] + fb * b[k] for k in range(nvar)], fa * r + fb * s))
        best = {}
        for a, r in new:
            lead = next((abs(t) for t in a if t != 0), None)
            if lead is None:
                if r < 0:
                    return False
                continue
            key = tuple(t / lead for t in a)
            r = r / lead
            if key not in best or r < best[key]:
                best[key] = r
        ineqs = [(list(k), r) for k, r in best.items()]
    return all(r >= 0 for a, r in ineqs if all(t == 0 for t in a))


def solve_particular(rows, rhs, nunk):
    """one solution of rows * z = rhs over Q (free unknowns = 0), or None if inconsistent"""
    M = [list(r) + [s] for r, s in zip(rows, rhs)]
    piv = []
    rr = 0
    for cidx in range(nunk):
        p = next((i for i in range(rr, len(M)) if M[i][cidx] != 0), None)
        if p is None:
            continue
        M[rr], M[p] = M[p], M[rr]
        pv = M[rr][cidx]
        M[rr] = [t / pv for t in M[rr]]
        for i in range(len(M)):
            if i != rr and M[i][cidx] != 0:
                f = M[i][cidx]
                M[i] = [a - f * b for a, b in zip(M[i], M[rr])]
        piv.append(cidx)
        rr += 1
        if rr == len(M):
            break
    for i in range(rr, len(M)):
        if M[i][nunk] != 0:
            return None
    z = [F(0)] * nunk
    for i, cidx in enumerate(piv):
        z[cidx] = M[i][nunk]
    return z


def objective(Q, c, x):
    f = sum(ci * xi for ci, xi in zip(c, x))
    if Q:
        f += F(1, 2) * sum(x[i] * Q[i][j] * x[j] for i in range(len(x)) for j in range(len(x)))
    return f


def exact_decide(Q, c, A, b, G, h, guess=None):
    """('infeasible',) | ('unbounded',) | ('optimal', f*, x*) | ('bounded-undecided',) for a convex program with
    rational data: feasibility and the existence of a descent ray (A d = 0, G d <= 0, Q d = 0, c.d < 0; for convex
    quadratics on polyhedra this is exactly unboundedness) by Fourier-Motzkin, the optimum by enumerating active sets
    and solving the KKT system exactly (any KKT point of a convex program is a global optimum)."""
    n = len(c)
    Q = [[F(t) for t in r] for r in Q]
    c = [F(t) for t in c]
    A = [[F(t) for t in r] for r in A]
    b = [F(t) for t in b]
    G = [[F(t) for t in r] for r in G]
    h = [F(t) for t in h]
    if not fm_feasible(list(zip(A, b)), list(zip(G, h)), n):
        return ("infeasible",)
    if fm_feasible([(r, 0) for r in A] + [(r, 0) for r in Q], [(r, 0) for r in G] + [(c, -1)], n):
        return ("unbounded",)
    m, p = len(G), len(A)
    order = []
    if guess is not None:
        order.append(tuple(guess))
    for k in range(0, m + 1):
        order += list(itertools.combinations(range(m), k))
    seen = set()
    for S in order:
        if S in seen:
            continue
        seen.add(S)
        k = len(S)
        nunk = n + p + k
        rows, rhs = [], []
        for j in range(n):
            row = [Q[j][t] if Q else F(0) for t in range(n)] + [A[i][j] for i in range(p)] + [G[i][j] for i in S]
            rows.append(row)
            rhs.append(-c[j])
        for i in range(p):
            rows.append(A[i] + [F(0)] * (p + k))
            rhs.append(b[i])
        for i in S:
            rows.append(G[i] + [F(0)] * (p + k))
            rhs.append(h[i])
        z = solve_particular(rows, rhs, nunk)
        if z is None:
            continue
        x, u = z[:n], z[n + p:]
        if any(t < 0 for t in u):
            continue
        if any(sum(gi * xi for gi, xi in zip(G[i], x)) > h[i] for i in range(m)):
            continue
        return ("optimal", objective(Q, c, x), x)
    return ("bounded-undecided",)


def exact_oracle(d):
    """the property on one small program, decided exactly; returns (verdict, failure or None)"""
    x = d["x"]
    guess = None
    if d["status"] == 1 and d["G"]:
        guess = tuple(i for i in range(len(d["G"])) if abs(sum(g * t for g, t in zip(d["G"][i], x)) - d["h"][i]) < 1e-6)
    res = exact_decide(d["Q"], d["c"], d["A"], d["b"], d["G"], d["h"], guess)
    if d["status"] != 1:
        return res[0], None
    if res[0] == "infeasible":
        return res[0], "converged-on-infeasible"
    if res[0] == "unbounded":
        return res[0], "converged-on-unbounded"
    if res[0] != "optimal":
        return res[0], None
    fstar, xstar = res[1], res[2]
    xq = [F(t) for t in x]
    fx = objective([[F(t) for t in r] for r in d["Q"]], [F(t) for t in d["c"]], xq)
    M = max(1e-3, sum(t * t for r in d["Q"] for t in r) ** 0.5, sum(t * t for t in d["c"]) ** 0.5)
    dx = float(sum((a - b) ** 2 for a, b in zip(xq, xstar))) ** 0.5
    bound = 1e-8 * M * (1 + dx + sum(abs(t) for t in d["u"]) + sum(abs(t) for t in d["v"]))
    gap = abs(float(fx - fstar))
    if not gap <= bound:
        return res[0], "optimality-gap |f(x)-f*|=%g bound=%g f*=%s x*=%s" % (gap, bound, fstar, [str(t) for t in xstar])
    return res[0], None


# ------------------------------------------------------------------------------------------------------------------
def _kv(done_line):
    out = {}
    for tok in done_line.split()[1:]:
        if "=" in tok:
            k, v = tok.split("=", 1)
            out[k] = v
    return out


def _hist(s):
    out = {}
    for tok in s.split(","):
        if ":" in tok:
            k, v = tok.split(":")
            out[k] = int(v)
    return out


def _program_of(line):
    """the text of a SOLVE/FAIL line that the harness' replay mode accepts"""
    m = re.search(r"(SOLVE \d+ kind=.*)$", line)
    t = m.group(1) if m else line
    return t.split(" = ")[0]


def _run_text(exe, drv, text):
    """replay one program through harness + driver + exact oracle; returns the failing lines"""
    rc, out = vlib.sh([exe, "replay", text], timeout=600)
    lines = [l for l in out.split("\n") if l]
    bad = [l for l in lines if l.startswith("FAIL ")]
    if rc != 0 or not any(l.startswith("DONE ") for l in lines):
        bad.append("CRASH exit=%d %s" % (rc, out[-300:]))
    if drv:
        rc2, mout = vlib.sh([drv], input="\n".join(l for l in lines if l.startswith(("CONST ", "SOLVE ", "REDUCE "))) + "\n", timeout=600)
        bad += [l for l in mout.split("\n") if l.startswith(("MISMATCH", "PROPFAIL"))]
    for l in lines:
        if l.startswith("SOLVE ") and " kind=tiny" in l:
            d = parse_solve(l)
            verdict, failure = exact_oracle(d)
            if failure:
                bad.append("EXACT %s id=%s %s" % (failure, d["id"], d["text"]))
    return bad


def _clause(l):
    p = l.split()
    return (p[0] + " " + p[1]) if len(p) > 1 else l


def _shrink(exe, drv, text, clause, budget=60):
    """delta-debugging over the rows of a failing program (inequality rows whose constructed multiplier is 0 or
    unknown, equality rows likewise): keep a removal when the same clause still fails"""
    def parts(t):
        return t.split(" | ")

    def rows(s):
        s = s.strip()
        return [] if s in ("-", "") else s.split(";")

    def vals(s):
        s = s.strip()
        return [] if s in ("-", "") else s.split(",")

    def fmt(l, sep):
        return sep.join(l) if l else "-"
    cur = text
    tried = 0
    changed = True
    while changed and tried < budget:
        changed = False
        p = parts(cur)
        if len(p) < 14:
            break
        for (mi, vi, ki) in ((5, 6, 12), (3, 4, 13)):
            M, v, mu = rows(p[mi]), vals(p[vi]), vals(p[ki])
            for i in range(len(M) - 1, -1, -1):
                if mu and i < len(mu) and _fl(mu[i]) != 0.0:
                    continue
                if mi == 5 and len(M) == 1:
                    continue
                q = list(p)
                q[mi] = fmt(M[:i] + M[i + 1:], ";")
                q[vi] = fmt(v[:i] + v[i + 1:], ",")
                if mu:
                    q[ki] = fmt(mu[:i] + mu[i + 1:], ",")
                q[7], q[8] = "-", "-"
                cand = " | ".join(q)
                tried += 1
                if any(_clause(b) == clause for b in _run_text(exe, drv, cand)):
                    cur = cand
                    changed = True
                    break
                if tried >= budget:
                    break
            if changed or tried >= budget:
                break
    return cur


def _replay(path):
    d = json.load(open(path))
    exe = vlib.build_harness("c04_program", "rel", need_lib=True)
    drv = None
    try:
        drv = _build_driver()
    except vlib.CheckError:
        pass
    if d.get("reduce") and drv:
        n, A, b = d["reduce"]
        rc, out = vlib.sh("%s reduce %s %s %s | %s" % (exe, n, shlex.quote(A), shlex.quote(b), drv), timeout=600)
        bad = [l for l in out.split("\n") if l.startswith(("MISMATCH", "PROPFAIL"))]
        print("\n".join(l[:1500] for l in bad[:10]) or "replay: no failure")
        if bad:
            print("VIOLATION property=C04 replay=%s" % path)
        return 1 if bad else 0
    if d.get("iter") and drv:
        text, par = d["iter"]
        rc, out = vlib.sh("%s iterreplay %s %s | %s" % (exe, shlex.quote(text), shlex.quote(par), drv), timeout=600)
        bad = [l for l in out.split("\n") if l.startswith(("MISMATCH", "PROPFAIL"))]
        print("\n".join(l[:1500] for l in bad[:10]) or "replay: no failure")
        if bad:
            print("VIOLATION property=C04 replay=%s" % path)
        return 1 if bad else 0
    if d.get("rest") and drv:
        rc, out = vlib.sh("%s restreplay %s" % (exe, shlex.quote(d["rest"])), timeout=600)
        lines = [l for l in out.split("\n") if l]
        bad = [l for l in lines if l.startswith("FAIL ")]
        rc2, mout = vlib.sh([drv], input="\n".join(l for l in lines if l.startswith(("CONST ", "SOLVE ", "REDUCE ", "MSF ", "MSTART "))) + "\n", timeout=600)
        bad += [l for l in mout.split("\n") if l.startswith(("MISMATCH", "PROPFAIL"))]
        for l in lines:
            if l.startswith("SOLVE ") and " kind=eq-" in l:
                dd = parse_solve(l)
                if len(dd["c"]) <= 4:
                    verdict, failure = exact_oracle(dd)
                    if failure:
                        bad.append("EXACT %s id=%s %s" % (failure, dd["id"], dd["text"]))
        print("\n".join(l[:1500] for l in bad[:10]) or "replay: no failure")
        if bad:
            print("VIOLATION property=C04 replay=%s" % path)
        return 1 if bad else 0
    text = d.get("program")
    if text:
        bad = _run_text(exe, drv, text)
        print("\n".join(l[:1500] for l in bad[:10]) or "replay: no failure")
        if bad:
            print("VIOLATION property=C04 replay=%s" % path)
        return 1 if bad else 0
    cmd = d.get("replay_cmd")
    if cmd:
        rc, out = vlib.sh(cmd + " | grep -E '^(FAIL|MISMATCH|PROPFAIL)' | cut -c1-1500 | head -10", timeout=3000)
        print(out or "replay: no failure")
        if out.strip():
            print("VIOLATION property=C04 replay=%s" % path)
        return 1 if out.strip() else 0
    print("nothing to replay in %s" % path)
    return 0


def run(tier, replay=None):
    if replay:
        return _replay(replay)
    r = vlib.Run("C04", tier)
    _seed_last_good_kernels()
    cres = vlib.coq_check("C04", targets=["theories/Extract_C04.vo", "theories/Properties_C04.vo"])
    exe = vlib.build_harness("c04_program", "rel", need_lib=True)
    nchunks, ncases = CHUNKS.get(tier, CHUNKS["quick"])
    drv = None
    try:
        drv = _build_driver()
    except (vlib.CheckError, OSError):
        if cres["ok"]:
            raise
    impl_fail, mism, exact_fail, cands, genbad = [], [], [], [], []
    totals = collections.Counter()
    hists = {"kinds": collections.Counter(), "converged_by_kind": collections.Counter(), "sizes": collections.Counter(),
             "objective": collections.Counter()}
    exact_verdicts = collections.Counter()
    selftest = collections.Counter()
    status_hist = collections.Counter()
    worst = {"worst_gap_ratio": 0.0, "worst_feas_ratio": 0.0}
    distinct = set()
    samples = []
    byid = {}
    redbyid = {}
    evaluations = checked = 0
    drv_counts = collections.Counter()
    reduce_ranks = collections.Counter()
    reduce_kinds = collections.Counter()
    exact_budget = 3000 if tier == "quick" else 1000000
    cmd_of = lambda ch: "VERIF_SEED=%d %s %s %d %d" % (r.seed, exe, tier, ncases, ch)
    for ch in range(nchunks):
        rc, out = vlib.sh([exe, tier, str(ncases), str(ch)], timeout=3000, env={"VERIF_SEED": str(r.seed)})
        lines = [l for l in out.split("\n") if l]
        del out
        done = [l for l in lines if l.startswith("DONE ")]
        solves = [l for l in lines if l.startswith("SOLVE ")]
        evaluations += len(solves)
        impl_fail += [(ch, l) for l in lines if l.startswith("FAIL ")]
        cands += [(ch, l) for l in lines if l.startswith("CAND ")]
        if rc != 0 or not done:
            r.violation("crash", {"kind": "implementation-crash / exception in the harness", "exit": rc, "mode": tier,
                                  "last_operations": [l[:1500] for l in solves][-3:],
                                  "tail": "\n".join(lines[-8:])[-1500:], "replay_cmd": cmd_of(ch)}, fingerprint="crash")
        else:
            d = _kv(done[0])
            for k in ("solves", "converged", "fails", "candidates", "reduced", "user_x0", "gap_checked", "unfeasible", "unbounded",
                      "failed", "max_iters"):
                totals[k] += int(d.get(k, 0))
            for k in hists:
                hists[k].update(_hist(d.get(k, "")))
            for k in worst:
                worst[k] = max(worst[k], float(d.get(k, 0)))
        for l in lines:
            if l.startswith("REDUCE "):
                reduce_kinds[l.split(" ", 3)[2].split("=", 1)[1].split(":")[0].split("+")[0]] += 1
        for l in solves:
            st = l.split(" = ", 1)[1].split(" ", 1)[0]
            status_hist[st] += 1
            if st == "1":
                distinct.add(hash(l.split(" | ", 1)[1].split(" = ")[0]))
        if not samples:
            samples = [l[:700] for l in solves if len(l) < 700 and " = 1 " in l][:4] or [l[:700] for l in solves[:3]]
        # exact rational decision of the small integer programs (+ self-test of the decision procedure on small
        # KKT-constructed programs, whose optimum is known)
        for l in solves:
            if " kind=tiny " in l and exact_budget > 0:
                exact_budget -= 1
                d = parse_solve(l)
                verdict, failure = exact_oracle(d)
                exact_verdicts["%s/status=%d" % (verdict, d["status"])] += 1
                if failure:
                    exact_fail.append((ch, failure, d))
            elif " kind=kkt " in l and selftest["checked"] < (60 if tier == "quick" else 600):
                d = parse_solve(l)
                if len(d["c"]) <= 3 and len(d["G"]) <= 6:
                    res = exact_decide(d["Q"], d["c"], d["A"], d["b"], d["G"], d["h"])
                    selftest["checked"] += 1
                    fs = objective([[F(t) for t in row] for row in d["Q"]], [F(t) for t in d["c"]], [F(t) for t in d["xs"]])
                    if res[0] == "optimal" and res[1] == fs:
                        selftest["agree"] += 1
                    elif res[0] == "bounded-undecided":
                        selftest["undecided"] += 1
                    else:
                        selftest["disagree"] += 1
                        r.violation("oracle-selftest", {"kind": "the exact decision procedure of the check disagrees with a "
                                                                "constructed optimum (defect of the check, not of the library)",
                                                        "case": d["text"], "decided": str(res[:2]), "constructed_f": str(fs)},
                                    no_input=True)
        # correspondence with the extracted model
        if drv:
            feed = "\n".join(l for l in lines if l.startswith(("CONST ", "SOLVE ", "REDUCE "))) + "\n"
            rc2, mout = vlib.sh([drv], input=feed, timeout=3000)
            del feed
            got = 0
            cm = []
            for l in mout.split("\n"):
                if l.startswith(("MISMATCH", "PROPFAIL")):
                    cm.append(l)
                elif l.startswith("GENBAD"):
                    genbad.append((ch, l))
                elif l.startswith("MODEL-DONE"):
                    dd = _kv(l)
                    got = int(dd.get("checked", 0))
                    for k in ("compared", "decisions", "ambiguous", "kkt_verified", "stale_states", "converged_with_negative_u",
                              "returned_states_u_checked") + REDUCE_COUNTERS:
                        drv_counts[k] += int(dd.get(k, 0))
                    reduce_ranks.update(_hist(dd.get("reduce_ranks", "")))
            checked += got
            if rc2 != 0 or (not got and solves):
                r.violation("driver", {"kind": "model driver failed", "out": mout[-2000:], "replay_cmd": cmd_of(ch) + " | " + drv},
                            no_input=True)
            if cm or genbad:
                ids = set(re.search(r"id=(\S+)", x).group(1) for x in cm + [g for _, g in genbad] if re.search(r"id=(\S+)", x))
                for l in solves:
                    i = l.split(" ", 2)[1]
                    if i in ids:
                        byid.setdefault((ch, i), l)
                for l in lines:
                    if l.startswith("REDUCE ") and l.split(" ", 2)[1] in ids:
                        redbyid.setdefault((ch, l.split(" ", 2)[1]), l)
            mism += [(ch, l) for l in cm]
        del lines, solves

    # ---- direct oracle on the implementation: one violation per clause (shrunk) ------------------------------------
    seen = set()
    for ch, l in impl_fail:
        clause = l.split()[1]
        if clause in seen or len(seen) >= 3:
            continue
        seen.add(clause)
        text = _program_of(l)
        full = byid.get((ch, text.split()[1]))
        small = text
        try:
            # the FAIL line carries the stated program only; the full SOLVE text (with the constructed optimum) is needed to replay
            rc, out = vlib.sh(cmd_of(ch) + " | grep -F %s | grep '^SOLVE' | head -1" % shlex.quote(" ".join(text.split()[:3]) + " "), timeout=3000)
            full = out.strip().split(" = ")[0] if out.strip() else text
            small = _shrink(exe, drv, full, "FAIL " + clause)
        except Exception as ex:  # shrinking is best effort
            small = full or text
        r.violation("impl-%s" % clause, {"kind": "direct property check failed on the implementation", "clause": clause,
                                         "case": l[:3000], "program": small, "program_unshrunk": full or text,
                                         "replay_cmd": "%s replay %s" % (exe, shlex.quote(small))})
    prop = [(ch, l) for ch, l in mism if l.startswith("PROPFAIL") and not l.startswith("PROPFAIL reduce-")]
    rprop = [(ch, l) for ch, l in mism if l.startswith("PROPFAIL reduce-")]
    corr = [(ch, l) for ch, l in mism if l.startswith("MISMATCH")]

    def reduce_payload(ch, l):
        m = re.search(r"id=(\S+)", l)
        case = redbyid.get((ch, m.group(1)), "") if m else ""
        out = {"detail": l[:1500], "case": case[:4000]}
        if case:
            rp = case.split(" | ")
            hdr = dict(t.split("=", 1) for t in rp[0].split()[2:] if "=" in t)
            out.update({"A": rp[1], "b": rp[2], "cols": hdr.get("n"), "eigen_rank": rp[7], "reduced_A": rp[9], "reduced_b": rp[10],
                        "reduce": [hdr.get("n"), rp[1], rp[2]],
                        "replay_cmd": "%s reduce %s %s %s | %s" % (exe, hdr.get("n"), shlex.quote(rp[1]), shlex.quote(rp[2]), drv)})
        return out
    seenr = set()
    for ch, l in sorted(rprop, key=lambda t: len(redbyid.get((t[0], (re.search(r"id=(\S+)", t[1]) or [None, ""])[1]), "") or "x" * 9999)):
        what = l.split()[1]
        if what in seenr:
            continue
        seenr.add(what)
        pl = reduce_payload(ch, l)
        pl["kind"] = ("program::reduce does not preserve the solution set of the equality system A x = b (conclusion of "
                      "C04_reduce_same_solutions / C04_reduce_inconsistent_preserved evaluated on the implementation by exact elimination "
                      "over Q): hexadecimal doubles, rows separated by `;`")
        r.violation(what, pl)
    for i, (ch, failure, d) in enumerate(exact_fail[:3]):
        r.violation("exact-%d" % i, {"kind": "small integer program decided exactly: " + failure, "program": d["text"],
                                     "returned": {"status": d["status"], "x": d["x"], "fx": d["fx"], "u": d["u"], "v": d["v"]},
                                     "replay_cmd": "%s replay %s" % (exe, shlex.quote(d["text"]))})
    for i, (ch, l) in enumerate(prop[:2]):
        case = byid.get((ch, re.search(r"id=(\S+)", l).group(1)), "")
        r.violation("prop-%d" % i, {"kind": "feasibility clause violated (exact arithmetic, driver oracle)", "detail": l,
                                    "program": case.split(" = ")[0], "case": case[:4000]})
    seenk = set()
    for ch, l in corr:
        what = re.sub(r"\[\d+\]", "", l.split()[1])
        if what in seenk or len(seenk) >= 4:
            continue
        seenk.add(what)
        if what.startswith("reduce-"):
            pl = reduce_payload(ch, l)
            pl["kind"] = "model/implementation disagreement in program::reduce"
            pl["meaning"] = {"reduce-factorisation": "the factors printed next to program::reduce (Eigen fullPivLu of [A|b]^T, same call) are not a "
                                                     "full-pivoting LU factorisation: the hypothesis of the reduce theorems fails on this input",
                             }.get(what, "the library's reduced [A'|b'] is not what the proved model assembles from (P, L, U, rank) of Eigen's "
                                         "fullPivLu of [A|b]^T (U^T.block(0,0,rank,n) * L^T * P)")
            pl["broken_obligation"] = None if cres["ok"] else cres.get("broken")
            r.violation("corr-%s" % what, pl, no_input=not (impl_fail or exact_fail or prop or rprop))
            continue
        m = re.search(r"id=(\S+)", l)
        case = byid.get((ch, m.group(1)), "") if m else ""
        meaning = "the returned state is not what the proved model of update()/feasible()/done() gives on this input"
        if what == "u-positive":
            meaning = ("the invariant proved of the step-length model (C04_step_keeps_positive: with s0 < 1 every accepted step keeps the "
                       "multipliers strictly positive) fails on a returned state: u >= 0, the hypothesis of the gap theorems, is no longer "
                       "guaranteed by the iteration")
        r.violation("corr-%s" % what, {"kind": "model/implementation disagreement", "detail": l, "program": case.split(" = ")[0],
                                       "case": case[:4000], "meaning": meaning,
                                       "broken_obligation": None if cres["ok"] else cres.get("broken")},
                    no_input=not (impl_fail or exact_fail or prop or rprop))

    # ---- ITER stage: the Newton iteration observed through the values hook against the extracted iteration model ------------
    iter_counts = collections.Counter()
    iter_exits = collections.Counter()
    iter_amb = collections.Counter()
    iter_worst = 0.0
    iter_bad = []          # (chunk, line)
    iter_isolve = {}       # (chunk, id) -> (program text, par)
    iter_samples = []
    ichunks, icases = ITER_CHUNKS.get(tier, ITER_CHUNKS["quick"])
    icmd_of = lambda ch: "VERIF_SEED=%d %s iter %s %d %d" % (r.seed, exe, tier, icases, ch)
    for ch in range(ichunks if drv else 0):
        rc, out = vlib.sh([exe, "iter", tier, str(icases), str(ch)], timeout=3000, env={"VERIF_SEED": str(r.seed)})
        lines = [l for l in out.split("\n") if l]
        del out
        if rc != 0 or not any(l.startswith("DONE ") for l in lines):
            r.violation("iter-crash", {"kind": "implementation-crash / exception in the harness (ITER stage)", "exit": rc,
                                       "last_operations": [l[:1500] for l in lines if l.startswith("ISOLVE ")][-3:],
                                       "tail": "\n".join(lines[-6:])[-1500:], "replay_cmd": icmd_of(ch)}, fingerprint="crash")
        for l in lines:
            if l.startswith("FAIL "):
                iter_bad.append((ch, "PROPFAIL " + l[5:]))
        rc2, mout = vlib.sh([drv], input="\n".join(l for l in lines if l.startswith(("CONST ", "IPROG ", "ITER ", "IFINAL "))) + "\n", timeout=3000)
        got = False
        cm = []
        for l in mout.split("\n"):
            if l.startswith(("MISMATCH", "PROPFAIL")):
                cm.append(l)
            elif l.startswith("ITER-DONE"):
                got = True
                dd = _kv(l)
                for k in ITER_COUNTERS:
                    iter_counts[k] += int(dd.get(k, 0))
                iter_exits.update(_hist(dd.get("exits", "")))
                iter_amb.update(_hist(dd.get("ambiguous_kinds", "")))
                iter_worst = max(iter_worst, float(dd.get("worst_system_ratio", 0)))
        if rc2 != 0 or not got:
            r.violation("iter-driver", {"kind": "model driver failed (ITER stage)", "out": mout[-2000:], "replay_cmd": icmd_of(ch) + " | " + drv},
                        no_input=True)
        if cm:
            ids = set(m.group(1) for m in (re.search(r"id=(\d+)", x) for x in cm) if m)
            for l in lines:
                if l.startswith("ISOLVE ") and l.split(" ", 2)[1] in ids:
                    head, text = l.split(" :: ", 1)
                    iter_isolve[(ch, l.split(" ", 2)[1])] = (text, head.split("par=", 1)[1].strip())
        if not iter_samples:
            iter_samples = [l[:600] for l in lines if l.startswith("ITER ")][:2]
        iter_bad += [(ch, l) for l in cm]
        del lines
    iprop = [(ch, l) for ch, l in iter_bad if l.startswith("PROPFAIL")]
    icorr = [(ch, l) for ch, l in iter_bad if l.startswith("MISMATCH")]

    def iter_payload(ch, l):
        m = re.search(r"id=(\d+)(?:/(\w+))?", l)
        out = {"detail": l[:1500]}
        if m and (ch, m.group(1)) in iter_isolve:
            text, par = iter_isolve[(ch, m.group(1))]
            out.update({"program": text, "solver_parameters(s0,miu,alpha,beta,epsilon,epsilon0,max_iters,max_lsearch_iters)": par,
                        "pass": m.group(2), "iter": [text, par],
                        "replay_cmd": "%s iterreplay %s %s | %s" % (exe, shlex.quote(text), shlex.quote(par), drv)})
        else:
            out["replay_cmd"] = icmd_of(ch) + " | " + str(drv)
        return out
    seeni = set()
    for ch, l in iprop:
        what = l.split()[1]
        if what in seeni or len(seeni) >= 4:
            continue
        seeni.add(what)
        pl = iter_payload(ch, l)
        pl["kind"] = ("a proved property of the Newton iteration fails on the implementation's own numbers (one pass of the loop of "
                      "solve_with_inequality, hexadecimal doubles): " + what)
        r.violation(what, pl)
    seenc = set()
    for ch, l in icorr:
        what = re.sub(r"\[\d+\]", "", l.split()[1])
        if what in seenc or len(seenc) >= 4:
            continue
        seenc.add(what)
        pl = iter_payload(ch, l)
        pl["kind"] = "model/implementation disagreement in the Newton iteration (solve_with_inequality / program_t::update / program_t::solve)"
        pl["meaning"] = ("one pass of the loop, recomputed by the proved iteration model (C04_Iter_Defs.iter_core) on the implementation's own "
                         "numbers, gives a different " + what[5:] + "; decisions within rounding of their thresholds are not compared")
        pl["broken_obligation"] = None if cres["ok"] else cres.get("broken")
        r.violation("corr-%s" % what, pl, no_input=not (impl_fail or exact_fail or prop or rprop or iprop))

    # ---- REST stage: solve_without_inequality, make_strictly_feasible / make_x0 / the default start (C04_Rest_Defs) -----------
    rest_counts = collections.Counter()
    rest_status = collections.Counter()
    rest_kinds = collections.Counter()
    rest_exact = collections.Counter()
    rest_worst = 0.0
    rest_bad, rest_fail, rest_exact_fail = [], [], []
    rest_text = {}
    rest_samples = []
    rest_eval = 0
    rchunks, rcases = REST_CHUNKS.get(tier, REST_CHUNKS["quick"])
    rcmd_of = lambda ch: "VERIF_SEED=%d %s rest %s %d %d" % (r.seed, exe, tier, rcases, ch)
    rexact_budget = 400 if tier == "quick" else 4000
    for ch in range(rchunks if drv else 0):
        rc, out = vlib.sh([exe, "rest", tier, str(rcases), str(ch)], timeout=3000, env={"VERIF_SEED": str(r.seed)})
        lines = [l for l in out.split("\n") if l]
        del out
        if rc != 0 or not any(l.startswith("DONE ") for l in lines):
            r.violation("rest-crash", {"kind": "implementation-crash / exception in the harness (REST stage)", "exit": rc,
                                       "last_operations": [l[:1500] for l in lines if l.startswith(("SOLVE ", "MSF "))][-3:],
                                       "tail": "\n".join(lines[-6:])[-1500:], "replay_cmd": rcmd_of(ch)}, fingerprint="crash")
        for l in lines:
            if l.startswith("FAIL "):
                rest_fail.append((ch, l))
            elif l.startswith("CAND "):
                cands.append((ch, l))
            elif l.startswith("SOLVE "):
                rest_eval += 1
                st = l.split(" = ", 1)[1].split(" ", 1)[0]
                kind = l.split(" ", 3)[2].split("=", 1)[1].split("+")[0]
                rest_status["%s/status=%s" % (kind, st)] += 1
                rest_kinds[kind] += 1
                rest_text[(ch, l.split(" ", 2)[1])] = l.split(" = ")[0]
                if st == "1":
                    distinct.add(hash(l.split(" | ", 1)[1].split(" = ")[0]))
                if " kind=eq-" in l and rexact_budget > 0:
                    d = parse_solve(l)
                    if len(d["c"]) <= 4:
                        rexact_budget -= 1
                        verdict, failure = exact_oracle(d)
                        rest_exact["%s/status=%d" % (verdict, d["status"])] += 1
                        if failure:
                            rest_exact_fail.append((ch, failure, d))
            elif l.startswith("RPROG "):
                rest_eval += 1
                rest_text[(ch, l.split(" ", 2)[1])] = l.split(" :: ", 1)[1]
        rc2, mout = vlib.sh([drv], input="\n".join(l for l in lines if l.startswith(("CONST ", "SOLVE ", "REDUCE ", "MSF ", "MSTART "))) + "\n", timeout=3000)
        got = False
        for l in mout.split("\n"):
            if l.startswith(("MISMATCH", "PROPFAIL")):
                rest_bad.append((ch, l))
            elif l.startswith("GENBAD"):
                genbad.append((ch, l))
            elif l.startswith("REST-DONE"):
                got = True
                dd = _kv(l)
                for k in REST_COUNTERS:
                    rest_counts[k] += int(dd.get(k, 0))
                rest_worst = max(rest_worst, float(dd.get("eq_worst_residual_over_threshold", 0)))
            elif l.startswith("MODEL-DONE"):
                dd = _kv(l)
                checked += int(dd.get("checked", 0))
                for k in ("compared", "kkt_verified") + REDUCE_COUNTERS:
                    drv_counts[k] += int(dd.get(k, 0))
        if rc2 != 0 or not got:
            r.violation("rest-driver", {"kind": "model driver failed (REST stage)", "out": mout[-2000:], "replay_cmd": rcmd_of(ch) + " | " + drv},
                        no_input=True)
        if not rest_samples:
            rest_samples = [l[:500] for l in lines if l.startswith("MSF ")][:1] + [l[:300] for l in lines if l.startswith("MSTART ")][:1]
        del lines

    def rest_payload(ch, l):
        m = re.search(r"id=(\d+)", l)
        out = {"detail": l[:1500]}
        text = rest_text.get((ch, m.group(1))) if m else None
        if text:
            out.update({"program": text, "rest": text, "replay_cmd": "%s restreplay %s | %s" % (exe, shlex.quote(text), drv)})
        else:
            out["replay_cmd"] = rcmd_of(ch) + " | " + str(drv)
        return out
    seenf = set()
    for ch, l in rest_fail:
        clause = l.split()[1]
        if clause in seenf or len(seenf) >= 3:
            continue
        seenf.add(clause)
        pl = rest_payload(ch, l)
        pl.update({"kind": "direct property check failed on the implementation (REST stage: program without inequalities / default start)",
                   "clause": clause, "case": l[:3000]})
        r.violation("rest-impl-%s" % clause, pl)
    for i, (ch, failure, d) in enumerate(rest_exact_fail[:3]):
        r.violation("rest-exact-%d" % i, {"kind": "equality-only program decided exactly: " + failure, "program": d["text"], "rest": d["text"],
                                          "returned": {"status": d["status"], "x": d["x"], "fx": d["fx"], "v": d["v"]},
                                          "replay_cmd": "%s restreplay %s" % (exe, shlex.quote(d["text"]))})
    rprop2 = [(ch, l) for ch, l in rest_bad if l.startswith("PROPFAIL")]
    rcorr2 = [(ch, l) for ch, l in rest_bad if l.startswith("MISMATCH")]
    seenp = set()
    for ch, l in rprop2:
        what = l.split()[1]
        if what in seenp or len(seenp) >= 4:
            continue
        seenp.add(what)
        pl = rest_payload(ch, l)
        pl["kind"] = ("a proved property of solve_without_inequality / make_strictly_feasible / the default start fails on the implementation's own "
                      "numbers (independent exact code in the driver): " + what)
        r.violation(what, pl)
    seenm = set()
    for ch, l in rcorr2:
        what = re.sub(r"\[\d+\]", "", l.split()[1])
        if what in seenm or len(seenm) >= 4:
            continue
        seenm.add(what)
        pl = rest_payload(ch, l)
        pl["kind"] = "model/implementation disagreement (solve_without_inequality / make_strictly_feasible / make_x0)"
        pl["meaning"] = {"eq-status": "the status of solve_without_inequality is not what the proved model (C04_Rest_Defs.eq_solve: translated status "
                                      "expression on `valid` and Eigen's isApprox of the KKT system [[Q, A'],[A, 0]] (x, v) = (-c, b)) gives on the returned (x, v)",
                         "msf-result": "make_strictly_feasible does not return what the model's trial loop returns on the candidates recomputed with the "
                                       "same Eigen calls (least-squares points for the distances 1, 1/0.3, 0.3, ...)",
                         "make-x0": "the starting point handed to solve_with_inequality (ev_program_start) is not make_x0 of the model: the returned "
                                    "candidate, or the zero vector when make_strictly_feasible returns nothing"}.get(what, "see detail")
        pl["broken_obligation"] = None if cres["ok"] else cres.get("broken")
        r.violation("corr-%s" % what, pl, no_input=not (impl_fail or exact_fail or prop or rprop or iprop or rest_fail or rest_exact_fail or rprop2))

    for ch, l in genbad[:1]:
        r.violation("generator", {"kind": "generator defect: constructed optimum is not an exact KKT point (defect of the check)",
                                  "detail": l, "case": byid.get((ch, re.search(r"id=(\S+)", l).group(1)), "")[:4000]}, no_input=True)
    # defect candidates of the unchanged code (not gating unless listed in known_findings.json; see notes/C04.md)
    candidates = []
    for fp, kind in ((KF_STALE, "the reported objective (and eta/residuals) are those of the last trial point of a failed stage-2 line "
                                "search while m_x is the previous iterate; visible against the property's relative tolerance only when "
                                "every term of the objective vanishes at the optimum"),
                     (KF_SCALE, "equality-only program (solve_without_inequality): `converged` with an equality violated beyond 1e-6 (1 + |b|_inf) because "
                                "the rows are normalised by |A|_F >> 1 + |b|_inf and the KKT system is accepted on a relative residual (isApprox); the "
                                "deviation is below 2^-44 of dA (1 + |x|_1 + |v|_1), i.e. what a double-precision solve of the normalised system leaves"),
                     (KF_HUGE, "`converged` is reported at a point of astronomically large norm (degenerate program whose optimal "
                               "face is unbounded): the residual tests pass in double arithmetic, the true constraint deviation exceeds "
                               "the property's absolute tolerance but is below 2^-44 of the row's own terms")):
        mine = [l for _, l in cands if l.startswith("CAND " + fp)]
        if not mine:
            continue
        payload = {"kind": kind, "fingerprint": fp, "cases": [l[:2500] for l in sorted(mine, key=len)[:3]], "count": len(mine)}
        if any(f.get("fingerprint") == fp for f in r.kf):
            r.violation(fp, payload, fingerprint=fp)
        else:
            candidates.append(payload)

    vlib.handle_coq_failure(r, cres)
    vlib.proof_coverage(r, cres, "make -C coq theories/Properties_C04.vo && coqc theories/Properties_C04.v (Print Assumptions)",
                        ["tools/translate.py (5 decision kernels of src/program/solver.cpp, instantiated at an order embedding Q -> Z; "
                         "9 step-length kernels instantiated at numerators over a common denominator, the quotient -u(i)/du(i) is an atom "
                         "pinned by its text; 12 integer kernels of src/program/util.cpp: early-return test, inner dimension, block "
                         "arguments, stacked width, split column)",
                         "extraction: ExtrOcamlBasic + ExtrOcamlZBigInt (Z/positive -> Zarith); Z.gcd -> Big_int_Z.gcd_big_int (only C04_Iter_Defs.qnorm)",
                         "14 iteration kernels (guards of update, loop starts/conditions/exhaustion tests, stage-1/stage-2/revert/exit-5 tests; the "
                         "stage-2 bound `(1.0 - alpha * s) * r0` and the trial point are atoms pinned by their text) + 5 text pins; the values hook "
                         "ev_program_start / ev_program_iter of /repo (layout checked per event); the LDLT solve as an oracle answer validated per pass "
                         "(required to solve the model's system when the matrix is regular by an exact LDL' over Q, counted otherwise)",
                         "Eigen's fullPivLu as an oracle: the factors printed by the harness (same call as util.cpp) are checked to be a "
                         "factorisation on every system (lu_valid_b exactly / 1e-12); the matrix product of the assembly is modelled entry by "
                         "entry (the order of the floating-point summation is not)",
                         "the reduced system of the SOLVE lines is still the library's own output (compared with the model on the REDUCE "
                         "lines of the same programs: every program with a restated/contradicting equality row and 1 in 8 of the others)",
                         "norm divisors computed by the harness with the same Eigen calls, checked against exact squares (1e-12)",
                         "REST stage: 7 kernels + 6 text pins (solve_without_inequality status, Eigen's isApprox read from /usr/include/eigen3/Eigen/src/Core/Fuzzy.h, "
                         "make_strictly_feasible acceptance test and loop, make_x0, the dispatch of solve()); the harness' reconstruction of the program as solved "
                         "for the equality-only path (library reduce + same norms; no hook there) and its mirror of the trial loop of make_strictly_feasible "
                         "(same Eigen calls; answers validated against the normal equations, distances bit-exact)",
                         "ocaml/c04_driver.ml, harness/c04_program.cpp, exact rational oracle in tools/checks/c04.py (python fractions)"])
    cov = r.coverage
    cov["evaluations"] = evaluations
    cov["correspondence_lines_checked"] = checked
    cov["distinct_nontrivial"] = len(distinct)
    cov["rule"] = ("one evaluation = one call of solver_t::solve on a generated program; non-trivial = distinct program text on which the "
                   "solver reported `converged` (the property's antecedent), so that every clause of the property was evaluated on it")
    cov["status_histogram"] = {{"0": "max_iters", "1": "converged", "2": "failed", "3": "unfeasible", "4": "unbounded"}.get(k, k): v
                               for k, v in status_hist.items()}
    cov["totals"] = dict(totals)
    for k in hists:
        cov[k + "_histogram"] = dict(hists[k])
    cov.update(worst)
    cov["model_comparisons"] = dict(drv_counts)
    for k in REDUCE_COUNTERS:
        cov[k] = drv_counts.get(k, 0)
    cov["reduce_rank_histogram"] = dict(reduce_ranks)
    cov["reduce_kind_histogram"] = dict(reduce_kinds)
    cov["returned_states_u_checked"] = drv_counts.get("returned_states_u_checked", 0)
    cov["exact_decisions"] = dict(exact_verdicts)
    cov["exact_oracle_selftest"] = dict(selftest)
    cov["iteration_model"] = dict(iter_counts)
    cov["iteration_exit_histogram"] = {{"0": "continue", "1": "unstable system", "2": "stage 1 exhausted", "3": "stage 2 exhausted",
                                        "4": "non-finite", "5": "precise convergence"}.get(k, k): v for k, v in iter_exits.items()}
    cov["iteration_ambiguous_decisions"] = dict(iter_amb)
    cov["iteration_worst_system_residual_singular_block"] = iter_worst
    cov["iteration_samples"] = iter_samples
    cov["rest_model"] = dict(rest_counts)
    cov["rest_status_by_kind"] = dict(rest_status)
    cov["rest_exact_decisions"] = dict(rest_exact)
    cov["rest_worst_accepted_kkt_residual_over_isapprox_threshold"] = rest_worst
    sk, sr = rest_counts.get("strictly_feasible_known", 0), rest_counts.get("strictly_feasible_known_rejected", 0)
    cov["default_start_strictly_feasible_programs_reported_unfeasible_without_iteration"] = {
        "programs_with_a_known_strictly_feasible_point": sk, "make_strictly_feasible_found_nothing": rest_counts.get("strictly_feasible_known_msf_nothing", 0),
        "reported_unfeasible_before_the_first_iteration": sr, "fraction": (float(sr) / sk) if sk else None}
    cov["rest_samples"] = rest_samples
    cov["ldlt_lu_ok"] = {"passes_checked": iter_counts.get("lu_ok_checked", 0), "passes_violating_lu_ok": iter_counts.get("lu_ok_violations", 0),
                         "solves_converged_after_a_violating_pass": iter_counts.get("converged_after_lu_ok_violation", 0),
                         "converged_final_states_feasibility_checked": iter_counts.get("converged_finals_checked", 0)}
    evaluations += rest_eval
    cov["evaluations"] = evaluations
    cov["distinct_nontrivial"] = len(distinct)
    cov["mismatches"] = len(corr) + len(icorr) + len(rcorr2)
    cov["impl_direct_failures"] = len(impl_fail) + len(exact_fail) + len(prop) + len(rprop) + len(iprop) + len(rest_fail) + len(rest_exact_fail) + len(rprop2)
    cov["defect_candidates"] = candidates
    cov["samples"] = samples
    cov["unproved_clauses_searched"] = [
        "the Newton iteration / line search actually reaches a state that passes done() (convergence itself; not claimed by the property)",
        "the LDLT answer (dx, dv) solves the reduced KKT system (hypothesis of C04_iter_elimination / _contracts): checked per pass of the ITER "
        "stage; it fails when Q - hessvar is singular (Eigen's LDLT zero pivot, info() ignored: defect candidate in notes/C04.md)",
        "floating-point evaluation of update / hessvar / du / the trial points agrees with the exact iteration model (1e-11 of the summed "
        "magnitudes; stage counters and exit kinds exactly unless within rounding of a threshold)",
        "floating-point evaluation of update()/feasible()/done() agrees with the exact model (compared per state within 1e-9 of the summed terms + 1e-12)",
        "Eigen's fullPivLu returns a factorisation P M^T Q = L U with the numerical rank equal to the exact rank of [A|b] (hypothesis "
        "lu_valid of the reduce theorems): checked on every REDUCE system; the exact rank is recomputed by elimination over Q",
        "floating-point evaluation of U^T.block * L^T * P agrees with the exact assembly (1e-9 of the summed terms) and leaves the row "
        "space of [A|b] unchanged (exact elimination over Q, 1e-9)",
        "the step-length kernel in floating point: fl(-u/du), fl(s0*smax), fl(u + s*du) keep u > 0 (theorem over Q; observed as u > 0 on "
        "every returned state of the inequality path, `returned_states_u_checked`); the loop structure `for (i = 0; i < size; ++i)` is "
        "modelled with the translated start/condition and a hand-written increment",
        "`converged` is never reported for an unbounded program (model theorem covers infeasibility only): constructed rays + exact decision",
        "reported objective agrees with the objective at x within 1e-6 of its terms (stale trial-point objective: see defect_candidates)",
        "lower side of |f(x)-f*| with the *returned* multipliers in the bound (theorem C04_gap_lower uses the multipliers of the optimum)",
        "solve_without_inequality: that the LDLT answer solves the KKT system (when it does, x is a global minimiser: C04_eq_kkt_sufficient) is "
        "searched through the optimality-gap oracle on KKT-constructed programs and the exact decision of programs with n <= 4; floating-point "
        "evaluation of lmat*lsol and of isApprox (decision re-taken exactly, ambiguous within 4 rounding units + 1e-6 of the threshold)",
        "make_strictly_feasible: that Eigen's LDLT of G'G solves the normal equations (checked per trial, required when G'G is regular); "
        "floating-point evaluation of the acceptance test max(Gx-h) < 0 (exact sign unless within 2^-44 of the row's terms: ambiguous); "
        "the distances ym *= 0.3, yM /= 0.3 in doubles (bit-exact mirror)",
        "that the LDLT answer of a Newton pass satisfies lu_ok (7-11 % of the passes do not; the safety theorems do not need it, the "
        "contraction theorems do: C04_ldlt_contraction_without_lu_ok_refuted)"]
    cov["excluded_inputs"] = ["states returned with status unfeasible/unbounded: objective/residual fields are not compared "
                              "(they may belong to the last trial point; counted as stale_states), the decision is still re-taken"]
    r.assumptions = ["the returned multipliers u are non-negative (now a theorem of the step-length model over Q for s0 < 1, C04_step_keeps_positive; "
                     "in floating point checked on every returned state) and Q is symmetric positive semidefinite (hypotheses of the gap "
                     "theorems; Q = D'D by construction in every generated program)",
                     "solver::s0 < 1 (default 0.999; the registered range allows s0 = 1, for which only u >= 0 is provable: "
                     "C04_step_strict_with_s0_one_refuted)",
                     "doubles cross the boundary exactly (hex floats -> dyadic rationals)",
                     "tolerances are exactly those of the property text; the correspondence tolerance is 1e-9 of the summed magnitudes + 1e-12"]
    return r.finish("proof")
