"""C05 -- penalty / augmented-Lagrangian functions match their definitions; `converged` of the augmented-Lagrangian
solver implies feasibility (proof over Q + translated decision kernels + differential correspondence + direct oracles)."""
import collections
import json
import os
import shlex
import vlib


MANIFEST = dict(
    text=("Coq theorems over exact rationals about an executable model of the 11 constraint kinds (value/gradient as "
          "constraint.cpp computes them), of the three do_vgrad loops of penalty.cpp (same branches `eq || fc > 0`, "
          "`eq || fc + mu/ro > 0`, same multiplier counters), of the penalty objects' convex flag, of "
          "solver_state_t::update_constraints and of the outer loop of the augmented-Lagrangian solver + solver_t::done "
          "as a step function over arbitrary inner-solver results: closed-form definitions (value and every gradient "
          "component), exact second-order expansion of every non-functional constraint kind (gradient = derivative, "
          "quadratic: symmetric P), the penalty terms' coefficients are their derivatives / sub-gradients, coincidence "
          "with the objective at feasible points with zero multipliers (the linear penalty's gradient only up to the "
          "sub-gradient it picks at h = 0: refuted as an equality), sub-gradient inequality whenever the convex flag is "
          "set, stored ceq/cineq are the constraint values at the stored point whatever the arrays held before, and "
          "`converged` => every |h_j| <= eps and max(g_i, 0) <= eps at the returned point for every oracle history and every "
          "rounding of the loop's arithmetic (invariant viol(best) <= old_criterion). The "
          "boolean/integer decisions of the model are regenerated from the source on every run; the extracted model is "
          "compared with the real library: bit-exactly on integer-valued problems and for the whole outer loop observed "
          "through the NANO_VERIF hooks, within 1e-11 of the summed magnitudes on random doubles; independent long-double "
          "oracles in the harness produce the concrete failing input. "
          "EXTENSION (C05_Outer): the complete outer loop of the augmented-Lagrangian solver is inside the model -- make_ro1 "
          "with its clamps, ::nano::converged, the multiplier updates clamp(lambda + ro h), clamp(max(0, miu + ro g)), the ro "
          "rule, the multipliers stored in the best state; nothing but the inner solver's answers is an input (refinement "
          "theorem onto the loop above). Proved for every history: 0 <= miu <= miu_max, lambda within its box (or still the "
          "zero start), sizes, for every rounding; ro_1 in [1e-6, 10] and ro = ro_1 gamma^k > 0; the first-order identity "
          "grad L_A(x; ro, lambda, miu) = grad L(x; lambda + ro h, max(0, miu + ro g)) for every x (L accumulated as "
          "update_constraints does); the KKT theorem of a `converged` run (stationarity transfer, primal feasibility, miu+ >= 0, "
          "approximate complementarity |max(g_i, -miu_i/ro)| <= eps from the criterion of the iteration that produced the best "
          "state); the next multipliers are the projections of the un-clamped ones onto the boxes (what the clamps cost). "
          "Penalty solvers (solver_penalty_t::minimize, linear + quadratic): outer loop modelled over the inner "
          "solver's answers and the ORIGINAL function's evaluation; proved: the returned state is the original function's "
          "state at the start or at a usable inner solution, done()'s status facts, penalty of the k-th solve = penalty0 eta^k "
          "also across the `continue` branch, at most max_outer_iters solves; exactness of the linear penalty and "
          "Fiacco-McCormick monotonicity of the quadratic penalty over Q; `converged` of a penalty solver does NOT imply "
          "feasibility (refuted with a witness; reproduced on the real solvers, counted per run). Tie: the driver recomputes "
          "ro_1 (exact when clamped, 1e-12 otherwise), every iteration's lambda / miu (read from the penalty object the inner "
          "solver minimises) and the dx flag bit-exactly, the penalty solvers' penalty sequence / decisions / returned state; "
          "direct oracles: multiplier ranges in every event, gradient identity on the library's own gradient, KKT residuals of "
          "converged runs recomputed from the problem, penalty sequence and done() decisions of the penalty solvers."),
    note=("Coq kernel; translator (13 decision kernels of penalty.cpp, constraint.cpp, augmented.cpp, solver.cpp); extraction "
          "with ExtrOcamlZBigInt (Zarith); harness against the library built from the working tree (hooks ev_al_outer, "
          "ev_solver_done, ev_solver_exit) + OCaml driver; float rounding of the penalty values is outside the theorems "
          "(searched with a tolerance); inner solver and the eigenvalue test nano::convex(P) are oracles. Extension: 4 more kernels "
          "(solver/penalty.cpp loop bound, `!iter_ok` skip, converged expression; state.cpp ::nano::converged); the harness reads solver_state_t::m_meq/m_mineq "
          "through an explicit-instantiation accessor and augmented_lagrangian_function_t's reference members m_lambda/m_miu "
          "through the object layout (static_assert on the size + cross-check with the multipliers stored in the best state); "
          "the penalty solvers' loop is observed through done() events + penalty_function_t::penalty(); make_ro1's dot "
          "products and the inner precision (more_precise) are not tied bit-exactly."),
    technique="Coq proof over Q of a translated+extracted model, differential correspondence (bit-exact where the double "
              "arithmetic is exact), direct property oracles on the implementation",
    design="DESIGN.md section 2, C05")

VARIANTS = ["rel"]

# (chunks, PEN cases per chunk, AL runs per chunk); the chunk id perturbs the seed
CHUNKS = {"quick": (3, 2500, 400, 300), "thorough": (40, 4000, 800, 600)}
OPS = ("PEN ", "STATE ", "AL ", "ALIT ", "ALEND ", "ALO ", "ALOIT ", "ALOEND ", "PS ", "PSIT ", "PSEND ")
STATUS = {"0": "max_iters", "1": "converged", "2": "failed", "3": "unfeasible", "4": "unbounded"}


def _build_driver():
    """the extracted model uses Zarith (ExtrOcamlZBigInt): private variant of vlib.build_ocaml without zutil.ml.inc"""
    odir = os.path.join(vlib.WORK, "ocaml")
    os.makedirs(odir, exist_ok=True)
    exe = os.path.join(odir, "c05_driver")
    model = os.path.join(vlib.COQ, "extracted", "c05_model.ml")
    driver = os.path.join(vlib.ROOT, "ocaml", "c05_driver.ml")
    with vlib.Lock("ocaml-c05_driver"):
        srcs = [model, model + "i", driver]
        for s in srcs:
            if not os.path.exists(s):
                raise vlib.CheckError("missing %s (extraction failed?)" % s)
        if os.path.exists(exe) and all(os.path.getmtime(s) <= os.path.getmtime(exe) for s in srcs):
            return exe
        bd = os.path.join(odir, "c05_driver.build")
        vlib.sh("rm -rf %s && mkdir -p %s" % (shlex.quote(bd), shlex.quote(bd)))
        for s in (model, model + "i"):
            vlib.sh("cp %s %s/" % (shlex.quote(s), shlex.quote(bd)))
        with open(os.path.join(bd, "driver_main.ml"), "w") as f:
            f.write("open C05_model\n# 1 \"c05_driver.ml\"\n")
            f.write(open(driver).read())
        cmd = "ocamlfind ocamlopt -w -a -package zarith -linkpkg c05_model.mli c05_model.ml driver_main.ml -o %s" % shlex.quote(exe)
        rc, out = vlib.sh(cmd, cwd=bd, timeout=600)
        if rc != 0:
            raise vlib.CheckError("ocaml build of c05_driver failed:\n%s" % out[-3000:])
    return exe


def setup():
    vlib.build_harness("c05_penalty", "rel", need_lib=True)
    try:
        _build_driver()
    except vlib.CheckError:
        pass  # extraction not built yet: run() builds it after coq_check


def _case_cmd(seed, exe, cid):
    """p<chunk>.<index>[.suffix] / a<chunk>.<index> -> command re-running that single case"""
    what = "pen" if cid.startswith("p") else ("ps" if cid.startswith("s") else "al")
    parts = cid[1:].split(".")
    return "VERIF_SEED=%d %s case %s %s %s" % (seed, exe, what, parts[1], parts[0])


def _replay(path):
    d = json.load(open(path))
    cmd = d.get("replay_cmd")
    if not cmd:
        print("nothing to replay in %s" % path)
        return 0
    vlib.build_harness("c05_penalty", "rel", need_lib=True)
    drv = _build_driver()
    rc, out = vlib.sh(cmd, timeout=3000)
    rc2, mout = vlib.sh([drv], input="\n".join(l for l in out.split("\n") if l.startswith(("PEN ", "STATE ", "AL"))) + "\n")
    bad = [l for l in out.split("\n") if l.startswith("FAIL ")] + [l for l in mout.split("\n") if l.startswith(("MISMATCH", "PROPFAIL"))]
    print("\n".join(l[:1500] for l in bad[:10]) or "replay: no failure")
    if bad:
        print("VIOLATION property=C05 replay=%s" % path)
    return 1 if bad else 0


def run(tier, replay=None):
    if replay:
        return _replay(replay)
    r = vlib.Run("C05", tier)
    cres = vlib.coq_check("C05", targets=["theories/Extract_C05.vo", "theories/Properties_C05.vo"])
    exe = vlib.build_harness("c05_penalty", "rel", need_lib=True)
    nchunks, npen, nal, nps = CHUNKS.get(tier, CHUNKS["quick"])
    drv = None
    try:
        drv = _build_driver()
    except (vlib.CheckError, OSError):
        if cres["ok"]:
            raise
    impl_fail, mism = [], []
    ops = collections.Counter()
    counters = collections.Counter()
    distinct = set()
    samples = []
    evaluations = checked = 0
    model_stats = collections.Counter()
    byid = {}
    for ch in range(nchunks):
        cmd = "VERIF_SEED=%d %s %s %d %d %d %d" % (r.seed, exe, tier, npen, nal, ch, nps)
        rc, out = vlib.sh([exe, tier, str(npen), str(nal), str(ch), str(nps)], timeout=3000, env={"VERIF_SEED": str(r.seed)})
        lines = [l for l in out.split("\n") if l]
        del out
        done = [l for l in lines if l.startswith("DONE ")]
        oplines = [l for l in lines if l.startswith(OPS)]
        for l in lines:
            op = l.split(" ", 1)[0]
            if op in ("PEN", "STATE", "AL", "ALIT", "ALEND", "FAIL", "ALO", "ALOIT", "ALOEND", "PS", "PSIT", "PSEND"):
                ops[op] += 1
        impl_fail += [l for l in lines if l.startswith("FAIL ")]
        evaluations += sum(1 for l in oplines if l.startswith(("PEN ", "STATE ", "AL ", "PS ")))
        if rc != 0 or not done:
            r.violation("crash", {"kind": "implementation-crash / exception in the harness", "exit": rc, "mode": tier,
                                  "last_operations": [l[:800] for l in oplines][-4:],
                                  "tail": "\n".join(lines[-8:])[-1500:], "replay_cmd": cmd}, fingerprint="crash")
        else:
            for tok in done[0].split()[1:]:
                if "=" in tok:
                    k, v = tok.rsplit("=", 1)
                    try:
                        counters[k] += int(v)
                    except ValueError:
                        pass
        for l in oplines:
            if l.startswith("PEN "):
                f = l.split(" | ")
                if f[5].strip() != "-":   # at least one constraint
                    distinct.add(hash(l.split(" = ")[0].split(" ", 2)[2]))
            elif l.startswith(("ALEND ", "PSEND ")) and not l.rstrip().endswith("| 0"):
                distinct.add(hash(l.split(" ", 2)[2]))
        if not samples:
            samples = ([l[:700] for l in lines if l.startswith("PEN ") and " X " in l[:24] and 150 < len(l) < 700][:2] +
                       [l[:700] for l in lines if l.startswith("PEN ") and " T " in l[:24] and len(l) < 900][:1] +
                       [l[:500] for l in lines if l.startswith("STATE ") and len(l) < 500][:1] +
                       [l[:600] for l in lines if l.startswith("AL ") and len(l) < 600][:1] +
                       [l[:500] for l in lines if l.startswith("ALIT ") and len(l) < 500][:2] +
                       [l[:400] for l in lines if l.startswith("ALEND ") and len(l) < 400][:1] +
                       [l[:300] for l in lines if l.startswith("ALOIT ") and len(l) < 300 and "p" in l.split("|", 1)[1]][:1] +
                       [l[:600] for l in lines if l.startswith("PS ") and len(l) < 600][:1] +
                       [l[:400] for l in lines if l.startswith("PSIT ") and len(l) < 400][:2]) or [l[:400] for l in lines[:3]]
        if drv:
            feed = "\n".join(oplines) + "\n"
            rc2, mout = vlib.sh([drv], input=feed, timeout=3000)
            del feed
            got = 0
            cm = []
            for l in mout.split("\n"):
                if l.startswith(("MISMATCH", "PROPFAIL")):
                    cm.append(l)
                elif l.startswith("MODEL-DONE"):
                    for tok in l.split()[1:]:
                        k, v = tok.split("=")
                        model_stats[k] += int(v)
                    got = int(l.split("checked=")[1].split()[0])
            checked += got
            if rc2 != 0 or (not got and oplines):
                r.violation("driver", {"kind": "model driver failed", "out": mout[-2000:], "replay_cmd": cmd + " | " + drv},
                            no_input=True)
            mism += cm
        del lines, oplines
    # direct property oracle on the implementation: one violation per clause (shortest case of the clause)
    seen = set()
    for l in impl_fail:
        clause = l.split(" ", 2)[1]
        if clause in seen or len(seen) >= 4:
            continue
        seen.add(clause)
        same = [x for x in impl_fail if x.split(" ", 2)[1] == clause]
        shortest = min(same, key=len)
        cid = shortest.split(" ", 3)[2]
        r.violation("impl-%s" % clause, {"kind": "direct property check failed on the implementation", "clause": clause,
                                         "case": shortest[:8000], "failures_of_this_clause": len(same),
                                         "replay_cmd": _case_cmd(r.seed, exe, cid)})
    kinds = set()
    for l in mism:
        tag, kind = l.split(" ", 2)[:2]
        if kind in kinds or len(kinds) >= 3:
            continue
        kinds.add(kind)
        same = [x for x in mism if x.split(" ", 2)[1] == kind]
        shortest = min(same, key=len)
        cid = shortest.split(" ", 3)[2]
        # the model of the penalty functions / of update_constraints *is* the defining formula (C05_defs_*,
        # C05_state_constraints): a value leaving it beyond the rounding tolerance on this input is a concrete failing
        # input. A deviation of the outer loop's bookkeeping alone (criterion/ro/...) is a broken tie unless the
        # property's conclusion (PROPFAIL / FAIL) fails as well.
        concrete = tag == "PROPFAIL" or kind.startswith(("linear-", "quadratic-", "augmented-", "state-", "convex-flag"))
        r.violation("corr-%s" % kind, {"kind": "model/implementation disagreement" if tag == "MISMATCH" else
                                       "property conclusion fails on implementation data",
                                       "what": kind, "case": shortest[:8000], "mismatches_of_this_kind": len(same),
                                       "replay_cmd": _case_cmd(r.seed, exe, cid)},
                    no_input=not concrete and not impl_fail)
    vlib.handle_coq_failure(r, cres)
    vlib.proof_coverage(r, cres, "make -C coq theories/Properties_C05.vo && coqc theories/Properties_C05.v (Print Assumptions)",
                        ["tools/translate.py (17 decision kernels of penalty.cpp / constraint.cpp / augmented.cpp / solver.cpp / "
                         "solver/penalty.cpp)",
                         "harness accessors: solver_state_t::m_meq/m_mineq (explicit template instantiation), "
                         "augmented_lagrangian_function_t::m_lambda/m_miu (object layout, size-checked, cross-checked against the "
                         "multipliers stored in the best state)",
                         "extraction: ExtrOcamlBasic + ExtrOcamlZBigInt (positive/Z mapped to Zarith big integers)",
                         "ocaml/c05_driver.ml (exact double->Q conversion, IEEE instantiation of the rounded operations, tolerances), "
                         "harness/c05_penalty.cpp, g++ -O2",
                         "NANO_VERIF hooks ev_al_outer / ev_solver_done / ev_solver_exit deliver the values the loop really used"])
    cov = r.coverage
    cov["evaluations"] = evaluations
    cov["correspondence_lines_checked"] = checked
    cov["distinct_nontrivial"] = len(distinct)
    cov["rule"] = ("PEN: random constrained functions (n 1..6; objective: integer/random quadratic or a registered benchmark "
                   "function; 0..8 constraints drawn from the 11 kinds, built around the evaluation point so that each value "
                   "is exactly 0 / negative / positive as chosen; penalty 2^k resp. log-uniform 1e-3..1e6; multipliers zero, "
                   "random or exactly at the boundary g + mu/ro = 0); mode X (55%): everything integer-valued, compared bit for "
                   "bit; STATE: construction / update with multipliers / update_if_better on the same function; AL: random convex "
                   "QPs/LPs via program::make_* + make_function, box/ball/quadratic/functional/mixed constraints on a convex "
                   "quadratic, 5% infeasible, eps log-uniform 1e-10..1e-4, 25% randomised tau/gamma/miu_max/lambda range/"
                   "max_outer_iters/epsilon0, 20% small max_evals, x0 random / feasible reference / far away; everything derived "
                   "from VERIF_SEED. PS (extension): the same problem generator (+ 20% objectives with a restricted domain, NaN "
                   "outside a box, so that inner solves return invalid states: `continue` branch), linear (1/3) or quadratic "
                   "(2/3) penalty solver, eps log-uniform 1e-9..1e-4, 1/3 randomised eta / penalty0 / epsilonK / max_outer_iters / "
                   "epsilon0, small max_evals for non-smooth problems. distinct_nontrivial = distinct PEN inputs with at least one constraint + distinct solver "
                   "runs with at least one outer iteration")
    cov["op_histogram"] = dict(ops)
    cov["chunks"] = nchunks
    cov["constraint_kind_histogram"] = {k[5:]: v for k, v in counters.items() if k.startswith("kind:")}
    cov["constraints_per_function_histogram"] = {k[2:]: v for k, v in counters.items() if k.startswith("m:")}
    cov["mode_histogram"] = {k[5:]: v for k, v in counters.items() if k.startswith("mode:")}
    cov["objective_histogram"] = {k[10:]: v for k, v in counters.items() if k.startswith("objective:")}
    cov["al_family_histogram"] = {k[10:]: v for k, v in counters.items() if k.startswith("al-family:")}
    cov["al_status_histogram"] = {STATUS.get(k[10:], k[10:]): v for k, v in counters.items() if k.startswith("al-status:")}
    cov["ps_family_histogram"] = {k[10:]: v for k, v in counters.items() if k.startswith("ps-family:")}
    cov["ps_solver_histogram"] = {k[10:]: v for k, v in counters.items() if k.startswith("ps-solver:")}
    cov["ps_status_histogram"] = {STATUS.get(k[10:], k[10:]): v for k, v in counters.items() if k.startswith("ps-status:")}
    # NOT a violation (the property speaks about the augmented-Lagrangian solver only): penalty solvers that report
    # `converged` with a constraint violation above epsilon
    cov["ps_converged_infeasible"] = {k[24:]: v for k, v in counters.items() if k.startswith("ps-converged-infeasible:")}
    for k in ("feasible", "feasible-zero-mult", "al-boundary", "al-converged", "al-outer-iterations", "al-inner-done-events",
              "convex-flag-checked", "alo-events", "alo-gradient-identity-checked", "alo-next-multipliers-checked", "alo-kkt-checked", "ps-converged",
              "ps-outer-iterations", "ps-skipped-iterations", "ps-inner-done-events",
              "ps-converged-infeasible-on-feasible-problem"):
        cov[k.replace("-", "_")] = counters.get(k, 0)
    cov["model_stats"] = dict(model_stats)
    cov["mismatches"] = len(mism)
    cov["impl_direct_failures"] = len(impl_fail)
    cov["samples"] = samples
    cov["unproved_clauses_searched"] = [
        "double-precision values/gradients of the three penalty objects vs the exact formulas: bit-exact on integer-valued "
        "inputs, |diff| <= 1e-11 x (sum of the magnitudes of the summed terms) on random doubles (the theorems are over Q)",
        "gradient = derivative for functional constraints and for the objective (oracles of the model)",
        "the eigenvalue test nano::convex(P) and function_t::convex() really mean convexity (hypotheses of C05_convex_flag)",
        "solver_state_t::update_if_better keeps ceq/cineq in step with the stored point (implementation-side check)",
        "value-only evaluation (no gradient buffer) returns the same value (implementation-side check)",
        "make_function(program) registers exactly the program's constraints (implementation-side check)",
        "extension: make_ro1's Eigen dot products (1e-12 relative unless clamped), floating-point KKT residuals of converged "
        "runs (1e-9 of the summed magnitudes; the theorems are over Q), stationarity bound with the RETURNED (old) "
        "multipliers kkt5 <= |grad L_A|_inf + ro criterion sum|grad c| (direct oracle only)",
        "extension: the inner solver's precision schedule (more_precise) of both outer loops is modelled / proved but not "
        "observable without a hook"]
    cov["not_reached"] = ["non-finite values inside the outer loop (the exact-rational model skips such runs; counted in "
                          "model_stats.skipped_nonfinite)", "penalty solvers: status `failed` of the outer loop (needs a usable inner solution at which the "
                          "ORIGINAL function is not finite: impossible for a penalty function that adds to it)",
                          "quadratic constraints with a non-symmetric P (the library's gradient P x + q is then not the derivative: "
                          "see notes/C05.md)"]
    r.assumptions = ["no FMA contraction / x87 excess precision in the library build (x86-64 SSE2, as built here)",
                     "NDEBUG build: the size assertions of the penalty objects are respected by the harness",
                     "quadratic constraints carry a symmetric P (as every caller in the library builds them)",
                     "finite values (no NaN/inf) inside the modelled part of the outer loop"]
    return r.finish("proof")
