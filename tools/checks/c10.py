"""C10 -- weak learners fit residuals optimally in their class and predict consistently
(proof over Q + translated integer kernels + differential correspondence + direct search on the implementation)."""
import collections
import json
import os
import re
import shlex
import vlib


MANIFEST = dict(
    text=("Coq theorems over exact rationals about an executable model of the weak-learner fits of src/wlearner/*.cpp with the "
          "RSS criterion: least-squares lemmas (mean minimises RSS, least squares through the origin, one-variable normal "
          "equations with Cauchy-Schwarz for the determinant, top-k gains), the sorted sweep with running moment accumulators "
          "equals prefix sums, and for stump / hinge / affine / dense table / k-best and discrete-step table the returned score "
          "is the RSS of a member of the hypothesis class and a lower bound of the brute-force RSS of EVERY member (all features, "
          "all mid-point thresholds, both hinge directions, all coefficient vectors, all tables on at most k keys; ties, missing "
          "values, several outputs, repeated samples included), independent of the per-thread feature chunks; consistency of "
          "predict / split / scale / merge (incl. the early break of wlearner::merge, std::lower_bound on the stored hashes and "
          "the node walk of the decision tree) and tree-of-depth-1 = stump for the learner model. The integer expressions of "
          "the model are regenerated from the source on every run; the extracted model is compared with the real library "
          "(scores within 1e-9 of the summed squares, groups and table look-ups exactly, merged lists structurally) on random "
          "small datasets with dyadic values; an independent long-double brute force and the consistency clauses are checked "
          "directly on the implementation for all 8 learners and 4 criteria. "
          "EXTENSION (C10_Ext_Defs / C10_Ext / C10_ExtCrit, stage `ext`): the general top-k statement of the k-best table for every k "
          "(the k-th partial sum of the gain sweep is a lower bound of the RSS of every table on at most k label sets -- exchange "
          "argument over the sorted gains -- and is attained by the stored table; the stored order is std::sort's lexicographic order "
          "of the (delta, hash) pairs); the k-split table as the source builds it (accumulator_t::cluster: greedy agglomerative "
          "merging of the closest mean outputs, NOT a contiguous split of sorted means): every merge keeps one valid group per label "
          "set and never lowers the RSS, so the RSS-criterion fit is the dense optimum; optimality for a fixed number of groups is "
          "refuted with a witness; decision trees of any depth: a checked well-formedness of the node table implies that every sample "
          "is dropped at the first missing feature on its path or reaches exactly one in-range leaf which split() reports and predict() "
          "adds, the fuel of the model is never exhausted, and a tree is the stump of its root composed with the walks from its "
          "children; AIC / AICc / BIC translated from stats.h (shape pinned) with strict monotonicity in the RSS for fixed k, n "
          "(the minimiser over a fixed-size class is the RSS minimiser) over the reals. Tie of the extension: every fitted k-best / "
          "k-split table and tree of every criterion is replayed by the extracted model (stored label sets, label -> group map, group "
          "means, tree_wf, breadth-first split and per-sample walk vs split()), the AIC/AICc/BIC scores are compared with the criterion "
          "of the model's exact RSS candidates; direct oracles: all subsets of k label sets, group means, own tree traversal on all "
          "samples, every pair = stump of the samples reaching it, long-double criteria. "
          "FOLLOW-UP of repo fix 2030fc5 (empty sample selections): C10_tree_bfs_is_walk -- for EVERY list of samples (empty list, single "
          "samples, lists leaving whole branches empty) the queue-based split of do_split (children queued even with an empty set) gives "
          "every listed sample the leaf of its own walk and nothing to the others; C10_tree_bfs_fuel (the queue empties within bfs_fuel "
          "for every well-formed table; the driver checks bfs_done of its runs); C10_tree_sublist (the group does not depend on the "
          "list). Every fitted learner of every criterion is also asked to predict and split the empty list, single samples, random "
          "strict subsets and lists that leave a group / branch empty (clause ext-sublist: rows bit-identical to the prediction on the "
          "fit list, groups identical, non-members unassigned; SUB lines replayed by the extracted group / tree_bfs); a crash prints "
          "the operation (learner + sample list) from a signal handler and becomes a crash replay. "
          "EXTENSION 3 (C10_TreeFit_Defs / C10_TreeFit, driver stage `treefit`): the greedy FIT of dtree_wlearner_t::do_fit is inside the "
          "model -- the work queue of (sample list, depth, parent entry), the stump (same criterion, argmin = feature, mid-point threshold, "
          "two tables; its score IS the proved-optimal stump_fit) fitted on the front list, the translated terminal test (list size vs "
          "min(10, ROWS * min_split / 100), depth), the link written into the parent's entry, leaf entries + tables, split entries with the "
          "children queued on cluster.indices(side) (increasing row indices WITHOUT repetitions), no_fit_score of ANY queued list failing "
          "the whole fit, score = sum of the terminal stump scores. Theorems for every dataset / list / residuals / parameters: "
          "C10_treefit_wf (every fitted node table satisfies tree_wf, so C10_tree_walk / C10_tree_bfs_is_walk apply without a checker), "
          "C10_treefit_greedy + C10_treefit_stump_optimal (every pair carries the optimal stump of the list recorded for it, children get "
          "exactly the samples of their side, every pair but the root has a parent entry, every recorded sample reaches its pair by the "
          "walk, leaf tables = mean residuals), C10_treefit_root (the root of any fitted tree is the stump fit of the whole list; terminal "
          "root = the stump), C10_treefit_score (score = sum over terminal pairs of the clamped RSS of the tree's own predictions on the "
          "recorded samples) with C10_treefit_score_omits_dropped_refuted (samples dropped at a split pair are not scored: predictions do "
          "not reproduce the score of a deeper tree), C10_treefit_terminates (fuel 2^max_depth suffices, at most 2^(max_depth+1) - 2 "
          "entries), C10_treefit_nofit, C10_treefit_kernels. Tie: the harness dumps the whole dataset and every real fit behind a "
          "one-thread pool (TFIT lines, also for no_fit_score); the extracted tree_fit must return the same node table (features, exact "
          "mid-point thresholds, links, table indices), leaf tables within 1e-9 of the summed residual magnitudes, no fit exactly when the "
          "library has none, and the score; a disagreement is excused only when a stump of the model's trace has a second candidate "
          "within 1e-12 (counted). Direct oracle ext-tree-fit (every pair re-fitted by the real stump learner) is kept."),
    note=("Coq kernel; translator (9 + 16 kernels of wlearner/util.cpp, table.cpp, dtree.cpp, stump.cpp, hinge.cpp, affine.cpp, "
          "core/stats.h, dataset/iterator.cpp; the AIC/AICc/BIC expressions are translated structurally with the logarithms as named "
          "inputs and read over the reals); the criterion theorems use the standard real-number axioms; the driver evaluates the "
          "criteria in OCaml floats (same libm) from the exact RSS, k-split comparisons are skipped when a merge step of the model is a "
          "(near-)tie (counted as ties_skipped); extraction "
          "with ExtrOcamlZBigInt (Zarith); harness against the library built from the working tree + OCaml driver; optimality is "
          "over exact arithmetic (the running-moment formula r2 - r1^2/x0 loses digits by cancellation: 1e-9 relative tolerance); "
          "dstep fits on a categorical feature without any selected value are excluded (out-of-bounds read in score_kbest, "
          "probed separately and reported in the evidence). Extension 3: 5 more kernels of dtree.cpp (30 in total); the trace of the "
          "model (sample list per pair) is ghost output the library does not expose; the converse of the reach clause (every sample whose "
          "walk visits a pair is recorded there) is searched by the driver, not proved; AICc nodes with n = k + 1 (infinite criterion) are "
          "modelled by the admissibility predicate the driver passes in; ties within 1e-12 are skipped (treefit_ties)."),
    technique="Coq proof over Q of a translated+extracted model, differential correspondence within rounding tolerance, "
              "independent brute-force and consistency oracles on the implementation",
    design="DESIGN.md section 2, C10")

VARIANTS = ["rel"]

CHUNKS = {"quick": (2, 1500), "thorough": (40, 2500)}   # (chunks, cases per chunk); the chunk id perturbs the seed
COUNTERS = ("cases", "fits", "nofits", "obs", "optimal_checks", "reproduce_checks", "consistency_checks", "dstep_excluded",
            "scale_checks", "merges", "merged_pairs", "depth1_checks", "thread_checks", "missing_samples", "tie_columns",
            "ext_topk", "ext_crit", "ext_ksplit", "ext_tree", "ext_treefit", "ext_topk_partial", "ext_sublist", "ext_sublist_lists",
            "ext_tfit", "ext_tfit_nofit", "ext_tfit_deep")
HISTS = ("learners", "kinds", "subsets", "nhist", "obs_kinds")
MODEL_LINES = ("CONST ", "CASE ", "F ", "G ", "FIT ", "PRED ", "SPLIT ", "SCALE ", "MERGE ", "SUB ", "TD ", "TF ", "TG ", "TS ", "TFIT ")


def _ensure_numeric():
    """every generated Src_<group>.v imports Src_numeric, but translate.run("C10") only writes the groups that have a C10
    kernel: in a fresh alternate tree (VERIF_REPO=...) Src_numeric.v would be missing -- generate it through the property
    that owns the shared idiv kernel"""
    import translate
    if not os.path.exists(os.path.join(vlib.COQ, "generated", "Src_numeric.v")):
        try:
            translate.run("C16")
        except translate.TranslateError:
            pass


def _build_driver():
    """the extracted model uses Zarith (ExtrOcamlZBigInt), so the shared zutil.ml.inc (helpers for the inductive Z) cannot
    be prefixed: private variant of vlib.build_ocaml"""
    odir = os.path.join(vlib.WORK, "ocaml")
    os.makedirs(odir, exist_ok=True)
    exe = os.path.join(odir, "c10_driver")
    model = os.path.join(vlib.COQ, "extracted", "c10_model.ml")
    driver = os.path.join(vlib.ROOT, "ocaml", "c10_driver.ml")
    with vlib.Lock("ocaml-c10_driver"):
        srcs = [model, model + "i", driver]
        for s in srcs:
            if not os.path.exists(s):
                raise vlib.CheckError("missing %s (extraction failed?)" % s)
        if os.path.exists(exe) and all(os.path.getmtime(s) <= os.path.getmtime(exe) for s in srcs):
            return exe
        bd = os.path.join(odir, "c10_driver.build")
        vlib.sh("rm -rf %s && mkdir -p %s" % (shlex.quote(bd), shlex.quote(bd)))
        for s in (model, model + "i"):
            vlib.sh("cp %s %s/" % (shlex.quote(s), shlex.quote(bd)))
        with open(os.path.join(bd, "driver_main.ml"), "w") as f:
            f.write("open C10_model\n# 1 \"c10_driver.ml\"\n")
            f.write(open(driver).read())
        cmd = "ocamlfind ocamlopt -w -a -package zarith -linkpkg c10_model.mli c10_model.ml driver_main.ml -o %s" % shlex.quote(exe)
        rc, out = vlib.sh(cmd, cwd=bd, timeout=600)
        if rc != 0:
            raise vlib.CheckError("ocaml build of c10_driver failed:\n%s" % out[-3000:])
    return exe


def setup():
    vlib.build_harness("c10_wlearner", "rel", need_lib=True)
    try:
        _build_driver()
    except vlib.CheckError:
        pass  # extraction not built yet: run() builds it after coq_check


def _kv(done_line):
    out = {}
    for tok in done_line.split()[1:]:
        if "=" in tok:
            k, v = tok.split("=", 1)
            out[k] = v
    return out


def _hist(s):
    out = {}
    for tok in s.split(","):
        if ":" in tok:
            k, v = tok.rsplit(":", 1)
            out[k] = int(v)
    return out


def _case_lines(lines, cid):
    """the lines of one case (for a replay file): CASE/F/G and everything that carries the id"""
    return [l for l in lines if re.match(r"^(CASE|F|G|FIT|PRED|SPLIT|SCALE|MERGE|SUB|TD|TF|TG|TS|TFIT|CRASH-CONTEXT|FAIL \S+|OBS \S+) %s( |$)" % re.escape(cid), l)]


def _run_chunk(exe, drv, seed, tier, ncases, ch, only=None):
    args = [exe, tier, str(ncases), str(ch)] + ([str(only)] if only is not None else [])
    rc, out = vlib.sh(args, timeout=3000, env={"VERIF_SEED": str(seed)})
    lines = [l for l in out.split("\n") if l]
    mout, rc2 = "", 0
    if drv:
        feed = "\n".join(l for l in lines if l.startswith(MODEL_LINES)) + "\n"
        rc2, mout = vlib.sh([drv], input=feed, timeout=3000)
    return rc, lines, rc2, mout


def _replay(path):
    d = json.load(open(path))
    exe = vlib.build_harness("c10_wlearner", "rel", need_lib=True)
    drv = _build_driver()
    if "chunk" not in d or "case_index" not in d:
        cmd = d.get("replay_cmd")
        if not cmd:
            print("nothing to replay in %s" % path)
            return 0
        rc, out = vlib.sh(cmd + " | grep -E '^(FAIL|MISMATCH|PROPFAIL)' | cut -c1-1000 | head -10", timeout=3000)
        print(out or "replay: no failure")
        if out.strip():
            print("VIOLATION property=C10 replay=%s" % path)
        return 1 if out.strip() else 0
    rc, lines, rc2, mout = _run_chunk(exe, drv, d.get("seed", 20260926), d.get("tier", "quick"), d.get("cases_per_chunk", 1500),
                                      d["chunk"], d["case_index"])
    bad = [l for l in lines if l.startswith("FAIL ")] + [l for l in mout.split("\n") if l.startswith(("MISMATCH", "PROPFAIL"))]
    if rc != 0:
        bad.append("harness exit code %d" % rc)
    print("\n".join(l[:1000] for l in bad[:10]) or "replay: no failure")
    if bad:
        print("VIOLATION property=C10 replay=%s" % path)
    return 1 if bad else 0


def run(tier, replay=None):
    if replay:
        return _replay(replay)
    r = vlib.Run("C10", tier)
    _ensure_numeric()
    cres = vlib.coq_check("C10", targets=["theories/Extract_C10.vo", "theories/Properties_C10.vo"])
    exe = vlib.build_harness("c10_wlearner", "rel", need_lib=True)
    nchunks, ncases = CHUNKS.get(tier, CHUNKS["quick"])
    drv = None
    try:
        drv = _build_driver()
    except (vlib.CheckError, OSError):
        if cres["ok"]:
            raise
    impl_fail, mism, obs = [], [], []          # (chunk, line)
    case_of = {}                               # (chunk, case id) -> lines of the case (only for failing cases)
    totals = collections.Counter()
    ops = collections.Counter()
    hists = {k: collections.Counter() for k in HISTS}
    distinct = set()
    samples = []
    evaluations = checked = 0
    ext_model = collections.Counter()          # the EXT-DONE counters of the driver (extension stage)
    cmd_of = lambda ch, only=None: "VERIF_SEED=%d %s %s %d %d%s" % (r.seed, exe, tier, ncases, ch, "" if only is None else " %d" % only)
    for ch in range(nchunks):
        rc, lines, rc2, mout = _run_chunk(exe, drv, r.seed, tier, ncases, ch)
        done = [l for l in lines if l.startswith("DONE ")]
        for l in lines:
            op = l.split(" ", 1)[0]
            if op in ("FIT", "PRED", "SPLIT", "SCALE", "MERGE", "FAIL", "OBS", "TFIT"):
                ops[op] += 1
        fl = [l for l in lines if l.startswith("FAIL ")]
        impl_fail += [(ch, l) for l in fl]
        obs += [(ch, l) for l in lines if l.startswith("OBS ")]
        evaluations += sum(1 for l in lines if l.startswith(("FIT ", "PRED ", "SPLIT ", "SCALE ", "MERGE ", "TFIT ")))
        if rc != 0 or not done:
            last_case = [l for l in lines if l.startswith("CASE ")][-1:]
            cid = last_case[0].split()[1] if last_case else "?"
            ctxl = [l for l in lines if l.startswith("CRASH-CONTEXT ")]
            r.violation("crash", {"kind": "implementation crash / exception while fitting or predicting on a valid input",
                                  "operation": (ctxl[-1][len("CRASH-CONTEXT "):][:3000] if ctxl else
                                                "unknown (no CRASH-CONTEXT line: the crash happened outside predict/split of a sub-list)"),
                                  "exit": rc, "tier": tier, "chunk": ch, "cases_per_chunk": ncases,
                                  "case_index": int(cid) % 1000000 if cid.isdigit() else None,
                                  "case": [l[:3000] for l in _case_lines(lines, cid)][:40],
                                  "tail": "\n".join(lines[-6:])[-3000:],
                                  "replay_cmd": cmd_of(ch, int(cid) % 1000000 if cid.isdigit() else None)}, fingerprint="crash")
        else:
            d = _kv(done[0])
            for k in COUNTERS:
                totals[k] += int(d.get(k, 0))
            for k in HISTS:
                hists[k].update(_hist(d.get(k, "")))
        for l in lines:
            if l.startswith("FIT ") and " nofit " not in l:
                distinct.add(hash(l.split(" ", 2)[2]))
        if not samples:
            samples = [l[:500] for l in lines if l.startswith(("CASE ", "F ", "G ")) and len(l) < 500][:6] + \
                      [l[:500] for l in lines if l.startswith("FIT ") and " nofit " not in l and len(l) < 500][:6]
        cm = []
        got = 0
        for l in mout.split("\n"):
            if l.startswith(("MISMATCH", "PROPFAIL")):
                cm.append(l)
            elif l.startswith(("EXT-DONE", "TREEFIT-DONE")):
                for k, v in _kv(l).items():
                    ext_model[k] += int(v)
            elif l.startswith("MODEL-DONE"):
                got = int(l.split("checked=")[1].split()[0])
        checked += got
        if drv and (rc2 != 0 or (not got and evaluations)):
            r.violation("driver", {"kind": "model driver failed", "out": mout[-2000:], "replay_cmd": cmd_of(ch) + " | " + str(drv)},
                        no_input=True)
        mism += [(ch, l) for l in cm]
        for l in fl + cm:
            cid = l.split(" ", 3)[2]
            if (ch, cid) not in case_of and len(case_of) < 12:
                case_of[(ch, cid)] = [x[:4000] for x in _case_lines(lines, cid)]
        del lines
    # direct property oracle on the implementation: one violation per clause (shortest case of the clause)
    seen = set()
    for ch, l in impl_fail:
        clause = l.split(" ", 2)[1]
        if clause in seen or len(seen) >= 4:
            continue
        seen.add(clause)
        same = [(c, x) for c, x in impl_fail if x.split(" ", 2)[1] == clause]
        sch, shortest = min(same, key=lambda cx: len(cx[1]))
        cid = shortest.split(" ", 3)[2]
        idx = int(cid) % 1000000 if cid.isdigit() else None
        r.violation("impl-%s" % clause, {"kind": "direct property check failed on the implementation", "clause": clause,
                                         "failure": shortest[:6000], "failures_of_this_clause": len(same), "tier": tier,
                                         "chunk": sch, "cases_per_chunk": ncases, "case_index": idx,
                                         "case": case_of.get((sch, cid), [])[:60],
                                         "replay_cmd": cmd_of(sch, idx) + " | grep '^FAIL %s'" % clause})
    kinds = set()
    for ch, l in mism:
        kind = " ".join(l.split(" ", 2)[:2])
        if kind in kinds or len(kinds) >= 3:
            continue
        kinds.add(kind)
        same = [(c, x) for c, x in mism if " ".join(x.split(" ", 2)[:2]) == kind]
        sch, shortest = min(same, key=lambda cx: len(cx[1]))
        cid = shortest.split(" ", 3)[2]
        idx = int(cid) % 1000000 if cid.isdigit() else None
        # PROPFAIL = the property's own statement evaluated exactly on what the implementation returned; MISMATCH fit = the
        # returned score is not the proved optimum of the class on this input (a concrete failing input either way); the other
        # MISMATCH kinds are a broken tie unless a direct oracle failed as well
        # extension: a stored selection / grouping / node table / criterion score that is not the one the theorems are about is a
        # concrete input on which the implementation leaves the proved behaviour
        concrete = kind.startswith("PROPFAIL") or kind == "MISMATCH fit" or bool(impl_fail) or kind.startswith("MISMATCH ext-")
        r.violation("corr-%s" % kind.replace(" ", "-"), {"kind": "model/implementation disagreement", "what": kind,
                                                         "failure": shortest[:6000], "mismatches_of_this_kind": len(same),
                                                         "tier": tier, "chunk": sch, "cases_per_chunk": ncases, "case_index": idx,
                                                         "case": case_of.get((sch, cid), [])[:60],
                                                         "replay_cmd": cmd_of(sch, idx) + " | " + str(drv)},
                    no_input=not concrete)
    # the excluded input (dstep on a categorical feature without values) is probed in a separate process
    rcp, outp = vlib.sh([exe, "probe-dstep-empty"], timeout=120)
    probe = "survives: " + outp.strip().split("\n")[-1] if "PROBE-OK" in outp else "crashes (exit code %d)" % rcp
    if "PROBE-OK nofit" not in outp:
        # fixed in /repo (score_kbest clamps max_kbest to the number of bins): a crash / a fit here is the defect coming back
        r.violation("dstep-empty", {"kind": "dstep-table fitted on a categorical feature without any selected value: "
                                            "score_kbest reads mapping[0] of an empty vector (out of bounds)",
                                    "input": "3 samples, one sclass feature (2 classes) with no value set, gradients (1,1,1), dstep-table, rss",
                                    "exit": rcp, "output": outp[-600:], "replay_cmd": "%s probe-dstep-empty" % exe},
                    fingerprint="C10-dstep-empty-feature-out-of-bounds")
    vlib.handle_coq_failure(r, cres)
    vlib.proof_coverage(r, cres, "make -C coq theories/Properties_C10.vo && coqc theories/Properties_C10.v (Print Assumptions)",
                        ["tools/translate.py (30 kernels of src/wlearner/{util,table,dtree,stump,hinge,affine}.cpp, include/nano/core/stats.h, "
                         "src/dataset/iterator.cpp; AIC/AICc/BIC structurally, logarithms as named inputs)",
                         "extension: the criteria are evaluated by the driver in OCaml floats from the exact RSS (interval of width 1e-9 * sum r^2); "
                         "the real-valued model crit_score is tied to the translated expressions by the shape lemmas only",
                         "extraction: ExtrOcamlBasic + ExtrOcamlZBigInt (positive/Z mapped to Zarith big integers)",
                         "ocaml/c10_driver.ml (exact double->Q conversion, tolerances), harness/c10_wlearner.cpp, g++ -O2",
                         "the model computes the bins of a table by filtering the samples of a key (the code scatters them in one pass) and "
                         "sorts with a stable insertion sort (the code with std::sort): same sums, tied by the correspondence"])
    cov = r.coverage
    cov["evaluations"] = evaluations
    cov["correspondence_lines_checked"] = checked
    cov["distinct_nontrivial"] = len(distinct)
    cov["rule"] = ("random datasets (2..60 samples; 1..8 features: float64 scalars of 7 value kinds incl. {-1,0,1}, constant, two values, "
                   "all distinct, k/4 and k/16 grids; single-label and multi-label categorical features with 1..6 classes; a structured "
                   "feature; 10 missing-value patterns incl. all-missing and one-present), 1..3 outputs, 7 gradient kinds (arbitrary "
                   "dyadics, {-1,0,1}, planted stump/table with noise, planted affine/hinge, zero, constant, fine dyadics), 5 kinds of "
                   "sample lists (all, sorted / shuffled subsets, bootstrap with repetitions, 2..3 samples), 1..16 threads, 8 learners x "
                   "RSS + the other criteria; everything derived from VERIF_SEED. distinct_nontrivial = distinct (case, learner, "
                   "criterion, score, fitted parameters) of successful fits")
    cov["op_histogram"] = dict(ops)
    cov["chunks"] = nchunks
    for k in COUNTERS:
        cov[k] = totals[k]
    cov["learner_histogram"] = dict(hists["learners"])
    cov["feature_kind_histogram"] = dict(hists["kinds"])
    cov["sample_list_histogram"] = dict(hists["subsets"])
    cov["selected_samples_histogram"] = dict(hists["nhist"])
    cov["observations_outside_the_property"] = dict(hists["obs_kinds"])
    cov["observation_samples"] = [l[:600] for _, l in obs[:3]]
    cov["extension_model_checks"] = dict(ext_model)
    cov["extension_stage"] = ("driver: kbest = stored label sets / tables of every fitted k-best table vs the first k sorted (delta, hash) pairs; "
                              "ksplit = rss score vs the proved optimum, label -> group map and group means of the trial with the fitted number "
                              "of groups; tree = tree_wf of every fitted node table, tree_bfs and walk_from vs split(); crit = AIC/AICc/BIC score "
                              "vs the criterion of the model's exact RSS candidates; ties_skipped / crit_skipped = comparisons left out because "
                              "a merge step (or a delta order) of the model is a (near-)tie. harness: ext_topk (all subsets), ext_crit, ext_ksplit, "
                              "ext_tree (structure + own traversal on all samples), ext_treefit (every pair = stump of its samples), "
                              "ext_sublist / ext_sublist_lists (learners / sample lists of the sub-list clause; driver counter sub). "
                              "treefit stage (extension 3): treefit = TFIT lines replayed by the extracted tree_fit, treefit_same_table = fits whose "
                              "node table / leaf tables / score agree (treefit_deep of them with more than one pair), treefit_nofit = both sides "
                              "return no fit, treefit_ties = disagreements excused by a (near-)tie in the model's trace, treefit_reach = fits on "
                              "which the converse reach clause was searched, treefit_score_not_rss = fitted trees whose score is not the RSS of "
                              "their predictions on the fit list (observation F7 / C10_treefit_score_omits_dropped_refuted); harness: ext_tfit "
                              "(lines), ext_tfit_nofit, ext_tfit_deep")
    cov["mismatches"] = len(mism)
    cov["impl_direct_failures"] = len(impl_fail)
    cov["samples"] = samples
    cov["excluded_inputs"] = []
    cov["dstep_empty_feature_probe"] = ("dstep-table on a categorical feature without any selected value (bins == 0; out-of-bounds "
                                        "read before the repo fix, now `no fit`): the library " + probe +
                                        "; such inputs are part of the in-process search (counter dstep_excluded = cases containing one)")
    cov["unproved_clauses_searched"] = [
        "floating-point scores: |score - optimum| <= 1e-9 * sum r^2 against the exact model and against a long-double brute force "
        "(the theorems are over Q)",
        "predictions of the fitted learner reproduce the score (implementation-side, and exactly on the fitted parameters with the "
        "specification function rss_of)",
        "AIC / AICc / BIC: the floating-point scores (log) are compared with the criterion of the exact RSS within the interval of "
        "1e-9 * sum r^2; hinge is left out (its criterion uses the sample count of the hinge side, observation hinge-criterion-n)",
        "k-split: the moments of a cluster are the sums over its label sets and the stored tables reproduce the trial's RSS (tied by the "
        "correspondence and the group-mean oracle, not proved); std::lower_bound on the sorted hashes finds every stored label set",
        "decision trees: the greedy fit is now inside the model (C10_treefit_*); still searched: the floating-point choice among "
        "candidates within 1e-12 (ties skipped), the converse of the reach clause (every sample of the fit list whose walk visits a pair "
        "is in the list the pair was fitted on: driver clause ext-treefit-reach), AIC / AICc / BIC tree scores within the criterion "
        "interval, fits behind a pool of several workers (tie order depends on the schedule, finding F4)",
        "predict / split on arbitrary sub-lists (empty, single samples, strict subsets, lists leaving a branch empty) = the rows / "
        "groups of the fit list, bit-exact, implementation-side for every learner (model side: per sample by construction)",
        "predictions depend only on the sample (other sample lists, repetitions), bit-exact, implementation-side",
        "score independent of the thread count 1..16 (bit-exact, implementation-side; the model-level statement is C10_chunks_irrelevant)"]
    cov["not_reached"] = ["feature values / gradients that are not small dyadics (cancellation in r2 - r1^2/x0 beyond 1e-9)",
                          "k-best tables: predictions vs score (std::lower_bound on hashes stored in gain order misses entries: "
                          "reported as observation `reproduce-kbest-table`, k-best is not in the optimality clause of C10)"]
    r.assumptions = ["finite dyadic feature values and gradients of magnitude <= ~100 (sums exact or within 1e-9 relative)",
                     "no FMA contraction / x87 excess precision in the library build (x86-64 SSE2, as built here)",
                     "NDEBUG build: the assertions of fit / scale are respected by the harness"]
    return r.finish("proof")
