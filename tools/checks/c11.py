"""C11 -- fitted models reproduce reported statistics; early stopping keeps the right round
(proof + translator tie + bit-exact correspondence of the monitor + implementation-side recomputation of fits)."""
import collections
import os
import shlex
import shutil
import vlib


MANIFEST = dict(
    text=("Coq theorems about an executable model of gboost::early_stopping_t whose three conditions, the mean_error "
          "denominator, the rows kept by gboost::result_t::done and the (trial, fold) slot arithmetic are regenerated from "
          "the sources on every run: for every call history and arbitrary scalar comparison the monitor stops exactly when "
          "the declarative specification says and reports the latest snapshot (refinement, first-stop, index reading, "
          "patience window, eps-optimality over an ordered scalar), the boosting loop keeps exactly `round` learners and "
          "round+1 statistics rows with the snapshot of that round, slots are injective, the fold average predicts the mean "
          "of the fold models (Q). The binary64 instance (PrimFloat) is extracted and compared bit-exactly with the real "
          "class on all histories up to length 8 over 5-symbol alphabets x patience 1..4 x with/without validation plus "
          "random long ones, and with gboost::result_t driven like the boosting loop. Linear and gradient-boosting models "
          "are fitted on small random datasets (losses, weak-learner pools, shrinkage, subsampling, wscale, folds, both "
          "tuners/splitters) and every stored statistic is recomputed by predicting with the stored model. "
          "Extension 'assemble': the model-assembly code of src/gboost/model.cpp is inside the model, on top of the C10 learner "
          "model (predict/scale/try_merge/merge re-used, not restated): do_predict (row assigned the bias, learners added in list "
          "order), the per-round accumulation of the outputs buffer in ::fit (scale by gstate.x()*shrinkage_ratio, local "
          "shrinkage), result.done(optimum.round()) (erase, then merge) and the block of gboost_model_t::fit that resets the "
          "object, reads the fold models of the optimum trial from m_extras, sums biases, concatenates, merges and scales by "
          "1/folds; the loop bounds, the 1/folds factor, the (trial, fold) read, the reset of the learner list, the assignment "
          "operator of do_predict and the cut-back index are translated kernels. Proved for every number of folds, every list of "
          "learners, every sample: predict = bias + sum of learners whatever the buffer held; the loop's outputs are the "
          "predictions of the learners stored so far; the cut-back keeps (the merge of) exactly the learners of the rounds before "
          "the optimum round and predicts the outputs the loop held at that round; closed form of the assembled model (bias = "
          "average of the fold biases, learners = merge of the concatenation scaled by 1/folds, independent of the previous state "
          "of the object: a re-fit starts from an empty list); the final model predicts the average of the fold models. Tie: the "
          "extracted assembly (exact rationals) is run on the serialised fold models of every real fit and compared with the real "
          "final model (learner counts and structure exactly, coefficients within 1e-12 of the summed magnitudes), the proved "
          "clauses are evaluated on the real per-learner prediction vectors (1e-9 of the summed magnitudes), predict() is called "
          "on a buffer holding other values, and the real gboost::result_t::done is run on mergeable fitted learners. "
          "Extension 'stats': the code that COMPUTES and STORES the reported statistics is inside the model (C11_Stats_Defs): "
          "ml::store_stats / load_stats (mean, deviation, count, percentiles 1 5 10 20 50 80 90 95 99, their columns and the members "
          "that read them), tensor_t::variance (one pass, clamped) / stdev over exact rationals, nano::percentile by the C20 model "
          "(imported), the flat buffers m_values(trial, fold, split, kind, 12) / m_optims of ml::result_t addressed by the C16 index "
          "model (imported), add / store (both overloads) / stats / value / optimum_trial / closest_trial and the tasks of ml::tune "
          "with evaluate = per-sample error / loss of the fitted model; 70 more translated kernels (selectors, percentages, index "
          "expressions, loop bounds, the strict comparisons, the clamped variance expression). Proved for all inputs: store then load "
          "returns the record, every (trial, fold, split, kind, statistic) has its own cell, re-storing changes no other, add() keeps "
          "every record; the 12 numbers are a function of the multiset of the values; count = length, p1 <= p5 <= .. <= p99, mean and "
          "every percentile between min and max, variance and deviation radicand >= 0 and = 0 iff all values are equal (the clamp "
          "never fires over Q); value(trial) reads exactly the stored fold means, optimum_trial / closest_trial are the first strict "
          "minimum; a batch of ml::tune executed in ANY task order stores, for every (trial, fold, split, kind), the statistics of "
          "the per-sample errors / losses of the model fitted for that (trial, fold) on exactly that fold's samples and touches no "
          "older trial. Tie: harness/c11_stats.cpp feeds random and adversarial value lists (ties, constants, one element, huge / "
          "tiny magnitudes, nearly constant) and scrambled add / store / re-store scenarios to the real API; ocaml/c11_stats_driver.ml "
          "compares counts, percentile positions, percentile values, every read-back cell, value() and optimum_trial() exactly, mean "
          "and deviation against the exact rationals within the any-order summation bound; every stored record of every real fit "
          "is checked against the order facts and re-computed by the extracted store_stats from the per-sample values."),
    note=("Coq kernel; translator (28 kernels); extraction with ExtrOCamlFloats/ExtrOCamlInt63 (binary64 = OCaml floats); "
          "harness + OCaml driver; the fitting pipeline (solvers) is an oracle: searched, not proved; statistics compared "
          "within 1e-9 relative (Eigen reductions, merged learners), monitor compared bit-exactly. Assemble stage: second "
          "extraction with ExtrOcamlZBigInt + ocaml/c11_asm_driver.ml; the C10 learner model (tied to the real weak learners by "
          "the C10 check) is part of its trusted base; the boosting loop of ::fit lives in an anonymous namespace, its model "
          "(bloop) is tied by reading and by the recomputation of the stored statistics, not by a differential run; diverged "
          "fits (contributions beyond 1e6) are excluded from the fold-average comparison of predictions, not from the exact "
          "comparison of the assembled learners. Stats stage: third extraction (Zarith + Float64) + ocaml/c11_stats_driver.ml; it "
          "imports the C20 percentile model / position theorems (C20_Defs, C20_Proofs, C20_Float) and the C16 index model read-only "
          "(their kernels Src_pctile, Src_dims are part of its trusted tie; C11's own copies of the two position kernels are proved "
          "equal to C20's); std::nth_element is modelled by its contract (the element at that index of the sorted sequence); Eigen's "
          "mean / square sum are not bit-reproducible: compared with the exact rationals within the bound of C14_fl_sum_any_order / "
          "C09_fp_tree_sum propagated through the variance, the division and the square root (bound coded in the driver, cited, "
          "not imported: importing drags in C14's / C09's kernels); sqrt is outside Q: the model's deviation column holds the radicand."),
    technique="Coq proof over a translated+extracted model, exhaustive bit-exact differential correspondence, implementation-side recomputation",
    design="DESIGN.md section 2, C11")

VARIANTS = ["rel"]


def _build_asm_driver():
    """driver of the extension stage "assemble": its extracted model (extracted/c11_asm_model.ml, second Extraction command of
    Extract_C11.v) maps Z to Zarith big integers, so the shared zutil.ml.inc (helpers for the inductive Z) cannot be prefixed:
    private variant of vlib.build_ocaml (same scheme as tools/checks/c10.py)"""
    odir = os.path.join(vlib.WORK, "ocaml")
    os.makedirs(odir, exist_ok=True)
    exe = os.path.join(odir, "c11_asm_driver")
    model = os.path.join(vlib.COQ, "extracted", "c11_asm_model.ml")
    driver = os.path.join(vlib.ROOT, "ocaml", "c11_asm_driver.ml")
    with vlib.Lock("ocaml-c11_asm_driver"):
        srcs = [model, model + "i", driver]
        for s in srcs:
            if not os.path.exists(s):
                raise vlib.CheckError("missing %s (extraction failed?)" % s)
        if os.path.exists(exe) and all(os.path.getmtime(s) <= os.path.getmtime(exe) for s in srcs):
            return exe
        bd = os.path.join(odir, "c11_asm_driver.build")
        vlib.sh("rm -rf %s && mkdir -p %s" % (shlex.quote(bd), shlex.quote(bd)))
        for s in (model, model + "i"):
            vlib.sh("cp %s %s/" % (shlex.quote(s), shlex.quote(bd)))
        with open(os.path.join(bd, "driver_main.ml"), "w") as f:
            f.write("open C11_asm_model\n# 1 \"c11_asm_driver.ml\"\n")
            f.write(open(driver).read())
        cmd = "ocamlfind ocamlopt -w -a -package zarith -linkpkg c11_asm_model.mli c11_asm_model.ml driver_main.ml -o %s" % shlex.quote(exe)
        rc, out = vlib.sh(cmd, cwd=bd, timeout=600)
        if rc != 0:
            raise vlib.CheckError("ocaml build of c11_asm_driver failed:\n%s" % out[-3000:])
    return exe


def _build_stats_driver():
    """driver of the extension stage "STATS": third extraction of Extract_C11.v (extracted/c11_stats_model.ml: Z = Zarith,
    floats = Float64 / Uint63 of coq-core.kernel), same scheme as tools/checks/c14.py"""
    odir = os.path.join(vlib.WORK, "ocaml")
    os.makedirs(odir, exist_ok=True)
    exe = os.path.join(odir, "c11_stats_driver")
    model = os.path.join(vlib.COQ, "extracted", "c11_stats_model.ml")
    driver = os.path.join(vlib.ROOT, "ocaml", "c11_stats_driver.ml")
    with vlib.Lock("ocaml-c11_stats_driver"):
        srcs = [model, model + "i", driver]
        for s in srcs:
            if not os.path.exists(s):
                raise vlib.CheckError("missing %s (extraction failed?)" % s)
        if os.path.exists(exe) and all(os.path.getmtime(s) <= os.path.getmtime(exe) for s in srcs):
            return exe
        bd = os.path.join(odir, "c11_stats_driver.build")
        vlib.sh("rm -rf %s && mkdir -p %s" % (shlex.quote(bd), shlex.quote(bd)))
        for s in (model, model + "i"):
            vlib.sh("cp %s %s/" % (shlex.quote(s), shlex.quote(bd)))
        with open(os.path.join(bd, "driver_main.ml"), "w") as f:
            f.write("open C11_stats_model\n# 1 \"c11_stats_driver.ml\"\n")
            f.write(open(driver).read())
        cmd = ("ocamlfind ocamlopt -O3 -w -a -rectypes -package zarith,coq-core.kernel -thread -linkpkg c11_stats_model.mli "
               "c11_stats_model.ml driver_main.ml -o %s" % shlex.quote(exe))
        rc, out = vlib.sh(cmd, cwd=bd, timeout=600)
        if rc != 0:
            raise vlib.CheckError("ocaml build of c11_stats_driver failed:\n%s" % out[-3000:])
    return exe


def setup():
    vlib.build_harness("c11_stats", "rel", need_lib=True)
    try:
        _build_stats_driver()
    except vlib.CheckError:
        pass
    vlib.build_harness("c11_gboost", "rel", need_lib=True)
    vlib.build_ocaml("c11_driver", "c11_model.ml", "c11_driver.ml", floats=True)
    try:
        _build_asm_driver()
    except vlib.CheckError:
        pass  # extraction not built yet: run() builds it after coq_check


def _grep(path, prefixes, limit=None):
    out = []
    with open(path, errors="replace") as f:
        for l in f:
            if l.startswith(prefixes):
                out.append(l.rstrip("\n"))
                if limit and len(out) >= limit:
                    break
    return out


def run(tier, replay=None):
    r = vlib.Run("C11", tier)
    # 2. Coq: translated kernels + theorems (+ extraction target, built even if a proof breaks)
    cres = vlib.coq_check("C11", targets=["theories/Extract_C11.vo", "theories/Properties_C11.vo"])
    # 1./3. implementation run (library built from the working tree)
    exe = vlib.build_harness("c11_gboost", "rel", need_lib=True)
    wdir = os.path.join(vlib.WORK, "c11-run-%d" % r.seed)
    shutil.rmtree(wdir, ignore_errors=True)
    os.makedirs(os.path.join(wdir, "tmp"))
    outf = os.path.join(wdir, "harness.out")
    # the library writes per-fold log files below temp_directory_path(): keep them in our own directory
    rc, err = vlib.sh("%s %s > %s" % (exe, tier, outf), timeout=3000,
                      env={"VERIF_SEED": str(r.seed), "TMPDIR": os.path.join(wdir, "tmp")})
    done = _grep(outf, ("DONE ",))
    # the harness prints the first 40 failures in enumeration order: report the shortest (smallest history) first
    impl_fail = sorted(_grep(outf, ("FAIL ",)), key=len)
    ops = collections.Counter()
    distinct = set()
    samples = {}
    chain = {}
    with open(outf, errors="replace") as f:
        for l in f:
            op = l.split(" ", 1)[0]
            if not op.isupper():
                continue
            ops[op] += 1
            if op == "ESNEW":
                chain = {0: hash(l)}
            elif op == "ES":
                # an ES line is one call; the history it belongs to is identified by the chain of lines above it
                d = int(l.split(" ", 2)[1])
                chain[d + 1] = hash((chain.get(d, 0), l))
                distinct.add(chain[d + 1])
            elif op in ("LOOP", "GBH", "ASMFINAL"):
                distinct.add(hash(l))
            if op in ("ES", "LOOP", "GBH", "FIT") and len(samples.setdefault(op, [])) < 2 and ops[op] % 97 == 5:
                samples[op].append(l.rstrip("\n")[:400])
    crashed = rc != 0 or not done
    if crashed:
        tail = _grep(outf, ("ES", "LOOP", "FIT", "GBH"))[-5:]
        r.violation("crash", {"kind": "implementation crash / abnormal exit of the harness", "exit": rc, "mode": tier,
                              "stderr": err[-2000:], "last_operations": [t[:600] for t in tail],
                              "replay_cmd": "VERIF_SEED=%d %s %s" % (r.seed, exe, tier)}, fingerprint="crash")
    # a NaN standard deviation stored for finite per-sample values (tensor_t::variance rounding negative; repaired in /repo by
    # b0b87e4) has its own fingerprint so that it can be listed as a known finding on trees without the repair
    nan_fail = [l for l in impl_fail if l.startswith("FAIL STDEVNAN")]
    impl_fail = [l for l in impl_fail if not l.startswith("FAIL STDEVNAN")]
    nan_fail.sort(key=lambda l: (0 if "fitted fold" in l else 1, len(l)))   # a fitted fold first, then the bare constant vector
    nan_fail = nan_fail[:1] + [l for l in nan_fail[1:] if "fitted fold" not in l][:1] + nan_fail[1:]
    for i, l in enumerate(nan_fail[:2]):
        r.violation("stdevnan-%d" % i, {"kind": "reported statistics: stored m_stdev is NaN although every per-sample value is finite",
                                        "case": l, "replay_cmd": "VERIF_SEED=%d %s %s fit | grep STDEVNAN" % (r.seed, exe, tier)},
                    fingerprint="stdev-nan")
    for i, l in enumerate(impl_fail[:3]):
        r.violation("impl-%d" % i, {"kind": "direct property check failed on the implementation", "case": l,
                                    "replay_cmd": "VERIF_SEED=%d %s %s | grep ^FAIL" % (r.seed, exe, tier)})
    # 4. correspondence with the extracted model (bit-exact)
    mism, propf, checked = [], [], 0
    drv = None
    try:
        drv = vlib.build_ocaml("c11_driver", "c11_model.ml", "c11_driver.ml", floats=True)
    except (vlib.CheckError, OSError):
        if cres["ok"]:
            raise
    if drv:
        rc2, mout = vlib.sh("%s < %s" % (drv, outf), timeout=3000)
        for l in mout.split("\n"):
            if l.startswith("MISMATCH"):
                mism.append(l)
            elif l.startswith("PROPFAIL"):
                propf.append(l)
            elif l.startswith("MODEL-DONE"):
                checked = int(l.split("checked=")[1].split()[0])
        if rc2 != 0 or not checked:
            r.violation("driver", {"kind": "model driver failed", "out": mout[-2000:]}, no_input=True)
        for i, l in enumerate(propf[:2]):
            r.violation("hist-%d" % i, {"kind": "stored per-round statistics of a fitted fold contradict the early-stopping rule "
                                                "(model monitor replayed on them)", "case": l[:6000]})
        for i, l in enumerate(mism[:3]):
            # the model is the one the theorems are about: a disagreement is a concrete call history on which the
            # implementation leaves the proved behaviour; if the independent oracle in the harness agrees with the
            # implementation there, only the tie is broken (no property-violating input)
            r.violation("corr-%d" % i, {"kind": "model/implementation disagreement (bit-exact comparison)", "case": l[:8000],
                                        "meaning": "early_stopping_t / gboost::result_t differ from the extracted Coq model on this history"},
                        no_input=not impl_fail)
    # 4b. extension stage "assemble": the assembly of the final boosting model re-computed with the extracted model
    # (C11_Assemble_Defs over exact rationals) from the fold models the real fit stored, and the proved clauses evaluated on
    # the real per-learner prediction vectors
    asm_mism, asm_prop, asm_checked, asm_done = [], [], 0, {}
    adrv = None
    try:
        adrv = _build_asm_driver()
    except (vlib.CheckError, OSError):
        if cres["ok"]:
            raise
    if adrv:
        rc3, aout = vlib.sh("grep -a '^ASM' %s | %s" % (shlex.quote(outf), shlex.quote(adrv)), timeout=3000)
        for l in aout.split("\n"):
            if l.startswith("MISMATCH"):
                asm_mism.append(l)
            elif l.startswith("PROPFAIL"):
                asm_prop.append(l)
            elif l.startswith("ASM-DONE"):
                asm_done = dict(t.split("=") for t in l.split()[1:] if "=" in t)
            elif l.startswith("MODEL-DONE"):
                asm_checked = int(l.split("checked=")[1].split()[0])
        if not asm_checked and not crashed:
            r.violation("asm-driver", {"kind": "model driver of the assemble stage failed", "out": aout[-2000:]}, no_input=True)
        for i, l in enumerate(asm_prop[:3]):
            r.violation("asm-prop-%d" % i, {"kind": "assembly of the final boosting model: a proved clause fails on the real per-learner "
                                                    "predictions / the real learners (computed by the extracted model in exact rationals)",
                                            "case": l[:6000], "replay_cmd": "VERIF_SEED=%d %s %s fit | grep -a '^ASM' | %s" % (r.seed, exe, tier, adrv)})
        for i, l in enumerate(asm_mism[:3]):
            r.violation("asm-corr-%d" % i, {"kind": "model/implementation disagreement in the assemble stage: the final model of gboost_model_t::fit / the "
                                                    "learners kept by gboost::result_t::done / do_predict differ from what the extracted model computes "
                                                    "from the stored fold models", "case": l[:6000],
                                            "replay_cmd": "VERIF_SEED=%d %s %s fit | grep -a '^ASM' | %s" % (r.seed, exe, tier, adrv)},
                        no_input=not (asm_prop or impl_fail))
    # 4c. extension stage "STATS": the code that computes and stores the statistics (ml::store_stats / load_stats, the layout and the
    # queries of ml::result_t) against the extracted C11_Stats_Defs; plus the stored records of the real fits above (STATREC)
    st_mism, st_prop, st_checked, st_done, st_fail, st_kv = [], [], 0, {}, [], {}
    sexe = vlib.build_harness("c11_stats", "rel", need_lib=True)
    soutf = os.path.join(wdir, "stats.out")
    rc4, serr = vlib.sh("%s %s > %s" % (sexe, tier, soutf), timeout=3000, env={"VERIF_SEED": str(r.seed), "TMPDIR": os.path.join(wdir, "tmp")})
    sdone = _grep(soutf, ("DONE ",))
    st_fail = sorted(_grep(soutf, ("FAIL ",)), key=len)
    if rc4 != 0 or not sdone:
        r.violation("stats-crash", {"kind": "implementation crash / abnormal exit of the STATS harness", "exit": rc4, "stderr": serr[-2000:],
                                    "last_operations": [t[:600] for t in _grep(soutf, ("STAT ", "RSTORE ", "RADD ", "RNEW "))[-5:]],
                                    "replay_cmd": "VERIF_SEED=%d %s %s" % (r.seed, sexe, tier)}, fingerprint="crash")
    else:
        st_kv = dict(t.split("=") for t in sdone[0].split()[1:] if "=" in t)
    for i, l in enumerate(st_fail[:3]):
        r.violation("stats-impl-%d" % i, {"kind": "direct check of the stored statistics / of ml::result_t failed on the implementation (stage STATS)",
                                          "case": l[:8000], "replay_cmd": "VERIF_SEED=%d %s %s | grep ^FAIL" % (r.seed, sexe, tier)})
    sdrv = None
    try:
        sdrv = _build_stats_driver()
    except (vlib.CheckError, OSError):
        if cres["ok"]:
            raise
    if sdrv:
        rc5, sout = vlib.sh("(cat %s; grep -a '^STATREC ' %s) | %s" % (shlex.quote(soutf), shlex.quote(outf), shlex.quote(sdrv)), timeout=3000)
        for l in sout.split("\n"):
            if l.startswith("MISMATCH"):
                st_mism.append(l)
            elif l.startswith("PROPFAIL"):
                st_prop.append(l)
            elif l.startswith("MODEL-DONE"):
                st_done = dict(t.split("=") for t in l.split()[1:] if "=" in t)
                st_checked = int(st_done.get("checked", 0))
        if not st_checked and not crashed:
            r.violation("stats-driver", {"kind": "model driver of the STATS stage failed", "out": sout[-2000:]}, no_input=True)
        for i, l in enumerate(st_prop[:2]):
            r.violation("stats-fit-%d" % i, {"kind": "a statistics record stored by a real fit is not the record the extracted store_stats computes from the per-sample "
                                                     "values of the stored model on the fold's samples", "case": l[:8000]})
        for i, l in enumerate(sorted(st_mism, key=len)[:3]):
            r.violation("stats-corr-%d" % i, {"kind": "model/implementation disagreement in the STATS stage (ml::store_stats / ml::result_t vs the extracted "
                                                      "C11_Stats_Defs: counts, percentile positions and values, value(), optimum_trial() exactly; mean / deviation "
                                                      "within the any-order summation bound)", "case": l[:8000],
                                              "replay_cmd": "VERIF_SEED=%d %s %s | %s" % (r.seed, sexe, tier, sdrv)},
                        no_input=not (st_fail or impl_fail))
    vlib.handle_coq_failure(r, cres)
    vlib.proof_coverage(r, cres, "make -C coq theories/Properties_C11.vo && coqc theories/Properties_C11.v (Print Assumptions)",
                        ["tools/translate.py (98 kernels of early_stopping.cpp, gboost/util.cpp, gboost/result.cpp, gboost/model.cpp, machine/result.cpp, machine/result.h, machine/tune.cpp, machine/stats.cpp, tensor/tensor.h, core/stats.h)",
                         "stats stage: third extraction of Extract_C11.v (Z = Zarith, PrimFloat = OCaml floats), ocaml/c11_stats_driver.ml (exact rational bounds for mean / "
                         "deviation derived from the any-order summation bound of C14_fl_sum_any_order / C09_fp_tree_sum), harness/c11_stats.cpp, the C20 percentile model and "
                         "the C16 index model (imported read-only, tied by their own checks), std::nth_element = element of the sorted sequence (contract)",
                         "extraction: ExtrOcamlBasic + ExtrOCamlFloats + ExtrOCamlInt63 (binary64 and uint63 mapped to OCaml's native ones; Z/nat extracted as inductives)",
                         "PrimFloat = IEEE-754 binary64 as computed by g++ -O2 on x86-64 SSE2 (no -ffast-math) for +, -, /, <",
                         "ocaml/c11_driver.ml, harness/c11_gboost.cpp (independent oracles, tolerance 1e-9 relative for recomputed statistics)",
                         "assemble stage: second extraction of Extract_C11.v with ExtrOcamlZBigInt (Z = Zarith), ocaml/c11_asm_driver.ml (parsing of the "
                         "serialised learners, tolerances 1e-12 / 1e-9 of the summed magnitudes), the C10 learner model (coq/theories/C10_Defs.v, tied to "
                         "the real weak learners by the C10 check)"])
    cov = r.coverage
    dl = done[0] if done else ""
    kv = dict(t.split("=") for t in dl.split()[1:] if "=" in t)
    cov["evaluations"] = sum(ops[k] for k in ("ES", "LOOP", "GBH")) + int(kv.get("fit_checks", 0)) + asm_checked + st_checked
    cov["correspondence_lines_checked"] = checked
    cov["stats_stage"] = dict(lines_checked=st_checked, mismatches=len(st_mism), fit_record_failures=len(st_prop),
                              impl_direct_failures=len(st_fail), driver=st_done, harness=st_kv)
    cov["assemble_stage"] = dict(fits_checked=asm_checked, mismatches=len(asm_mism), proved_clause_failures=len(asm_prop), **asm_done)
    cov["distinct_nontrivial"] = len(distinct)
    cov["rule"] = ("distinct monitor call histories (an ES line together with the chain of calls before it), loop runs and stored fold histories; "
                   "exhaustive: every history over two 5-symbol alphabets (one aimed at the eps / train-exit boundaries, one seeded) up to "
                   "length %s x patience 1..4 x with/without validation samples, the tree also continued after a stop up to length-2; "
                   "random: long histories with arbitrary index lists, sizes and eps, loop runs with scaling-failure/no-fit events; "
                   "fits: random small datasets x losses x pools x shrinkage x subsample x wscale x folds 2..5 x splitters x tuners"
                   % ("8/7" if tier == "thorough" else "5"))
    cov["op_histogram"] = dict(ops)
    cov["harness_counters"] = kv
    cov["mismatches"] = len(mism)
    cov["stored_history_failures"] = len(propf)
    cov["impl_direct_failures"] = len(impl_fail)
    cov["stdev_nan_failures"] = len(nan_fail)
    cov["samples"] = [s for k in ("ES", "LOOP", "GBH", "FIT") for s in samples.get(k, [])][:8]
    cov["exhaustive"] = True
    cov["unproved_clauses_searched"] = [
        "stored per-trial/per-fold and final error/loss statistics (mean, stdev, count, 9 percentiles) equal those recomputed by "
        "predicting with the stored fold/final model on the fold's train/validation samples (implementation-side, 1e-9 relative)",
        "last kept statistics row = means of the stored fold model's errors/losses; stored (train, valid) error history replayed through "
        "the property oracle and through the extracted monitor: never stops before the kept round, which is the last accepted one",
        "number of weak learners of a fold model = its kept round (exactly for non-merging pools, <= otherwise)",
        "the real final boosting model is the one the proved assembly model builds from the stored fold models (the clauses "
        "'predict = bias + sum of weak learners' and 'final model = average of the fold models of the optimum trial' are theorems "
        "about the model; on the implementation they are evaluated on every fit); "
        "optimum trial = first minimum of the mean validation error; linear refit stored in extra() is the model",
        "the outputs buffer of the boosting loop in ::fit (anonymous namespace) follows the proved loop model: observed through the "
        "stored per-round statistics recomputed from the stored fold model",
        "ml::result_t store/extra/stats read back what was stored for every (trial, fold) (slot arithmetic itself is proved)",
        "statistics of constant per-sample vectors (ml::result_t::store on n equal values, n = 2..12 x 40 values + seeded ones, and fits on "
        "constant targets): mean = the value, deviation 0 within tolerance and never NaN, count, percentiles"]
    cov["unproved_clauses_searched"] += [
        "binary64 mean / deviation of ml::store_stats are within the any-order rounding bound of the exact rational mean / radicand "
        "(model over Q; the bound itself is C14's / C09's theorem, its propagation through variance, division and sqrt is coded in the driver)",
        "the real ml::tune runs its tasks as the proved batch model does (observed through every stored record of every fit: the extracted "
        "store_stats on the per-sample values recomputed from the stored fold model, 1e-9 relative)",
        "closest_trial in binary64 (lpNorm<2>, sqrt) picks the trial the exact squared distances pick (small dyadic parameters)"]
    cov["excluded_inputs"] = ["NaN error values in monitor histories (payload/sign of NaN is not compared)",
                              "size_t wrap-around of m_round + patience (patience <= 1000 by the parameter's range)",
                              "stats stage: empty value lists (store_stats on 0 values reads position -1: outside the domain), NaN / -0.0 values, "
                              "deviation not compared when a value exceeds 1e150 (squares overflow)"]
    r.assumptions = ["binary64 arithmetic of the scalar code in early_stopping.cpp / gboost/util.cpp is IEEE-754 round-to-nearest (x86-64 SSE2, no fast-math)",
                     "k-fold / random splitters are deterministic in their seed (used to recover the folds' samples)",
                     "the fitting pipeline (solvers, weak-learner fitting) is an oracle; recomputed statistics are compared within 1e-9 relative",
                     "0/1 classification errors are compared only when no output is within 1e-6 of a decision boundary",
                     "stored m_stdev is compared on every vector (constant ones included) with the two-pass recomputation within "
                     "2e-7*(1+max|x|) (error bound of the library's one-pass variance); not comparable only when a value is non-finite or beyond "
                     "1e150 (harness_counters.stdev_not_comparable)",
                     "diverged fold/final models (a contribution beyond 1e6 for unit-scale targets, or cancellation by more than 4 orders of "
                     "magnitude) are excluded from the floating-point recomputation (counted in harness_counters.illconditioned_models_skipped); "
                     "the exact checks (stored history vs monitor, learners kept) still apply to them"]
    rcode = r.finish("proof")
    if not r.violations:
        shutil.rmtree(wdir, ignore_errors=True)
    return rcode
