"""C08 -- all dataset views agree with the stored feature values, incl. missing ones
(proof + translator tie + differential correspondence + direct oracle on the implementation, ASan+UBSan)."""
import collections
import json
import os
import re
import vlib


MANIFEST = dict(
    text=("Coq theorems about an executable model of the in-memory data source and the dataset views: bit mask set/get "
          "agreement and bounds, per-pool storage ranges pairwise disjoint and inside their pool, set-then-get returns the "
          "value and leaves every other (feature, sample) cell and mask bit unchanged (for any history of writes), "
          "encoders (one-hot +-1 with C-1 columns, 2*hit-1, row-major, missing -> NaN/-1), flatten row = concatenation of "
          "the encoded per-feature views for every generator stack / flag state / stale buffer, identity and product "
          "features equal the stored values, column bookkeeping (columns = sum of column sizes, column2feature inverse of "
          "the offset table, feature mapping), drop/shuffle histories (exactly the addressed feature changes, undo restores "
          "the original), and rejection of out-of-range sample and feature indices. 40+ integer kernels of mask.h, "
          "datasource.{h,cpp}, dataset.cpp and the generator headers are re-translated from the source on every run. The "
          "extracted model is compared exactly with the real library (ASan+UBSan) on random schemas over the 12 feature "
          "types, masks, generator stacks, sample lists and drop/shuffle histories; the property's own oracle runs in "
          "the harness against a shadow copy of the stored values. The gradient generator is modelled at the value level "
          "with Coq's primitive binary64 floats (C08_Gradient.v: make_kernel3x3 for sobel/scharr/prewitt, gradient3x3 for "
          "gradx/grady/magnitude in the code's operation order, the 12 window offsets / input size / output dims / "
          "(channel, mode) mapping translated from gradient.h and elemwise_gradient.{h,cpp}); theorems: all window reads and "
          "output writes in bounds, generated feature <-> (channel, mode) bijection, characterisation of gx/gy/magnitude, "
          "constant finite image => gx = gy = magnitude = +0 exactly, magnitude >= 0 or NaN, left-right flip negates gx "
          "(over an abstract scalar structure), the flatten segment of a gradient feature = its select view = the row-major "
          "gradient image (NaN if the source is missing). The values gx, gy, magnitude of every select / flatten line "
          "are compared BIT FOR BIT with the extracted model, the angle (std::atan2) within 1e-12."),
    note=("Coq kernel; primitive floats (= IEEE binary64 of the host; FloatAxioms in Print Assumptions of the float facts); "
          "translator (kernel group c08); extraction (ExtrOcamlBasic + ExtrOCamlFloats, coq-core.kernel Float64); harness + "
          "OCaml driver (Float.atan2 instantiates the model's atan2); ASan+UBSan "
          "library build with NDEBUG as shipped; values are integers exactly representable in every storage type and in double "
          "(gradient images: the full range of 8/16/32-bit types, +-2^52 for 64-bit types, +-2^24 for float32); "
          "shuffle permutations are taken from dataset_t::shuffled (std::shuffle is not modelled); empty sample lists "
          "excluded (Eigen minCoeff on an empty vector)."),
    technique="Coq proof over a translated+extracted model, differential correspondence, direct property oracle under ASan+UBSan",
    design="DESIGN.md section 2, C08")

VARIANTS = ["asan"]

CASES = {"quick": 300, "thorough": 5000}
HARNESS = "c08_dataset"
INPUT_OPS = ("CASE", "DS", "FEAT", "GEN", "OP")


def setup():
    vlib.build_harness(HARNESS, "asan", need_lib=True)
    try:
        vlib.build_ocaml("c08_driver", "c08_model.ml", "c08_driver.ml", floats=True)
    except (vlib.CheckError, OSError):
        pass  # extraction not built yet: run() builds it after coq_check


def _case_index(cid):
    m = re.match(r"c(\d+)$", cid or "")
    return int(m.group(1)) if m else None


def _case_inputs(lines, cid, limit=60):
    """the input lines (schema, generators, operations; the first few writes) of one case"""
    out, inside, nset = [], False, 0
    for l in lines:
        if l.startswith("CASE "):
            inside = l.split()[1] == cid
        if not inside:
            continue
        op = l.split(" ", 1)[0]
        if op in INPUT_OPS:
            out.append(l[:300])
        elif op == "SET":
            nset += 1
            if nset <= 12:
                out.append(l[:200])
        if len(out) >= limit:
            break
    out.append("(%d SET lines in total)" % nset)
    return out


def _replay(path):
    d = json.load(open(path))
    cmd = d.get("replay_cmd")
    if not cmd:
        print("nothing to replay in %s" % path)
        return 0
    exe = vlib.build_harness(HARNESS, "asan", need_lib=True)
    drv = vlib.build_ocaml("c08_driver", "c08_model.ml", "c08_driver.ml", floats=True)
    rc, out = vlib.sh(cmd.replace("{exe}", exe), timeout=3000)
    lines = [l for l in out.split("\n") if l]
    rc2, mout = vlib.sh([drv], input="\n".join(l for l in lines if not l.startswith(("FAIL", "DONE"))) + "\n", timeout=3000)
    bad = [l for l in lines if l.startswith("FAIL ") or "ERROR:" in l] + [l for l in mout.split("\n") if l.startswith(("MISMATCH", "PROPFAIL"))]
    if rc != 0 and not bad:
        bad = ["harness exit %d" % rc] + lines[-3:]
    print("\n".join(l[:1000] for l in bad[:10]) or "replay: no failure")
    if bad:
        print("VIOLATION property=C08 replay=%s" % path)
    return 1 if bad else 0


def run(tier, replay=None):
    if replay:
        return _replay(replay)
    r = vlib.Run("C08", tier)
    # 2. Coq: translated kernels + theorems (+ extraction target, built even if a proof breaks)
    cres = vlib.coq_check("C08", targets=["theories/Extract_C08.vo", "theories/Properties_C08.vo"])
    # 1./3. implementation run (library + harness with ASan+UBSan, built from the working tree)
    exe = vlib.build_harness(HARNESS, "asan", need_lib=True)
    ncases = CASES.get(tier, CASES["quick"])
    env = {"VERIF_SEED": str(r.seed), "ASAN_OPTIONS": "detect_leaks=0:abort_on_error=0", "UBSAN_OPTIONS": "print_stacktrace=1"}
    rc, out = vlib.sh([exe, tier, str(ncases)], timeout=3000, env=env)
    lines = [l for l in out.split("\n") if l]
    done = [l for l in lines if l.startswith("DONE ")]
    impl_fail = [l for l in lines if l.startswith("FAIL ")]
    ops = collections.Counter(l.split(" ", 1)[0] for l in lines if l.split(" ", 1)[0].isupper())

    def replay_cmd(cid):
        i = _case_index(cid)
        return "VERIF_SEED=%d {exe} %s 1 %d" % (r.seed, tier, i) if i is not None else "VERIF_SEED=%d {exe} %s %d" % (r.seed, tier, ncases)

    crashed = rc != 0 or not done
    if crashed:
        cases = [l for l in lines if l.startswith("CASE ")]
        cid = cases[-1].split()[1] if cases else None
        r.violation("crash", {"kind": "implementation crash (sanitizer report / signal / uncaught exception) inside a valid call",
                              "exit": rc, "case": cid,
                              "case_inputs": _case_inputs(lines, cid) if cid else [],
                              "last_operations": [l[:300] for l in lines if l.split(" ", 1)[0].isupper() and not l.startswith("==")][-4:],
                              "sanitizer": [l[:300] for l in lines if "ERROR:" in l or "SUMMARY:" in l or " in nano::" in l or "runtime error" in l or "what():" in l][:14],
                              "replay_cmd": replay_cmd(cid)}, fingerprint="crash")
    seen_kinds = set()
    nrep = 0
    for l in impl_fail:
        parts = l.split()
        cid, kind = (parts[1], parts[2]) if len(parts) > 2 else (None, "?")
        if kind in seen_kinds or nrep >= 4:
            continue
        seen_kinds.add(kind)
        r.violation("impl-%d" % nrep, {"kind": "direct property check failed on the implementation (oracle: shadow copy of the stored values)",
                                       "failure": l[:1500], "case": cid, "case_inputs": _case_inputs(lines, cid),
                                       "replay_cmd": replay_cmd(cid)}, fingerprint="impl:" + kind)
        nrep += 1
    # 3. correspondence with the extracted model
    mism, checked = [], 0
    gstats = {}
    drv = None
    try:
        drv = vlib.build_ocaml("c08_driver", "c08_model.ml", "c08_driver.ml", floats=True)
    except (vlib.CheckError, OSError):
        if cres["ok"]:
            raise
    if drv:
        rc2, mout = vlib.sh([drv], input="\n".join(l for l in lines if l.split(" ", 1)[0].isupper() and not l.startswith(("FAIL", "DONE"))) + "\n", timeout=3000)
        for l in mout.split("\n"):
            if l.startswith(("MISMATCH", "PROPFAIL")):
                mism.append(l)
            elif l.startswith("MODEL-DONE"):
                checked = int(l.split("checked=")[1].split()[0])
                for key in ("gradient_values_bitexact", "angle_values", "worst_angle_diff"):
                    mm = re.search(key + r"=(\S+)", l)
                    if mm:
                        gstats[key] = float(mm.group(1)) if "diff" in key else int(mm.group(1))
        if rc2 != 0 or not checked:
            r.violation("driver", {"kind": "model driver failed", "out": mout[-2000:]}, no_input=True)
        seen_ops = set()
        ncorr = 0
        failing_cases = set(l.split()[1] for l in impl_fail if len(l.split()) > 1)
        for l in mism:
            parts = l.split()
            cid, op = (parts[1], parts[2]) if len(parts) > 2 else (None, "?")
            if op in seen_ops or ncorr >= 3:
                continue
            seen_ops.add(op)
            # a disagreement with the proved model on a concrete input. When the harness' own oracle is still satisfied
            # on that case it is the tie that broke (reported, but not as a failing input of the property), except for
            # the rejection lines where the model *is* the property (out-of-range accepted)
            concrete = cid in failing_cases or op in ("REJ", "SETBAD")
            r.violation("corr-%d" % ncorr, {"kind": "model/implementation disagreement", "line": l[:1500], "case": cid,
                                            "case_inputs": _case_inputs(lines, cid), "replay_cmd": replay_cmd(cid),
                                            "meaning": "the implementation's observation differs from the extracted Coq model on this input"},
                        fingerprint="corr:" + op, no_input=not concrete)
            ncorr += 1
    vlib.handle_coq_failure(r, cres)
    vlib.proof_coverage(r, cres, "make -C coq theories/Properties_C08.vo && coqc theories/Properties_C08.v (Print Assumptions)",
                        ["tools/translate.py (kernel group c08: mask.h, datasource.h/.cpp, dataset.cpp, elemwise_identity.h, "
                         "elemwise.h, pairwise.h, select.h, pairwise_base.cpp, elemwise_gradient.cpp)",
                         "extraction: ExtrOcamlBasic + ExtrOCamlFloats (PrimFloat -> coq-core.kernel Float64 = the host's binary64); "
                         "Z/nat/positive extracted as inductives",
                         "the model's atan2 is OCaml's Float.atan2 in the driver (angle compared within 1e-12, not bit for bit)",
                         "ocaml/c08_driver.ml, harness/c08_dataset.cpp (shadow-copy oracle), g++ -fsanitize=address,undefined",
                         "dataset_t::shuffled reports the permutation used by the iterators (std::shuffle / make_rng not modelled)"])
    cov = r.coverage
    cases = [l for l in lines if l.startswith("CASE ")]
    cov["evaluations"] = len([l for l in lines if l.split(" ", 1)[0] in ("FLAT", "SELS", "SELM", "SELC", "SELT", "TARGETS", "TSEL", "REJ", "SETBAD", "SHUF", "C2F", "LAYOUT", "GFEAT")])
    cov["cases"] = len(cases)
    cov["correspondence_lines_checked"] = checked
    # distinct + non-trivial: distinct view observations that contain at least one given (non-missing) value or a rejection
    def nontrivial(l):
        op = l.split(" ", 1)[0]
        if op in ("REJ", "SETBAD", "SHUF"):
            return True
        if op in ("FLAT", "SELS", "SELM", "SELC", "SELT", "TARGETS", "TSEL"):
            rhs = l.split(" = ", 1)[-1]
            return bool(re.search(r"(?<![\w-])(?!-1(?:[,;]|$))-?\d", rhs))
        return False
    cov["distinct_nontrivial"] = len(set(l for l in lines if nontrivial(l)))
    cov["rule"] = ("%d random cases: schema of 1..12 features over the 12 feature types (structured dims up to 3x3x2 plus "
                   "gradient-eligible 3x4/4x3/4x4 images (constant / single spike / type limits / random; kernels sobel, scharr, prewitt), classes 1..300 incl. 255/256/257, samples 1..200 incl. 7/8/9/63/64/65), "
                   "random presence masks (all/none/partial), target of any type or absent, writes in random order with "
                   "overwrites and invalid writes, 0..5 generators (identity x4, product, gradient; feature subsets with repeats), "
                   "sample lists (all / reversed / boundary / random with repeats), 0..7 drop/shuffle/undrop/unshuffle steps with "
                   "the views re-read after each, out-of-range samples (N, N+k, -1..) and features (F, F+k, -1..). distinct_nontrivial = "
                   "distinct observation lines that are a rejection or carry at least one given (non-missing) value") % len(cases)
    cov["op_histogram"] = dict(ops)
    cov["mismatches"] = len(mism)
    cov["gradient_value_comparisons"] = dict(gstats, rule="gx / gy / magnitude cells of SELT and FLAT lines compared bit for bit "
                                             "(Int64.bits_of_float) with C08_Gradient.grad_image; angle cells within 1e-12 absolute")
    cov["impl_direct_failures"] = len(impl_fail)
    hist_n, hist_t, hist_g, hist_o = collections.Counter(), collections.Counter(), collections.Counter(), collections.Counter()
    for l in lines:
        op = l.split(" ", 1)[0]
        if op == "DS":
            nn = int(l.split()[1])
            hist_n["1" if nn == 1 else "2-7" if nn < 8 else "8k" if nn % 8 == 0 else "9-64" if nn < 65 else "65-200"] += 1
        elif op == "FEAT":
            hist_t[l.split()[2]] += 1
        elif op == "GEN":
            hist_g[l.split()[1]] += 1
        elif op == "OP":
            hist_o[l.split()[1]] += 1
    cov["samples_histogram"] = dict(hist_n)
    cov["feature_type_histogram"] = dict(hist_t)
    cov["generator_histogram"] = dict(hist_g)
    cov["op_kind_histogram"] = dict(hist_o)
    smp = []
    for pre in ("DS ", "FEAT ", "GEN ", "OP shuffle", "FLAT ", "SELS ", "SELT ", "TARGETS ", "REJ flatten", "REJ drop", "SETBAD "):
        for l in lines:
            if l.startswith(pre) and len(l) < 260:
                smp.append(l)
                break
    cov["samples"] = smp or lines[:5]
    cov["unproved_clauses_searched"] = [
        "gradient generator: the angle feature (std::atan2, libm) is compared with the model within 1e-12 and with the harness' "
        "own atan2 oracle, not proved; gx / gy / magnitude are bit-exact against the PrimFloat model; the left-right flip "
        "fact is proved over an abstract scalar structure only (in binary64 it holds up to the sign of zero)",
        "thread-count independence (1..16 threads are used by the harness; dataset views are not computed in parallel)",
        "the permutation drawn by shuffle() is a bijection of [0,N) (std::shuffle): checked on every shuffle of the run",
        "storage casts: values are exactly representable integers; out-of-range casts are outside the explored domain"]
    cov["excluded_inputs"] = ["empty sample index lists (Eigen minCoeff/maxCoeff on an empty vector in dataset_t::check)",
                              "3x3 structured inputs of the gradient generator (1x1 gradient features: described as scalar, "
                              "generated as structured -- no select overload serves them; defect candidate, see notes/C08.md)",
                              "dataset_t::shuffled on a feature that is not currently shuffled (assert only; null map)"]
    r.assumptions = ["assertions are compiled out (NDEBUG) as in the library build",
                     "ASan/UBSan detect out-of-bounds touches of the explored calls",
                     "the harness writes through datasource_t::set exactly the values it prints (SET lines)"]
    return r.finish("proof")
