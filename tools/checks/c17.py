"""C17 -- thread pool: every task exactly once, completion, clean shutdown (protocol proof + trace acceptance)."""
import collections
import os
import re
import time
import vlib

MANIFEST = dict(
    text=("Coq proof, by inductive invariants over EVERY interleaving of an executable small-step model of "
          "parallel.h/.cpp with arbitrary numbers of workers, submitting threads and tasks: at-most-once / exactly-once "
          "on return, exception of the first failing future, worker ids below the pool size and exclusive, no lost "
          "wake-up, deadlock freedom, clean shutdown, chunk tiling (chunk arithmetic, fast-path tests, the wait predicate / "
          "exit test of the worker loop and the stop value of ~pool_t translated from the source on every run). "
          "Extension: (1) a fast acceptor over binary ids / positional lists / tries (C17_Fast_Defs.stepN) proved to be a "
          "bisimulation-refinement of the proved model (C17_fast_refines, C17_fast_reachable, C17_fast_complete, "
          "C17_fast_enabled) replays ALL traces (no 400-task cap: up to 5000 elements x 4 submitters x 2 calls), the "
          "property is re-stated on the fast state (C17_fast_*), and small traces are cross-replayed through the unary "
          "model; (2) liveness: a non-spurious, measure-decreasing step exists in every non-final reachable state, so "
          "spurious-free executions under ANY scheduler are finite and end final, at most measure+2k steps with k "
          "spurious wake-ups, and from every reachable state a bounded schedule reaches a terminal state where every "
          "map call returned and (destructor in the configuration) all workers exited (C17_terminates_cleanly); "
          "(3) atomicity tie: commutation of lock-free events of different threads (C17_lockfree_events_commute, "
          "lock-free events neither read nor write queue/stop/ran), every lock-protected hook event (push, push-all, "
          "pop, worker-exit, stop) verified as emitted with the queue mutex held BY THE EMITTING THREAD (owner probe + "
          "try_lock probe, self-tested) and the queue length / stop flag read under that lock compared with the model's "
          "at that step. Tie: the implementation, built with the NANO_VERIF hooks and seeded delays at every "
          "synchronisation point, emits its linearised events; the extracted acceptor must accept every trace and derive "
          "the same executions/results; hangs are analysed against the model's enabled set. Thorough adds a "
          "ThreadSanitizer build."),
    note=("Coq kernel (+ functional extensionality for the refinement / commutation statements about states with function "
          "fields); std::mutex/condition_variable/packaged_task by contract (the condition variable's own total order of "
          "notify/wait is outside the commutation theorem); glibc's mutex owner field (self-tested at start-up, try_lock as "
          "second probe); hook event linearisation by a global atomic counter; translator (13 kernels); "
          "ocaml/c17_driver.ml event translation; extraction of MSetPositive; OS fairness only for threads that can move "
          "(maximality), task termination assumed; data-race freedom only sampled by TSan."),
    technique="Coq inductive invariants over all interleavings of an extracted protocol model + trace acceptance of the instrumented implementation",
    design="DESIGN.md section 2, C17")

VARIANTS = ["rel"]


def setup():
    vlib.build_harness("c17_pool", "rel")
    vlib.build_ocaml("c17_driver", "c17_model.ml", "c17_driver.ml")


def analyse(r, exe, out, rc, tag, drv):
    """common treatment of one harness run: direct oracle failures, crashes, hangs, trace acceptance"""
    lines = out.split("\n")
    done = [l for l in lines if l.startswith("DONE ")]
    fails = [l for l in lines if l.startswith("FAIL ")]
    hang = any("HANG" in l for l in done) or rc == 3
    stats = {"scenarios": 0, "events": 0, "fails": len(fails), "accepted": 0, "skipped_large": 0, "mismatches": 0}
    lk = re.search(r"LOCKED push1=(\d+) pushn=(\d+) pop=(\d+) exit=(\d+) stop=(\d+) lockfree_inside_lock=(\d+) owner_probe=(\d+)", out)
    if lk:
        stats["lock_held_verified"] = dict(zip(["push1", "pushn", "pop", "exit", "stop"], map(int, lk.groups()[:5])))
        stats["lockfree_events_inside_lock"] = int(lk.group(6))
        stats["owner_probe"] = bool(int(lk.group(7)))
    m = re.search(r"DONE scenarios=(\d+) fails=(\d+)(?: events=(\d+))?", "\n".join(done))
    if m:
        stats["scenarios"] = int(m.group(1))
        stats["events"] = int(m.group(3) or 0)

    def scenario_block(k):
        blk, on = [], False
        for l in lines:
            if l.startswith("SCENARIO %s " % k):
                on = True
            if on:
                blk.append(l[:4000])
            if on and l.startswith("END %s" % k):
                break
        return blk

    for i, l in enumerate(fails[:3]):
        k = re.search(r"scenario (\d+)", l)
        r.violation("%s-impl-%d" % (tag, i), {"kind": "direct property check failed on the implementation", "what": l,
                                               "scenario": scenario_block(k.group(1)) if k else [],
                                               "replay_cmd": "VERIF_SEED=%d %s <tier> | grep -A12 'SCENARIO %s '" % (r.seed, exe, k.group(1) if k else "?")})
    if (rc not in (0, 3)) or (not done):
        r.violation(tag + "-crash", {"kind": "implementation crashed / sanitizer report", "exit": rc,
                                     "tail": [l[:600] for l in lines[-60:] if not l.startswith(("EVENTS", "EXEC"))],
                                     "sanitizer": [l for l in lines if "ERROR:" in l or "SUMMARY:" in l or "WARNING: ThreadSanitizer" in l][:10]})
    if drv:
        t0 = time.time()
        rc2, mout = vlib.sh([drv], input=out, timeout=3000)
        stats["driver_wall_s"] = round(time.time() - t0, 2)
        mm = [l for l in mout.split("\n") if l.startswith("MISMATCH")]
        ha = [l for l in mout.split("\n") if l.startswith("HANG-ANALYSIS")]
        md = re.search(r"MODEL-DONE checked=(\d+) accepted=(\d+) skipped_large=(\d+) events=(\d+) mismatches=(\d+)", mout)
        if md:
            stats.update(accepted=int(md.group(2)), skipped_large=int(md.group(3)), model_events=int(md.group(4)), mismatches=int(md.group(5)))
        fs = re.search(r"FAST-STAGE traces=(\d+) model_steps=(\d+) largest_tasks=(\d+) locked_state_checks=(\d+) crossed_with_unary_model=(\d+)", mout)
        if fs:
            stats.update(fast_traces=int(fs.group(1)), fast_model_steps=int(fs.group(2)), largest_trace_tasks=int(fs.group(3)),
                         locked_state_checks=int(fs.group(4)), crossed_with_unary_model=int(fs.group(5)))
        else:
            r.violation(tag + "-driver", {"kind": "model driver failed", "out": mout[-2000:]}, no_input=True)
        for i, l in enumerate(mm[:3]):
            k = re.search(r"scenario (\d+)", l)
            r.violation("%s-trace-%d" % (tag, i), {"kind": "trace not accepted by / result differs from the verified protocol model",
                                                    "what": l, "hang_analysis": ha,
                                                    "scenario": scenario_block(k.group(1)) if k else []})
    elif hang:
        r.violation(tag + "-hang", {"kind": "implementation hangs", "what": fails[-1:] or done})
    return stats, lines


def run(tier, replay=None):
    r = vlib.Run("C17", tier)
    cres = vlib.coq_check("C17", targets=["theories/Extract_C17.vo", "theories/Properties_C17.vo"])
    exe = vlib.build_harness("c17_pool", "rel")
    drv = None
    try:
        drv = vlib.build_ocaml("c17_driver", "c17_model.ml", "c17_driver.ml")
    except (vlib.CheckError, OSError):
        if cres["ok"]:
            raise
    count = "300" if tier == "quick" else "5000"
    rc, out = vlib.sh([exe, tier, count], timeout=3400, env={"VERIF_SEED": str(r.seed)})
    stats, lines = analyse(r, exe, out, rc, "rel", drv)
    tsan = None
    if tier == "thorough":
        texe = vlib.build_harness("c17_pool", "tsan")
        rc3, out3 = vlib.sh([texe, "quick", "300"], timeout=3000,
                            env={"VERIF_SEED": str(r.seed + 1), "TSAN_OPTIONS": "halt_on_error=1 second_deadlock_stack=1 suppressions=%s" % os.path.join(vlib.ROOT, "harness", "tsan.supp")})
        tsan, _ = analyse(r, texe, out3, rc3, "tsan", drv)
    vlib.handle_coq_failure(r, cres)
    vlib.proof_coverage(r, cres, "make -C coq theories/Properties_C17.vo && coqc theories/Properties_C17.v (Print Assumptions)",
                        ["tools/translate.py (chunk bounds and fast-path tests of pool_t::map; wait predicate, exit test, stop value of parallel.cpp)",
                         "extraction: ExtrOcamlBasic only (incl. MSetPositive tries)", "ocaml/c17_driver.ml (event translation, unobservable steps)",
                         "harness/c17_pool.cpp + NANO_VERIF hooks in parallel.h/.cpp (add-only); glibc mutex owner field (self-tested) and try_lock probe",
                         "atomicity reduction of mutex-protected blocks (lock held by the emitter verified for every lock-protected event; lock-free "
                         "events commute: theorem); contracts of std::mutex/condition_variable/packaged_task",
                         "FunctionalExtensionality (refinement / commutation statements over states with function fields)"])
    cov = r.coverage
    kinds = collections.Counter()
    shapes = collections.Counter()
    for l in lines:
        if l.startswith("EVENTS"):
            for e in l.split()[1:]:
                kinds[e.split(":")[0]] += 1
        elif l.startswith("SCENARIO"):
            shapes[" ".join(l.split()[2:4])] += 1
    cov["evaluations"] = stats["scenarios"]
    cov["traces_validated_against_impl"] = stats["accepted"]
    cov["distinct_nontrivial"] = len(set(l for l in lines if l.startswith("EVENTS") and len(l) > 60))
    cov["rule"] = ("random scenarios: pool size 1..16, 1..4 submitting threads x 1..4 calls (map / chunked map / enqueue), "
                   "0..5000 elements, chunk sizes 1..elements+1, throwing tasks, seeded yields/sleeps at 6 schedule points, "
                   "destruction with queued tasks; non-trivial = distinct event trace with more than a handful of events; "
                   "ALL traces are replayed through the fast acceptor stepN (proved refinement of the model); traces with at most "
                   "400 tasks are additionally cross-replayed through the unary model (crossed_with_unary_model)")
    cov["event_histogram"] = dict(kinds)
    cov["pool_shapes"] = dict(shapes.most_common(12))
    cov["run_stats"] = stats
    cov["tsan_stats"] = tsan
    smp = [l[:300] for l in lines if l.startswith(("SCENARIO 3 ", "PROG", "EVENTS"))][:6]
    cov["samples"] = smp or ["(no scenario output)"]
    cov["unproved_clauses_searched"] = ["data-race freedom of the C++ memory accesses (ThreadSanitizer, thorough tier, sampled schedules)",
                                        "that a thread which can move eventually moves (OS scheduler); termination itself is a theorem of the model "
                                        "(C17_maximal_runs_end_final / C17_terminates_cleanly), hangs of the implementation are searched with the watchdog",
                                        "the order of notify / wait inside the condition variable (its own total order, by contract): sleeping and "
                                        "wake-ups are not observable through the hooks"]
    r.assumptions = ["each block under m_mutex is one atomic step (checked per lock-protected event: mutex held by the emitting thread, queue "
                     "length and stop flag under the lock equal the model's); wait(lock, pred) releases and sleeps atomically",
                     "notify_one wakes a sleeping worker if there is one; spurious wake-ups allowed",
                     "the pool outlives its users (the destructor runs after the other threads finished their calls)",
                     "user tasks terminate"]
    return r.finish("proof")
