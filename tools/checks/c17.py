"""C17 -- thread pool: every task exactly once, completion, clean shutdown (protocol proof + trace acceptance)."""
import collections
import os
import re
import vlib

MANIFEST = dict(
    text=("Coq proof, by inductive invariants over EVERY interleaving of an executable small-step model of "
          "parallel.h/.cpp with arbitrary numbers of workers, submitting threads and tasks: at-most-once / exactly-once "
          "on return, exception of the first failing future, worker ids below the pool size and exclusive, no lost "
          "wake-up, deadlock freedom, clean shutdown, chunk tiling (chunk arithmetic and fast-path tests translated from "
          "the source on every run). Tie: the implementation, built with the NANO_VERIF hooks and seeded delays at every "
          "synchronisation point, emits its linearised events; the extracted model must accept every trace and derive "
          "the same executions/results; hangs are analysed against the model's enabled set. Thorough adds a "
          "ThreadSanitizer build."),
    note=("Coq kernel; reduction of each mutex-protected block to one atomic step; std::mutex/condition_variable/"
          "packaged_task by contract; hook event linearisation by a global atomic counter; translator (10 kernels); "
          "ocaml/c17_driver.ml event translation; OS fairness and task termination assumed; data-race freedom only "
          "sampled by TSan."),
    technique="Coq inductive invariants over all interleavings of an extracted protocol model + trace acceptance of the instrumented implementation",
    design="DESIGN.md section 2, C17")

VARIANTS = ["rel"]


def setup():
    vlib.build_harness("c17_pool", "rel")
    vlib.build_ocaml("c17_driver", "c17_model.ml", "c17_driver.ml")


def analyse(r, exe, out, rc, tag, drv):
    """common treatment of one harness run: direct oracle failures, crashes, hangs, trace acceptance"""
    lines = out.split("\n")
    done = [l for l in lines if l.startswith("DONE ")]
    fails = [l for l in lines if l.startswith("FAIL ")]
    hang = any("HANG" in l for l in done) or rc == 3
    stats = {"scenarios": 0, "events": 0, "fails": len(fails), "accepted": 0, "skipped_large": 0, "mismatches": 0}
    m = re.search(r"DONE scenarios=(\d+) fails=(\d+)(?: events=(\d+))?", "\n".join(done))
    if m:
        stats["scenarios"] = int(m.group(1))
        stats["events"] = int(m.group(3) or 0)

    def scenario_block(k):
        blk, on = [], False
        for l in lines:
            if l.startswith("SCENARIO %s " % k):
                on = True
            if on:
                blk.append(l[:4000])
            if on and l.startswith("END %s" % k):
                break
        return blk

    for i, l in enumerate(fails[:3]):
        k = re.search(r"scenario (\d+)", l)
        r.violation("%s-impl-%d" % (tag, i), {"kind": "direct property check failed on the implementation", "what": l,
                                               "scenario": scenario_block(k.group(1)) if k else [],
                                               "replay_cmd": "VERIF_SEED=%d %s <tier> | grep -A12 'SCENARIO %s '" % (r.seed, exe, k.group(1) if k else "?")})
    if (rc not in (0, 3)) or (not done):
        r.violation(tag + "-crash", {"kind": "implementation crashed / sanitizer report", "exit": rc,
                                     "tail": [l[:600] for l in lines[-60:] if not l.startswith(("EVENTS", "EXEC"))],
                                     "sanitizer": [l for l in lines if "ERROR:" in l or "SUMMARY:" in l or "WARNING: ThreadSanitizer" in l][:10]})
    if drv:
        rc2, mout = vlib.sh([drv], input=out, timeout=3000)
        mm = [l for l in mout.split("\n") if l.startswith("MISMATCH")]
        ha = [l for l in mout.split("\n") if l.startswith("HANG-ANALYSIS")]
        md = re.search(r"MODEL-DONE checked=(\d+) accepted=(\d+) skipped_large=(\d+) events=(\d+) mismatches=(\d+)", mout)
        if md:
            stats.update(accepted=int(md.group(2)), skipped_large=int(md.group(3)), model_events=int(md.group(4)), mismatches=int(md.group(5)))
        else:
            r.violation(tag + "-driver", {"kind": "model driver failed", "out": mout[-2000:]}, no_input=True)
        for i, l in enumerate(mm[:3]):
            k = re.search(r"scenario (\d+)", l)
            r.violation("%s-trace-%d" % (tag, i), {"kind": "trace not accepted by / result differs from the verified protocol model",
                                                    "what": l, "hang_analysis": ha,
                                                    "scenario": scenario_block(k.group(1)) if k else []})
    elif hang:
        r.violation(tag + "-hang", {"kind": "implementation hangs", "what": fails[-1:] or done})
    return stats, lines


def run(tier, replay=None):
    r = vlib.Run("C17", tier)
    cres = vlib.coq_check("C17", targets=["theories/Extract_C17.vo", "theories/Properties_C17.vo"])
    exe = vlib.build_harness("c17_pool", "rel")
    drv = None
    try:
        drv = vlib.build_ocaml("c17_driver", "c17_model.ml", "c17_driver.ml")
    except (vlib.CheckError, OSError):
        if cres["ok"]:
            raise
    count = "300" if tier == "quick" else "5000"
    rc, out = vlib.sh([exe, tier, count], timeout=3400, env={"VERIF_SEED": str(r.seed)})
    stats, lines = analyse(r, exe, out, rc, "rel", drv)
    tsan = None
    if tier == "thorough":
        texe = vlib.build_harness("c17_pool", "tsan")
        rc3, out3 = vlib.sh([texe, "quick", "300"], timeout=3000,
                            env={"VERIF_SEED": str(r.seed + 1), "TSAN_OPTIONS": "halt_on_error=1 second_deadlock_stack=1"})
        tsan, _ = analyse(r, texe, out3, rc3, "tsan", drv)
    vlib.handle_coq_failure(r, cres)
    vlib.proof_coverage(r, cres, "make -C coq theories/Properties_C17.vo && coqc theories/Properties_C17.v (Print Assumptions)",
                        ["tools/translate.py (chunk bounds and fast-path tests of pool_t::map)",
                         "extraction: ExtrOcamlBasic only", "ocaml/c17_driver.ml (event translation, unobservable steps)",
                         "harness/c17_pool.cpp + NANO_VERIF hooks in parallel.h/.cpp (add-only)",
                         "atomicity reduction of mutex-protected blocks; contracts of std::mutex/condition_variable/packaged_task"])
    cov = r.coverage
    kinds = collections.Counter()
    shapes = collections.Counter()
    for l in lines:
        if l.startswith("EVENTS"):
            for e in l.split()[1:]:
                kinds[e.split(":")[0]] += 1
        elif l.startswith("SCENARIO"):
            shapes[" ".join(l.split()[2:4])] += 1
    cov["evaluations"] = stats["scenarios"]
    cov["traces_validated_against_impl"] = stats["accepted"]
    cov["distinct_nontrivial"] = len(set(l for l in lines if l.startswith("EVENTS") and len(l) > 60))
    cov["rule"] = ("random scenarios: pool size 1..16, 1..4 submitting threads x 1..4 calls (map / chunked map / enqueue), "
                   "0..5000 elements, chunk sizes 1..elements+1, throwing tasks, seeded yields/sleeps at 6 schedule points, "
                   "destruction with queued tasks; non-trivial = distinct event trace with more than a handful of events; "
                   "traces with more than 400 tasks are checked by the direct oracles only (skipped_large)")
    cov["event_histogram"] = dict(kinds)
    cov["pool_shapes"] = dict(shapes.most_common(12))
    cov["run_stats"] = stats
    cov["tsan_stats"] = tsan
    smp = [l[:300] for l in lines if l.startswith(("SCENARIO 3 ", "PROG", "EVENTS"))][:6]
    cov["samples"] = smp or ["(no scenario output)"]
    cov["unproved_clauses_searched"] = ["data-race freedom of the C++ memory accesses (ThreadSanitizer, thorough tier, sampled schedules)",
                                        "termination of executions (deadlock freedom is proved; fairness of the OS scheduler assumed)"]
    r.assumptions = ["each block under m_mutex is one atomic step; wait(lock, pred) releases and sleeps atomically",
                     "notify_one wakes a sleeping worker if there is one; spurious wake-ups allowed",
                     "the pool outlives its users (the destructor runs after the other threads finished their calls)",
                     "user tasks terminate"]
    return r.finish("proof")
