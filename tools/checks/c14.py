"""C14 -- feature scaling is invertible; the un-scaled linear model is the same predictor
(proof over Q + translated guards + differential correspondence + direct search on the implementation)."""
import collections
import os
import shlex
import vlib


MANIFEST = dict(
    text=("Coq theorems over exact rationals about an executable model of update()/done()/scale/upscale and "
          "nano::upscale(W, b) of src/dataset/stats.cpp: round trip for every statistics record the code can produce "
          "(any history, constant / single-sample / all-missing columns, any stdev value), (de)normalisers inverse and "
          "above the epsilon guard, categorical columns untouched, missing entries ignored by the statistics and scaled to "
          "zero, min-max range [0,1] attained, zero mean and [-1,1] range, unit variance (variance level, stdev as a "
          "hypothesis sd*sd == variance), one-pass variance >= 0 (the clamp is an identity in exact arithmetic), batch "
          "independence, and the affine conversion W'x+b' = upscale_t(W scale_f(x)+b). The integer guards of the model "
          "are regenerated from the source on every run; the extracted model is compared with the real library within "
          "the rounding tolerance relative to the summed terms on random datasets with degenerate columns. "
          "EXTENSION (floating point, C14_FloatDefs.v / C14_Float.v): a binary64 twin of the scalar code (update, done incl. "
          "sqrt, scale + nan2zero, upscale, make_scaling, the element-wise part of nano::upscale) written as polymorphic shapes "
          "whose integer instance is proved equal (syntactically) to 25 expression kernels translated from stats.cpp on every "
          "run, extracted and compared BIT FOR BIT with the library on every statistic, every scaled / up-scaled value and every "
          "up-scaled weight; and theorems in the standard model of binary64 arithmetic (Flocq; rnd = round-to-nearest-even "
          "FLT(-1074,53), u = 2^-53), bridged to the twin through Flocq.IEEE754.PrimFloat: round trip |upscale(scale(x)) - x| <= "
          "(5|x|+4|offset|)u(1+3u) + 2^-1074(mul+1) for every record of done(), every mode and every finite x without overflow "
          "(underflow allowed); div = 1.0/mul bit for bit and mul > 0; min-max scaling maps [min,max] INTO [0,1] exactly, min -> 0, "
          "max -> [1-u,1]; no NaN: all statistics finite, stdev >= 0, (de)normalisers > 0 when the sums do not overflow; "
          "summation in ANY order within ((1+u)^(n-1)-1) sum|p_i|; the bias of nano::upscale within ((1+u)^(C+4)-1) M/|tw| and "
          "each weight within (2u+u^2) relative of the exact conversion, hence the converted model's prediction within the sum of "
          "both of the exact up-scaled model (no underflow). The harness / driver check these PROVED bounds (exact rational "
          "arithmetic) on the implementation's values instead of the former empirical tolerances. "
          "SECOND EXTENSION (C14_Float2*.v, C14_Wrap*.v): accuracy of the one-pass statistics for the sequential left-to-right accumulation of "
          "update() -- |mean - S/N| <= g(N) sum|x|/N; one-pass variance within (g(N+2) sum x^2 + g(2N+2) (sum|x|)^2/N)/(N-1) of the exact sample "
          "variance (the expression tree of done()), variance >= 0 over R, stdev^2 in [(var-E)(1-u)^2, (var+E)(1+u)^2] and |sd - sqrt var| <= u sqrt var + "
          "(1+u) sqrt E (correctly rounded sqrt never underflows, the clamp is 1-Lipschitz) -- proved over the reals and transported to the PrimFloat twin "
          "(finiteness of the FINAL sums covers every intermediate sum); the advertised properties of the scaled columns in floating point: zero mean "
          "|sum y| <= div (g(N) sum|x| + g(2) sum|x-mean|), range of mean scaling ((max-min) + delta) div (1+u)^2 + eta, sample variance of the scaled "
          "column = div^2 var up to g(4) div^2 (sum (x-m)^2 + (sum|x-m|)^2/N)/(N-1) and |div^2 var - 1| <= 4u-ish + (1+u)^2 E/sd^2; the dot product of "
          "linear::predict in any order within g(C+1). The wrappers of src/linear.cpp as thin compositions (modes translated from the source): for every "
          "(W, b), mode pair and statistics, predict(stored model, finite raw x) = upscale_t(W scale(x) + b); a missing raw input is read as RAW zero, the "
          "exact discrepancy to 'missing -> scaled zero' is a theorem with a witness (observation, not a violation). The harness fits real ordinary / "
          "ridge models in all four modes, replays the fit to observe (W, b), requires the stored model to be nano::upscale of it bit for bit, and the "
          "driver checks linear_t::predict (missing values in the prediction rows) against the proved bound; the mean / stdev / zero-mean / range / "
          "unit-deviation oracles of harness and driver now use the PROVED constants."),
    note=("Coq kernel + standard axioms of the reals / classical logic + FloatAxioms (primitive floats = IEEE binary64); Flocq 4.1; "
          "translator (14 integer kernels + 25 floating-point expression shapes of stats.cpp); extraction with ExtrOcamlZBigInt "
          "(Zarith) + ExtrOCamlFloats / ExtrOCamlInt63 (coq-core.kernel); harness against the library built from the working tree + "
          "OCaml driver; g++ -O2 x86-64 SSE2 without FMA contraction (bit-exactness of the twin is re-established on every run); "
          "second extension: gamma_k = k u/(1 - k u) >= g(k) (C14_fl_gamma) is what the oracles evaluate; harness/c14_linear.cpp replays the anonymous "
          "::fit of linear.cpp through the public API (bit-identical on every case); still searched only: the library's own floating-point scale/upscale "
          "inside the long-double prediction check of the AFF stage, Eigen's products (as any-order sums), cases outside the no-overflow / no-underflow "
          "hypotheses (counted; none generated)."),
    technique="Coq proof over Q of a translated+extracted model, Flocq proofs of the rounding-error bounds for a bit-exact PrimFloat "
              "twin, differential correspondence (exact / bit for bit / proved tolerance), direct property oracles on the implementation",
    design="DESIGN.md section 2, C14")

VARIANTS = ["rel"]

CHUNKS = {"quick": (1, 1000), "thorough": (48, 1000)}   # (chunks, cases per chunk); chunk id perturbs the seed
COUNTERS = ("corpus_cases", "cases", "columns", "values", "pred_rows", "rt_values", "missing_values", "categorical_columns", "constant_columns",
            "single_columns", "empty_columns", "guard_range_columns", "guard_stdev_columns", "meta_columns", "fsc_lines", "fsc_values")
# counters of the driver's twin stage (MODEL-DONE line)
TWIN_COUNTERS = ("twin_values", "bound_values", "minmax_values", "chain_overflow", "bias_bound", "bias_fallback", "finite_cols", "pred_bound", "propfails",
                 # second extension: accuracy of the statistics / advertised properties of the scaled columns / the wrappers
                 "acc_mean", "acc_stdev", "acc_fallback", "zm_cols", "range_vals", "unit_cols", "scaled_fallback",
                 "lin_models", "lin_preds", "lin_missing", "lin_discrepancy", "lin_fallback")
# second extension, stage "linear": harness/c14_linear.cpp (real fitted linear_t models), cases per chunk
LIN_CASES = {"quick": (1, 400), "thorough": (8, 2500)}
LIN_COUNTERS = ("lin_cases", "fits", "ridge", "replay_ok", "lin_lines", "pred_rows", "missing_rows", "missing_values", "class_cases", "const_columns")


def _build_driver():
    """the extracted model uses Zarith (ExtrOcamlZBigInt), so the shared zutil.ml.inc (helpers for the inductive
    Z) cannot be prefixed: private variant of vlib.build_ocaml"""
    odir = os.path.join(vlib.WORK, "ocaml")
    os.makedirs(odir, exist_ok=True)
    exe = os.path.join(odir, "c14_driver")
    model = os.path.join(vlib.COQ, "extracted", "c14_model.ml")
    driver = os.path.join(vlib.ROOT, "ocaml", "c14_driver.ml")
    with vlib.Lock("ocaml-c14_driver"):
        srcs = [model, model + "i", driver]
        for s in srcs:
            if not os.path.exists(s):
                raise vlib.CheckError("missing %s (extraction failed?)" % s)
        if os.path.exists(exe) and all(os.path.getmtime(s) <= os.path.getmtime(exe) for s in srcs):
            return exe
        bd = os.path.join(odir, "c14_driver.build")
        vlib.sh("rm -rf %s && mkdir -p %s" % (shlex.quote(bd), shlex.quote(bd)))
        for s in (model, model + "i"):
            vlib.sh("cp %s %s/" % (shlex.quote(s), shlex.quote(bd)))
        with open(os.path.join(bd, "driver_main.ml"), "w") as f:
            f.write("open C14_model\n# 1 \"c14_driver.ml\"\n")
            f.write(open(driver).read())
        # extension: the module also contains the PrimFloat twin (Float64 / Uint63 of coq-core.kernel)
        cmd = ("ocamlfind ocamlopt -w -a -rectypes -package zarith,coq-core.kernel -thread -linkpkg c14_model.mli c14_model.ml "
               "driver_main.ml -o %s" % shlex.quote(exe))
        rc, out = vlib.sh(cmd, cwd=bd, timeout=600)
        if rc != 0:
            raise vlib.CheckError("ocaml build of c14_driver failed:\n%s" % out[-3000:])
    return exe


def setup():
    vlib.build_harness("c14_scaling", "rel", need_lib=True)
    vlib.build_harness("c14_linear", "rel", need_lib=True)
    try:
        _build_driver()
    except vlib.CheckError:
        pass  # extraction not built yet: run() builds it after coq_check


def _kv(done_line):
    out = {}
    for tok in done_line.split()[1:]:
        if "=" in tok:
            k, v = tok.split("=", 1)
            out[k] = v
    return out


def _hist(s):
    out = {}
    for tok in s.split(","):
        if ":" in tok:
            k, v = tok.split(":")
            out[k] = int(v)
    return out


KIND_NAMES = ["one-magnitude", "mixed-magnitudes", "constant", "few-ulps-around-constant", "relative-1e-12..1e-7-around-constant",
              "two-values", "small-integers", "large-offset-small-spread", "dyadic", "range-around-eps", "stdev-around-eps",
              "positive-log-uniform"]
PATTERN_NAMES = ["none", "none", "none", "10%", "50%", "90%", "all-missing", "one-present"]


def _replay(path):
    """re-run what a replay file names: a single column (FAIL/MISMATCH lines carrying column=...) through the harness'
    column mode and the driver, else the recorded replay_cmd"""
    import json
    import re
    d = json.load(open(path))
    exe = vlib.build_harness("c14_scaling", "rel", need_lib=True)
    m = re.search(r"column=([-+0-9a-fxnp.,]+)", d.get("case", "") or "")
    if m:
        rc, out = vlib.sh([exe, "column", m.group(1)], timeout=600)
        drv = _build_driver()
        rc2, mout = vlib.sh([drv], input="\n".join(l for l in out.split("\n") if l.startswith(("CONST ", "COL ", "SC ", "FSC ", "AFF "))) + "\n")
        bad = [l for l in out.split("\n") if l.startswith("FAIL ")] + [l for l in mout.split("\n") if l.startswith(("MISMATCH", "PROPFAIL"))]
        print("\n".join(l[:1000] for l in bad[:10]) or "column replay: no failure")
        if bad:
            print("VIOLATION property=C14 replay=%s" % path)
        return 1 if bad else 0
    cmd = d.get("replay_cmd")
    if cmd:
        rc, out = vlib.sh(cmd + " | grep -E '^(FAIL|MISMATCH|PROPFAIL)' | cut -c1-1000 | head -10", timeout=3000)
        print(out or "replay: no failure")
        if out.strip():
            print("VIOLATION property=C14 replay=%s" % path)
        return 1 if out.strip() else 0
    print("nothing to replay in %s" % path)
    return 0


def run(tier, replay=None):
    if replay:
        return _replay(replay)
    r = vlib.Run("C14", tier)
    cres = vlib.coq_check("C14", targets=["theories/Extract_C14.vo", "theories/Properties_C14.vo"])
    exe = vlib.build_harness("c14_scaling", "rel", need_lib=True)
    nchunks, ncases = CHUNKS.get(tier, CHUNKS["quick"])
    drv = None
    try:
        drv = _build_driver()
    except (vlib.CheckError, OSError):
        if cres["ok"]:
            raise
    impl_fail, mism = [], []          # (chunk, line)
    drv_fail = []                     # (chunk, "FAIL fl-<clause> ...") from the driver's proved-bound oracles
    byid = {}                         # (chunk, "COL 3.f2") -> implementation line, only for mismatching ids
    ops = collections.Counter()
    totals = collections.Counter()
    hists = {"kinds": collections.Counter(), "patterns": collections.Counter(), "rows": collections.Counter(),
             "targets": collections.Counter()}
    distinct = set()
    samples = []
    evaluations = checked = 0
    cmd_of = lambda ch: "VERIF_SEED=%d %s %s %d %d" % (r.seed, exe, tier, ncases, ch)
    for ch in range(nchunks):
        rc, out = vlib.sh([exe, tier, str(ncases), str(ch)], timeout=3000, env={"VERIF_SEED": str(r.seed)})
        lines = [l for l in out.split("\n") if l]
        del out
        done = [l for l in lines if l.startswith("DONE ")]
        oplines = [l for l in lines if l.startswith(("COL ", "SC ", "FSC ", "AFF "))]
        for l in lines:
            op = l.split(" ", 1)[0]
            if op in ("COL", "SC", "FSC", "AFF", "FAIL"):
                ops[op] += 1
        impl_fail += [(ch, l) for l in lines if l.startswith("FAIL ")]
        evaluations += len(oplines)
        if rc != 0 or not done:
            r.violation("crash", {"kind": "implementation-crash / exception in the harness", "exit": rc, "mode": tier,
                                  "last_operations": [l[:600] for l in oplines][-5:],
                                  "tail": "\n".join(lines[-8:])[-1500:], "replay_cmd": cmd_of(ch)}, fingerprint="crash")
        else:
            d = _kv(done[0])
            for k in COUNTERS:
                totals[k] += int(d.get(k, 0))
            for k in hists:
                hists[k].update(_hist(d.get(k, "")))
        for l in oplines:
            if l.startswith("COL ") and " en=1 " in l and " = 0;" not in l:
                distinct.add(hash(l.split(" | ", 1)[1]))
        if not samples:
            samples = [l[:400] for l in lines if l.startswith("COL ") and " en=1 " in l and len(l) < 400][:4] + \
                      [l[:400] for l in lines if l.startswith("SC ") and "mode=3" in l and len(l) < 400][:2] + \
                      [l[:600] for l in lines if l.startswith("AFF ") and len(l) < 600][:1] or [l[:400] for l in lines[:3]]
        # correspondence with the extracted model
        if drv:
            feed = "\n".join(l for l in lines if l.startswith(("CONST ", "COL ", "SC ", "FSC ", "AFF "))) + "\n"
            rc2, mout = vlib.sh([drv], input=feed, timeout=3000)
            del feed
            got = 0
            cm = []
            for l in mout.split("\n"):
                if l.startswith("MISMATCH"):
                    cm.append(l)
                elif l.startswith("PROPFAIL "):
                    # a PROVED floating-point bound violated by the implementation's own values (exact rational check in the
                    # driver, independent of the model): same protocol as the harness' FAIL lines; the replay is the driver pipe
                    drv_fail.append((ch, "FAIL " + l[len("PROPFAIL "):]))
                elif l.startswith("MODEL-DONE"):
                    got = int(l.split("checked=")[1].split()[0])
                    for k, v in _kv(l).items():
                        if k in TWIN_COUNTERS:
                            totals[k] += int(v)
            checked += got
            if rc2 != 0 or (not got and oplines):
                r.violation("driver", {"kind": "model driver failed", "out": mout[-2000:], "replay_cmd": cmd_of(ch) + " | " + drv},
                            no_input=True)
            if cm:
                ids = set(x.split(" ", 3)[2] for x in cm)
                for l in oplines:
                    p = l.split(" ", 2)
                    if p[1] in ids:
                        byid.setdefault((ch, p[1]), l)
            mism += [(ch, l) for l in cm]
        del lines, oplines
    # ---- second extension, stage "linear": real fitted linear_t models through linear_t::fit / linear_t::predict -------------
    lexe = vlib.build_harness("c14_linear", "rel", need_lib=True)
    lchunks, lcases = LIN_CASES.get(tier, LIN_CASES["quick"])
    lcmd_of = lambda ch: "VERIF_SEED=%d %s %s %d %d" % (r.seed, lexe, tier, lcases, ch)
    lin_cmd = {}
    for ch in range(lchunks):
        rc, out = vlib.sh([lexe, tier, str(lcases), str(ch)], timeout=3000, env={"VERIF_SEED": str(r.seed)})
        lines = [l for l in out.split("\n") if l]
        del out
        done = [l for l in lines if l.startswith("DONE ")]
        oplines = [l for l in lines if l.startswith(("LIN ", "LPR "))]
        for l in lines:
            op = l.split(" ", 1)[0]
            if op in ("LIN", "LPR", "FAIL"):
                ops[op] += 1
        lch = 1000 + ch                       # chunk ids of the linear stage (replay commands differ)
        lin_cmd[lch] = lcmd_of(ch)
        impl_fail += [(lch, l) for l in lines if l.startswith("FAIL ")]
        evaluations += len(oplines)
        if rc != 0 or not done:
            r.violation("crash-linear", {"kind": "implementation-crash / exception in the linear harness", "exit": rc, "mode": tier,
                                         "last_operations": [l[:600] for l in oplines][-5:],
                                         "tail": "\n".join(lines[-8:])[-1500:], "replay_cmd": lcmd_of(ch)}, fingerprint="crash-linear")
        else:
            d = _kv(done[0])
            for k in LIN_COUNTERS:
                totals[k] += int(d.get(k, 0))
            for k, v in _hist(d.get("modes", "")).items():
                hists.setdefault("lin_modes", collections.Counter())[k] += v
        if len(samples) < 9:
            samples += [l[:500] for l in lines if l.startswith("LIN ") and len(l) < 500][:1] + \
                       [l[:300] for l in lines if l.startswith("LPR ") and "nan" in l and len(l) < 300][:1]
        if drv:
            feed = "\n".join(l for l in lines if l.startswith(("CONST ", "LIN ", "LPR "))) + "\n"
            rc2, mout = vlib.sh([drv], input=feed, timeout=3000)
            got = 0
            cm = []
            for l in mout.split("\n"):
                if l.startswith("MISMATCH"):
                    cm.append(l)
                elif l.startswith("PROPFAIL "):
                    drv_fail.append((lch, "FAIL " + l[len("PROPFAIL "):]))
                elif l.startswith("MODEL-DONE"):
                    got = int(l.split("checked=")[1].split()[0])
                    for k, v in _kv(l).items():
                        if k in TWIN_COUNTERS:
                            totals[k] += int(v)
            checked += got
            if rc2 != 0 or (not got and oplines):
                r.violation("driver-linear", {"kind": "model driver failed on the linear stage", "out": mout[-2000:],
                                              "replay_cmd": lcmd_of(ch) + " | " + drv}, no_input=True)
            if cm:
                ids = set(x.split(" ", 3)[2] for x in cm)
                for l in oplines:
                    pp = l.split(" ", 2)
                    if pp[1] in ids and l.startswith("LIN "):
                        byid.setdefault((lch, pp[1]), l)
            mism += [(lch, l) for l in cm]
        del lines, oplines
    _cmd = lambda ch: lin_cmd[ch] if ch in lin_cmd else cmd_of(ch)
    # direct property oracle on the implementation: one violation per clause (shortest case of the clause)
    impl_fail += drv_fail
    seen = set()
    for ch, l in impl_fail:
        clause = l.split(" ", 2)[1]
        if clause in seen or len(seen) >= 6:
            continue
        seen.add(clause)
        same = [(c, x) for c, x in impl_fail if x.split(" ", 2)[1] == clause]
        sch, shortest = min(same, key=lambda cx: len(cx[1]))
        r.violation("impl-%s" % clause, {"kind": "direct property check failed on the implementation", "clause": clause,
                                         "case": shortest[:6000], "failures_of_this_clause": len(same),
                                         "replay_cmd": (_cmd(sch) + " | %s | grep '^PROPFAIL %s'" % (drv, clause)) if clause.startswith("fl-")
                                         else _cmd(sch) + " | grep '^FAIL %s'" % clause})
    kinds = set()
    for ch, l in mism:
        kind = l.split(" ", 2)[1]
        if kind in kinds or len(kinds) >= 3:
            continue
        kinds.add(kind)
        same = [(c, x) for c, x in mism if x.split(" ", 2)[1] == kind]
        sch, shortest = min(same, key=lambda cx: len(cx[1]))
        lid = shortest.split(" ", 3)[2]
        # a statistic / scaled value / weight that leaves the exact model by more than the rounding tolerance on this very
        # input; a pure model/implementation disagreement while every direct oracle holds is reported as a broken tie
        r.violation("corr-%s" % kind, {"kind": "model/implementation disagreement beyond the rounding tolerance",
                                       "case": shortest[:6000], "implementation_line": byid.get((sch, lid), "")[:6000],
                                       "mismatches_of_this_kind": len(same), "replay_cmd": _cmd(sch) + " | " + str(drv)},
                    no_input=not impl_fail and not kind.startswith(("stats", "scale-nonfinite", "affine-nonfinite")))
    vlib.handle_coq_failure(r, cres)
    vlib.proof_coverage(r, cres, "make -C coq theories/Properties_C14.vo && coqc theories/Properties_C14.v (Print Assumptions)",
                        ["tools/translate.py (13 integer kernels of src/dataset/stats.cpp + idiv; 25 floating-point expression shapes "
                         "translated over Z and proved to be the Z instance of the shapes the PrimFloat twin instantiates; 5 mode kernels of "
                         "src/linear.cpp / src/linear/util.cpp pinned by C14_wrap_modes)",
                         "harness/c14_linear.cpp: the replay of the anonymous ::fit of linear.cpp through the public API (deterministic: one batch "
                         "per training set), checked bit for bit against the stored model on every case",
                         "extraction: ExtrOcamlBasic + ExtrOcamlZBigInt (positive/Z mapped to Zarith big integers) + ExtrOCamlFloats / "
                         "ExtrOCamlInt63 (primitive floats / 63-bit integers mapped to OCaml's native floats / Uint63 of coq-core.kernel)",
                         "Flocq 4.1.0 (standard model of binary64, IEEE754.PrimFloat bridge), FloatAxioms of Coq's primitive floats",
                         "ocaml/c14_driver.ml (exact double->Q conversion, tolerances, exact evaluation of the proved bounds), "
                         "harness/c14_scaling.cpp, g++ -O2 (x86-64 SSE2, no FMA: the twin is compared bit for bit on every run)",
                         "exact-rational model: sqrt of done() is not modelled there (m_stdev is read from the run and checked against "
                         "the exact variance); the PrimFloat twin does model it (IEEE sqrt) and is compared bit for bit"])
    cov = r.coverage
    cov["evaluations"] = evaluations
    cov["correspondence_lines_checked"] = checked
    cov["distinct_nontrivial"] = len(distinct)
    cov["rule"] = ("random datasets (1..300 samples, 1..~20 flatten columns of sclass/mclass/scalar/struct features, 12 structured "
                   "column kinds incl. constant, few-ulps / 1e-12-relative near-constant, range and stdev around the epsilon guard, "
                   "8 missing-value patterns incl. all-missing and one-present, random sample subsets incl. a single sample, random "
                   "batch sizes, random generator order), 4 scaling modes for inputs and targets, random W/b; everything derived "
                   "from VERIF_SEED. distinct_nontrivial = distinct (data, statistics) of continuous columns with at least one "
                   "finite entry")
    cov["op_histogram"] = dict(ops)
    cov["chunks"] = nchunks
    for k in COUNTERS:
        cov[k] = totals[k]
    cov["twin_stage"] = {"values_compared_bit_for_bit_with_the_PrimFloat_twin": totals["twin_values"],
                         "values_checked_against_the_proved_roundtrip_bound": totals["bound_values"],
                         "values_checked_against_the_proved_minmax_range": totals["minmax_values"],
                         "values_outside_the_theorem_hypotheses_(overflow_in_the_chain)": totals["chain_overflow"],
                         "biases_checked_against_the_proved_g(C+4)_bound": totals["bias_bound"],
                         "biases_with_undecidable_no_underflow_hypothesis_(empirical_tolerance_only)": totals["bias_fallback"],
                         "columns_checked_against_the_proved_finiteness_of_the_statistics": totals["finite_cols"],
                         "probe_predictions_checked_against_the_proved_prediction_bound": totals["pred_bound"],
                         "proved_bound_violations": totals["propfails"]}
    for k in LIN_COUNTERS:
        cov[k] = totals[k]
    cov["linear_mode_histogram"] = {("none", "mean", "minmax", "standard")[int(k)]: v for k, v in hists.get("lin_modes", {}).items()}
    cov["second_extension_stage"] = {
        "columns_checked_against_the_proved_mean_accuracy_g(N)": totals["acc_mean"],
        "columns_checked_against_the_proved_stdev^2_interval": totals["acc_stdev"],
        "columns_outside_the_no_overflow/underflow_hypotheses_of_the_accuracy_theorems": totals["acc_fallback"],
        "scaled_columns_checked_against_the_proved_zero_mean_bound": totals["zm_cols"],
        "mean_scaled_values_checked_against_the_proved_range_bound": totals["range_vals"],
        "standardised_columns_checked_against_the_proved_variance_bounds": totals["unit_cols"],
        "scaled_columns_outside_the_hypotheses": totals["scaled_fallback"],
        "fitted_linear_models_(stored_W',b'_vs_twin_of_nano::upscale_of_the_replayed_solution)": totals["lin_models"],
        "stored_models_bit_identical_to_upscale_of_the_replayed_fit": totals["replay_ok"],
        "linear_t::predict_rows_checked_against_the_proved_bound": totals["lin_preds"],
        "of_which_with_missing_raw_inputs": totals["lin_missing"],
        "rows_where_missing->raw_0_differs_from_missing->scaled_0_(observation,_C14_wrap_missing_scaled_zero_refuted)": totals["lin_discrepancy"],
        "prediction_outputs_outside_the_no_underflow_hypotheses_(4x_bound)": totals["lin_fallback"]}
    cov["column_kind_histogram"] = {KIND_NAMES[int(k)]: v for k, v in hists["kinds"].items() if int(k) < len(KIND_NAMES)}
    ph = collections.Counter()
    for k, v in hists["patterns"].items():
        ph[PATTERN_NAMES[int(k)]] += v
    cov["missing_pattern_histogram"] = dict(ph)
    cov["rows_histogram_upper_bounds"] = dict(hists["rows"])
    cov["target_kind_histogram"] = {("sclass", "mclass", "continuous")[min(int(k), 2)]: 0 for k in hists["targets"]}
    for k, v in hists["targets"].items():
        cov["target_kind_histogram"][("sclass", "mclass", "continuous")[min(int(k), 2)]] += v
    cov["mismatches"] = len(mism)
    cov["impl_direct_failures"] = len(impl_fail)
    cov["samples"] = samples
    cov["unproved_clauses_searched"] = [
        "(de)normalisers within 2-4 ulp of the exact-rational model (their bit patterns are those of the twin); the former empirical tolerances on "
        "mean / stdev^2 of the exact-rational correspondence stage are kept but are now implied by the PROVED accuracy bounds checked next to them",
        "the proved accuracy / zero-mean / range / unit-variance bounds when a no-overflow / no-underflow hypothesis fails (counted, never generated)",
        "Eigen's matrix product inside linear::predict (covered as a summation in any order by C14_fl_predict_dot)",
        "the solver's solution itself (any (W, b) is admitted by the theorems; the harness replays the fit to observe it)",
        "predictions W'x+b' vs the LIBRARY's floating-point upscale_t(W scale_f(x)+b) in long double, tolerance 32(C+8)u M (the proved "
        "prediction bound is against the exact up-scaled model and is checked in the driver)",
        "the bias of nano::upscale when a no-underflow hypothesis is undecidable from outside (b' = 0 or subnormal): empirical (2C+16)u tolerance",
        "overflow cases (a finite input whose scaled value overflows is zeroed by nan2zero): outside the hypotheses, not generated",
        "flatten_iterator_t delivers bit-identical values to scalar_stats_t::scale; statistics bit-identical after removing the missing samples"]
    cov["proved_floating_point_clauses_checked_on_the_implementation"] = [
        "round trip within (5|x|+4|off|)u(1+3u)+2^-1074(mul+1) (C14_fl_roundtrip*; harness FAIL roundtrip, driver PROPFAIL fl-roundtrip)",
        "div = 1.0/mul bit for bit (C14_fl_denormalisers; PROPFAIL fl-denorm)",
        "min-max: [min,max] -> [0,1] exactly, min -> 0, max -> [1-u,1] (C14_fl_minmax; FAIL minmax-range, PROPFAIL fl-minmax)",
        "no NaN / stdev >= 0 / (de)normalisers > 0 (C14_fl_stats_finite; FAIL stats-finite, PROPFAIL fl-stats-finite)",
        "bias within g(C+4) M/|tw| (C14_fl_up_bias; PROPFAIL fl-up-bias), weight within g(2) relative (C14_fl_up_weight; PROPFAIL fl-up-weight)",
        "prediction of the converted model within g(2) sum|W'x| + g(C+4) M/|tw| of the exact up-scaled model (C14_fl_prediction; PROPFAIL fl-prediction)",
        "mean within g(N) sum|x|/N of the exact mean (C14_fl_mean_accuracy; FAIL mean, PROPFAIL fl-mean)",
        "stdev^2 in [(var-E)(1-u)^2, (var+E)(1+u)^2], E = (g(N+2) sum x^2 + g(2N+2)(sum|x|)^2/N)/(N-1) (C14_fl_stdev_accuracy; FAIL stdev, PROPFAIL fl-stdev)",
        "zero mean: |sum scaled| <= div (g(N) sum|x| + g(2) sum|x-mean|) (C14_fl_zero_mean; FAIL zero-mean, PROPFAIL fl-zero-mean)",
        "mean scaling range: |y| <= ((max-min) + g(N) sum|x|/N) div (1+u)^2 + eta (C14_fl_mean_range_real; FAIL mean-range, PROPFAIL fl-mean-range)",
        "unit deviation: |var(scaled) - div^2 var| <= g(4) div^2 (sum(x-m)^2 + (sum|x-m|)^2/N)/(N-1) and |var(scaled) - 1| <= that + 4u + (1+u)^2 E/sd^2 "
        "(C14_fl_scaled_variance_real, C14_fl_unit_variance_real; FAIL unit-deviation, PROPFAIL fl-scaled-variance / fl-unit-variance)",
        "linear_t::fit stores nano::upscale(flatten_stats, m, targets_stats, m, W, b) of the solver's solution (FAIL lin-store, bit for bit; C14_wrap_modes)",
        "linear_t::predict(raw row, missing -> raw 0) within g(2) sum|W'ex x| + g(C+4) M/|tw| + g(C+1)(sum|W'x| + |b'|) of the exact up-scaled model on the "
        "scaled row (C14_wrap_predict_finite / _missing_is_raw_zero + C14_fl_prediction + C14_fl_predict_dot; PROPFAIL fl-lin-predict)"]
    cov["not_reached"] = ["lasso / elastic net models and non-MSE losses (the wrappers are the same code)", "missing values in the TRAINING rows of "
                          "the fitted models", "non-finite but not NaN inputs (+-inf), magnitudes outside 1e-6..1e6"]
    r.assumptions = ["finite inputs of magnitude 1e-6..1e6 (no overflow to inf inside scale, where nan2zero would zero a finite input)",
                     "no FMA contraction / x87 excess precision in the library build (x86-64 SSE2, as built here)",
                     "NDEBUG build: the size assertions of scale/upscale/upscale(W,b) are respected by the harness",
                     "the target feature is never optional (the library rejects optional targets)"]
    return r.finish("proof")
