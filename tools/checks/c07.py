"""C07 -- line-search steps honour the acceptance conditions they advertise
(proof over a PrimFloat model of the five line-searches + translated predicates/formulas + bit-exact replay)."""
import collections
import json
import os
import re
import shlex
import vlib


MANIFEST = dict(
    text=("Coq theorems about a bit-exact PrimFloat model of lsearchk_t::get and the five line-searches run against an "
          "arbitrary probe oracle: a reported success implies the advertised boolean predicates (Armijo / Armijo+Wolfe / "
          "Armijo+strong Wolfe, exactly as state.cpp computes them) on the returned state and step, the returned state is "
          "the last probe, a non-descent direction is refused without a probe; for More-Thuente and CG_DESCENT the exact case split "
          "of a success (convergence test or one of the four no-progress exits; Wolfe, approximate Wolfe or 'bracketing failed'), "
          "with every successful run of the library classified into those cases. The predicates, exit tests and interpolation formulas "
          "are re-translated from the sources on every run; the extracted model replays every recorded run of the real "
          "library (registered smooth functions, random quadratics, adversarial 1-D oracles) and must request the same "
          "probes and return the same (ok, t) bit for bit; an independent oracle recomputes the advertised conditions "
          "from the user function at the accepted point. INIT extension: the step-length initialisers lsearch0_t (constant / "
          "linear / quadratic / cgdescent, with the mutable members m_prevf / m_prevdg and the one value-only trial evaluation of "
          "lsearch0-cgdescent) and lsearch_t::get (lsearch0->get, lsearchk->get, m_last_step_size) are inside the model as a state "
          "machine over whole runs; proved for every history: the closed forms in terms of the previous call's (f, dg), t0 in [0, 1] for "
          "linear / quadratic along descent directions (t0 > 0 and finite is refuted with witnesses reproduced on the library: 0 by "
          "underflow / dg = -inf, +inf and -inf from lsearch0-cgdescent), the clamp of lsearchk_t::get maps EVERY t0 into [stpmin, 1], the "
          "success theorems for the composed search, at most one extra evaluation per iteration. Every t0 of recorded call sequences "
          "(crafted states, whole runs of 17 solvers, the real lsearch_t iterated) is reproduced bit for bit by the extracted machine. "
          "QUAD extension: the exact-arithmetic core of 'all five searches succeed on convex quadratics' -- the same algorithms read over the "
          "ordered field Q (C07_Quad_Defs.v, every expression the exact-rational reading of the translated source tree) on phi(t) = f0 + g0 t + "
          "(a/2) t^2: proved for all inputs the closed-form acceptance regions (Armijo iff 0 <= t <= 2(1-c1)t*, Wolfe iff t >= (1-c2)t*, strong "
          "Wolfe iff (1-c2)t* <= t <= (1+c2)t*; Armijo at t* iff c1 <= 1/2 -- the mechanism of the CG_DESCENT finding), success of backtrack "
          "within N trial steps for any interpolation ((1-s)^N t <= U; N exists for every start; sharper 1 + log_s bound for quadratic "
          "interpolation, whose interpolant is exact), success of lemarechal within n1 + n2 steps, More-Thuente's convergence test = the "
          "closed-form region, CG_DESCENT's first secant step = t* accepted iff c1 <= 1/2. The proved regions and bounds are applied to the "
          "real searches on exactly representable quadratics, and the extracted rational model must make the library's probes exactly "
          "whenever every value of the run is exactly representable."),
    note=("Coq kernel + primitive floats (= IEEE binary64 of the host); translator (98 kernels incl. 46 of src/lsearch0*.cpp / lsearch.h and 19 of the QUAD extension, "
          "PrimFloat reading derived in tools/checks/c07.py, std::min/std::max read as libstdc++ defines them); extraction "
          "(ExtrOcamlBasic, ExtrOCamlFloats); recording function_t / recording lsearch0_t harnesses + OCaml driver; the Eigen reductions "
          "g.d, |x|_inf, |g|_inf, g.g are inputs taken from the run; 'succeeds on convex quadratics', 't > 0' and 'lsearch0 returns a "
          "finite positive step' are searched, not proved (the last one is false: reported as a candidate finding, hidden by the clamp). "
          "QUAD extension: 19 more kernels and their exact-rational reading (gen_q_twin); extraction of the rational model with "
          "ExtrOcamlZBigInt + Z.ggcd mapped to Zarith's gcd (as C01Q); ocaml/c07q_driver.ml (exact double -> rational conversion, the rule "
          "'all values small dyadics => every binary64 operation exact'); harness/c07_quad.cpp. The theorems are exact-arithmetic statements: "
          "on binary64 the success clause stays searched (bounds checked with a 1e-6 margin); fletcher's and More-Thuente's / CG_DESCENT's "
          "iterations have no success theorem (fletcher's exact model is compared, their success on the family is searched)."),
    technique="Coq proof over a translated+extracted PrimFloat model, bit-exact differential replay, direct oracle",
    design="DESIGN.md section 2, C07")

VARIANTS = ["rel"]


# ------------------------------------------------------------------------------------------------
# PrimFloat reading of the structurally translated kernels (Src_c07.v -> Src_c07_flt.v)
# ------------------------------------------------------------------------------------------------
_TOK = re.compile(r"\s*(\(|\)|[A-Za-z_][\w.]*|\d+|[-+*])")


def _tok(s):
    out, pos = [], 0
    s = s.strip()
    while pos < len(s):
        m = _TOK.match(s, pos)
        if not m:
            raise vlib.CheckError("float reading: cannot tokenize %r" % s[pos:pos + 30])
        out.append(m.group(1))
        pos = m.end()
    return out


def _parse(toks, i):
    """parse one term of the translator's fully parenthesised output; returns (ast, next index)"""
    t = toks[i]
    if t != "(":
        if t == ")":
            raise vlib.CheckError("float reading: unexpected )")
        return ("atom", t), i + 1
    i += 1
    if toks[i] == "if":
        c, i = _parse(toks, i + 1)
        assert toks[i] == "then"
        a, i = _parse(toks, i + 1)
        assert toks[i] == "else"
        b, i = _parse(toks, i + 1)
        assert toks[i] == ")"
        return ("if", c, a, b), i + 1
    if toks[i] == "-":
        a, i = _parse(toks, i + 1)
        assert toks[i] == ")"
        return ("neg", a), i + 1
    if toks[i] in ("negb", "andb", "orb") or toks[i].startswith("Z."):
        f = toks[i]
        i += 1
        args = []
        while toks[i] != ")":
            a, i = _parse(toks, i)
            args.append(a)
        return ("app", f, args), i + 1
    a, i = _parse(toks, i)
    if toks[i] == ")":
        return a, i + 1
    op = toks[i]
    if op not in ("+", "-", "*"):
        raise vlib.CheckError("float reading: unexpected operator %s" % op)
    b, i = _parse(toks, i + 1)
    assert toks[i] == ")"
    return ("bin", op, a, b), i + 1


def _emit(e):
    k = e[0]
    if k == "atom":
        return e[1]
    if k == "if":
        return "(if %s then %s else %s)" % (_emit(e[1]), _emit(e[2]), _emit(e[3]))
    if k == "neg":
        return "(- %s)" % _emit(e[1])
    if k == "bin":
        return "(%s %s %s)" % (_emit(e[2]), e[1], _emit(e[3]))
    f, args = e[1], [_emit(a) for a in e[2]]
    if f in ("negb", "andb", "orb"):
        return "(%s %s)" % (f, " ".join(args))
    if len(args) == 2:
        a, b = args
        table = {"Z.quot": "(%s / %s)" % (a, b), "Z.ltb": "(PrimFloat.ltb %s %s)" % (a, b),
                 "Z.leb": "(PrimFloat.leb %s %s)" % (a, b), "Z.gtb": "(PrimFloat.ltb %s %s)" % (b, a),
                 "Z.geb": "(PrimFloat.leb %s %s)" % (b, a), "Z.eqb": "(PrimFloat.eqb %s %s)" % (a, b),
                 # libstdc++: std::min(a, b) = (b < a) ? b : a, std::max(a, b) = (a < b) ? b : a (NaN / signed zeros included)
                 "Z.min": "(if PrimFloat.ltb %s %s then %s else %s)" % (b, a, b, a),
                 "Z.max": "(if PrimFloat.ltb %s %s then %s else %s)" % (a, b, b, a)}
        if f in table:
            return table[f]
    raise vlib.CheckError("float reading: %s has no PrimFloat reading" % f)


def gen_float_twin():
    gen = os.path.join(vlib.COQ, "generated")
    path_z = os.path.join(gen, "Src_c07.v")
    if not os.path.exists(path_z):
        raise vlib.CheckError("float reading: Src_c07.v was not generated")
    src = open(path_z).read()
    parts = ["(* GENERATED by tools/checks/c07.py from Src_c07.v (itself generated from /repo's working tree) -- do not edit.\n"
             "   PrimFloat reading of the translated line-search kernels: same expression trees, IEEE binary64 operations. *)\n"
             "From Coq Require Import Bool Floats.\nLocal Open Scope float_scope.\n"]
    n = 0
    for m in re.finditer(r"^(\(\* [^\n]*\*\)\n)Definition (\w+) ((?:\([^)]*\) ?)*) ?: (\w+) := (.*)\.$", src, re.M):
        cm, name, args, ty, body = m.groups()
        toks = _tok(body)
        ast, i = _parse(toks, 0)
        if i != len(toks):
            raise vlib.CheckError("float reading: trailing tokens in %s" % name)
        args = args.replace(": Z)", ": float)")
        ty = "float" if ty == "Z" else ty
        parts.append("%sDefinition %s_f %s: %s := %s.\n" % (cm, name, args, ty, _emit(ast)))
        n += 1
    if n == 0:
        raise vlib.CheckError("float reading: no kernel found in Src_c07.v")
    txt = "\n".join(parts)
    path = os.path.join(gen, "Src_c07_flt.v")
    if not os.path.exists(path) or open(path).read() != txt:
        open(path, "w").write(txt)
    return n


def _emit_q(e):
    """exact-rational reading (QUAD extension): same trees over Coq's Q; comparisons are decidable booleans"""
    k = e[0]
    if k == "atom":
        return e[1]
    if k == "if":
        return "(if %s then %s else %s)" % (_emit_q(e[1]), _emit_q(e[2]), _emit_q(e[3]))
    if k == "neg":
        return "(- %s)" % _emit_q(e[1])
    if k == "bin":
        return "(%s %s %s)" % (_emit_q(e[2]), e[1], _emit_q(e[3]))
    f, args = e[1], [_emit_q(a) for a in e[2]]
    if f in ("negb", "andb", "orb"):
        return "(%s %s)" % (f, " ".join(args))
    if len(args) == 2:
        a, b = args
        table = {"Z.quot": "(%s / %s)" % (a, b), "Z.ltb": "(qltb %s %s)" % (a, b),
                 "Z.leb": "(Qle_bool %s %s)" % (a, b), "Z.gtb": "(qltb %s %s)" % (b, a),
                 "Z.geb": "(Qle_bool %s %s)" % (b, a), "Z.eqb": "(Qeq_bool %s %s)" % (a, b),
                 "Z.min": "(if qltb %s %s then %s else %s)" % (b, a, b, a),
                 "Z.max": "(if qltb %s %s then %s else %s)" % (a, b, b, a)}
        if f in table:
            return table[f]
    raise vlib.CheckError("rational reading: %s has no Q reading" % f)


def gen_q_twin():
    """Src_c07.v -> Src_c07_q.v: the same translated expression trees read over the ordered field Q (exact arithmetic):
    + - * stay, Z.quot -> Qdiv, < and <= -> qltb / Qle_bool (>, >= with swapped arguments), std::min / std::max as libstdc++
    defines them. This is what C07_Quad_Defs.v imports."""
    gen = os.path.join(vlib.COQ, "generated")
    path_z = os.path.join(gen, "Src_c07.v")
    if not os.path.exists(path_z):
        raise vlib.CheckError("rational reading: Src_c07.v was not generated")
    src = open(path_z).read()
    parts = ["(* GENERATED by tools/checks/c07.py from Src_c07.v (itself generated from /repo's working tree) -- do not edit.\n"
             "   Exact-rational reading of the translated line-search kernels: same expression trees over the ordered field Q. *)\n"
             "From Coq Require Import Bool ZArith QArith.\nLocal Open Scope Q_scope.\n\n"
             "Definition qltb (a b : Q) : bool := negb (Qle_bool b a).\n"]
    n = 0
    for m in re.finditer(r"^(\(\* [^\n]*\*\)\n)Definition (\w+) ((?:\([^)]*\) ?)*) ?: (\w+) := (.*)\.$", src, re.M):
        cm, name, args, ty, body = m.groups()
        toks = _tok(body)
        ast, i = _parse(toks, 0)
        if i != len(toks):
            raise vlib.CheckError("rational reading: trailing tokens in %s" % name)
        args = args.replace(": Z)", ": Q)")
        ty = "Q" if ty == "Z" else ty
        parts.append("%sDefinition %s_q %s: %s := %s.\n" % (cm, name, args, ty, _emit_q(ast)))
        n += 1
    if n == 0:
        raise vlib.CheckError("rational reading: no kernel found in Src_c07.v")
    txt = "\n".join(parts)
    path = os.path.join(gen, "Src_c07_q.v")
    if not os.path.exists(path) or open(path).read() != txt:
        open(path, "w").write(txt)
    return n


def coq_side():
    """translator -> PrimFloat reading -> full Coq check"""
    import translate
    twin_err = None
    try:
        translate.run("C07")
    except translate.TranslateError:
        pass  # reported by coq_check below (same call, same error)
    try:
        gen_float_twin()
        gen_q_twin()
    except vlib.CheckError as ex:
        twin_err = str(ex)
    cres = vlib.coq_check("C07", targets=["theories/Extract_C07.vo", "theories/Extract_C07Q.vo", "theories/Properties_C07.vo"])
    if twin_err and cres["ok"]:
        cres["ok"] = False
        cres["broken"] = "float-reading:" + twin_err
    return cres


HARNESS = "c07_lsearch"
INIT_HARNESS = "c07_init"
QUAD_HARNESS = "c07_quad"
INIT_T0_FP = "C07-lsearch0-t0-not-finite-positive"
STALE_FP = "C07-success-with-stale-invalid-state"
CGHALF_FP = "C07-cgdescent-fails-on-quadratic-c1-ge-half"


def _build_qdriver():
    """QUAD stage: the extracted exact-rational model uses Zarith (ExtrOcamlZBigInt): private variant of vlib.build_ocaml (as C01Q / C09 /
    C14); the extracted module shadows Zarith's Z, which the driver reaches as ZZ (and Q as QQ)"""
    odir = os.path.join(vlib.WORK, "ocaml")
    os.makedirs(odir, exist_ok=True)
    exe = os.path.join(odir, "c07q_driver")
    model = os.path.join(vlib.COQ, "extracted", "c07q_model.ml")
    driver = os.path.join(vlib.ROOT, "ocaml", "c07q_driver.ml")
    with vlib.Lock("ocaml-c07q_driver"):
        srcs = [model, model + "i", driver]
        for x in srcs:
            if not os.path.exists(x):
                raise vlib.CheckError("missing %s (extraction failed?)" % x)
        if os.path.exists(exe) and all(os.path.getmtime(x) <= os.path.getmtime(exe) for x in srcs):
            return exe
        bd = os.path.join(odir, "c07q_driver.build")
        vlib.sh("rm -rf %s && mkdir -p %s" % (shlex.quote(bd), shlex.quote(bd)))
        for x in (model, model + "i"):
            vlib.sh("cp %s %s/" % (shlex.quote(x), shlex.quote(bd)))
        with open(os.path.join(bd, "driver_main.ml"), "w") as f:
            f.write("module ZZ = Z\nmodule QQ = Q\nopen C07q_model\n# 1 \"c07q_driver.ml\"\n")
            f.write(open(driver).read())
        cmd = "ocamlfind ocamlopt -O3 -w -a -package zarith -linkpkg c07q_model.mli c07q_model.ml driver_main.ml -o %s" % shlex.quote(exe)
        rc, out = vlib.sh(cmd, cwd=bd, timeout=600)
        if rc != 0:
            raise vlib.CheckError("ocaml build of c07q_driver failed:\n%s" % out[-3000:])
    return exe


def setup():
    vlib.build_harness(HARNESS, "rel", need_lib=True)
    vlib.build_harness(INIT_HARNESS, "rel", need_lib=True)
    vlib.build_harness(QUAD_HARNESS, "rel", need_lib=True)
    try:
        coq_side()
        vlib.build_ocaml("c07_driver", "c07_model.ml", "c07_driver.ml", floats=True)
        _build_qdriver()
    except (vlib.CheckError, OSError):
        pass


def _case_id(line):
    p = line.split(" ")
    return p[1] if len(p) > 1 else "?"


def _ls_line(exe, tier, seed, cid):
    """the LS line of one case (every case derives from VERIF_SEED and its index: re-run just that case)"""
    if not str(cid).isdigit():
        return ""
    rc, out = vlib.sh([exe, tier, str(cid)], timeout=300, env={"VERIF_SEED": str(seed)})
    for l in out.split("\n"):
        if l.startswith("LS "):
            return l[:8000]
    return ""


def _init_stage(r, tier, drv, candidates):
    """INIT stage: the step-length initialisers lsearch0_t and lsearch_t::get (harness/c07_init.cpp) replayed by the extracted
    state machine (lsearch0_get / lsearch_get of C07_Init_Defs.v): every t0 bit for bit over whole call sequences, the trial
    evaluation of lsearch0-cgdescent, and in mode comp the probes / ok / m_last_step_size of the composition"""
    exe = vlib.build_harness(INIT_HARNESS, "rel", need_lib=True)
    rundir = os.path.join(vlib.WORK, "c07")
    os.makedirs(rundir, exist_ok=True)
    out_path = os.path.join(rundir, "init-%d-%s.txt" % (r.seed, tier))
    drv_path = os.path.join(rundir, "initdrv-%d-%s.txt" % (r.seed, tier))
    rc, err = vlib.sh("%s %s > %s" % (shlex.quote(exe), shlex.quote(tier), shlex.quote(out_path)), timeout=3000,
                      env={"VERIF_SEED": str(r.seed)})
    fails, cands, done, hist, last, samples = [], [], [], "", [], []
    n_calls, n_ls = 0, 0
    nontriv = set()
    with open(out_path, errors="replace") as f:
        for l in f:
            l = l.rstrip("\n")
            if l.startswith("I0CALL "):
                n_calls += 1
                nontriv.add(vlib.sha(l.split(" ", 3)[3]))
                if len(samples) < 3:
                    samples.append(l[:400])
            elif l.startswith("I0LS "):
                n_ls += 1
            elif l.startswith("FAIL "):
                fails.append(l)
            elif l.startswith("CAND "):
                cands.append(l)
            elif l.startswith("I0HIST"):
                hist = l
            elif l.startswith("DONE "):
                done.append(l)
            last = (last + [l[:600]])[-4:]
    replay_cmd = lambda cid: "VERIF_SEED=%d %s %s %s" % (r.seed, exe, tier, cid)

    def case_of(cid):
        if not str(cid).isdigit():
            return ""
        rc_, out_ = vlib.sh([exe, tier, str(cid)], timeout=300, env={"VERIF_SEED": str(r.seed)})
        return "\n".join(x[:1200] for x in out_.split("\n") if x.startswith(("I0BEGIN", "I0CALL", "I0LS", "I0END")))[:6000]

    if rc != 0 or not done:
        r.violation("init-crash", {"kind": "INIT harness crashed / did not finish", "exit": rc, "stderr": err[-1500:], "last_lines": last,
                                   "replay_cmd": "VERIF_SEED=%d %s %s" % (r.seed, exe, tier)}, fingerprint="crash")
    for i, l in enumerate(fails[:3]):
        cid = _case_id(l)
        r.violation("init-impl-%d" % i, {"kind": "direct check of the step-length initialiser failed on the implementation (closed form from the previous "
                                                 "call's (fx, dg) / t0 in [0, 1] / evaluations / trial point / first trial point of lsearchk / step after a refusal)",
                                         "failure": l[:1500], "case": case_of(cid), "replay_cmd": replay_cmd(cid),
                                         "meaning": "I0BEGIN id mode kind(0 constant 1 linear 2 quadratic 3 cgdescent) desc | eps const_t0 lin_beta lin_alpha quad_beta quad_alpha "
                                                    "phi0 phi1 phi2 | lsearchk cfg ; I0CALL id i | last valid fx dg |x|inf |g|inf g.g | ntrial ftrial | nJ x_J d_J trial_J = t0 ; "
                                                    "I0LS id i | probes(valid,f,dg,x_J) = ok"})
    if cands:
        payload = {"kind": "lsearch0_t::get returned a step that is not finite and > 0 on a valid state along a descent direction (history of descent "
                           "directions); lsearchk_t::get's clamp to [stpmin, 1] hides it (C07_init_step_in_range)",
                   "cases": [l[:700] for l in cands[:5]], "count": len(cands), "first_case": case_of(_case_id(cands[0]))[:4000],
                   "replay_cmd": replay_cmd(_case_id(cands[0]))}
        if any(f.get("fingerprint") == INIT_T0_FP for f in r.kf):
            r.violation(INIT_T0_FP, payload, fingerprint=INIT_T0_FP)
        else:
            candidates.append(dict(payload, fingerprint=INIT_T0_FP))
    n_mism, checked, hists, init_done = 0, 0, {}, ""
    if drv:
        rc2, derr = vlib.sh("%s < %s > %s" % (shlex.quote(drv), shlex.quote(out_path), shlex.quote(drv_path)), timeout=3000)
        mism = []
        with open(drv_path, errors="replace") as f:
            for l in f:
                l = l.rstrip("\n")
                if l.startswith(("MISMATCH", "PROPFAIL")):
                    n_mism += 1
                    if len(mism) < 200:
                        mism.append(l)
                elif l.startswith("HIST "):
                    p = l.split(" ")
                    hists[p[1]] = {kv.rpartition("=")[0]: int(kv.rpartition("=")[2]) for kv in p[2:]}
                elif l.startswith("INIT-DONE"):
                    init_done = l
                elif l.startswith("MODEL-DONE"):
                    checked = int(l.split("checked=")[1].split()[0])
        if rc2 != 0 or not checked:
            r.violation("init-driver", {"kind": "model driver failed on the INIT stage", "out": derr[-2000:]}, no_input=True)
        prop = [l for l in mism if l.startswith("PROPFAIL")]
        corr = [l for l in mism if l.startswith("MISMATCH")]
        for i, l in enumerate(prop[:3]):
            cid = l.split(" ")[2] if len(l.split(" ")) > 2 else "?"
            r.violation("init-prop-%d" % i, {"kind": "a proved conclusion of the INIT stage (clamp(t0) in [stpmin, 1], composed evaluation bound) fails on the data "
                                                     "recorded from the implementation", "case": l[:3000], "block": case_of(cid), "replay_cmd": replay_cmd(cid)})
        for i, l in enumerate(corr[:3]):
            cid = l.split(" ")[2] if len(l.split(" ")) > 2 else "?"
            r.violation("init-corr-%d" % i, {"kind": "model/implementation disagreement (INIT stage, bit-exact replay of the lsearch0 state machine / lsearch_t::get)",
                                             "case": l[:3000], "block": case_of(cid), "replay_cmd": replay_cmd(cid),
                                             "meaning": "the extracted lsearch0_get / lsearch_get, fed with the recorded view (fx, dg, norms), trial value and probe answers and "
                                                        "carrying m_prevf / m_prevdg / m_last_step_size itself, returns a different t0 / requests other points / hands on another step"},
                        no_input=not (fails or prop))
    for pth in (out_path, drv_path):
        try:
            os.remove(pth)
        except OSError:
            pass
    st = {}
    if done:
        for kv in done[-1].split()[1:]:
            k, _, v = kv.partition("=")
            st[k] = int(v) if v.isdigit() else v
    return {"calls": n_calls, "composed_line_searches": n_ls, "distinct_calls": len(nontriv), "correspondence_lines_checked": checked, "mismatches": n_mism,
            "impl_direct_failures": len(fails), "t0_not_finite_positive_on_valid_descent_states": len(cands), "harness_counts": st,
            "branch_histogram": {kv.rpartition("=")[0]: int(kv.rpartition("=")[2]) for kv in hist.split()[1:]},
            "t0_classes_by_kind(0 constant 1 linear 2 quadratic 3 cgdescent)": hists.get("init_t0_classes", {}), "driver": init_done, "samples": samples}


def _quad_stage(r, tier, cres):
    """QUAD stage: the real searches on 1-D convex quadratics with exactly representable data (harness/c07_quad.cpp): the proved
    closed-form regions / iteration bounds / CG_DESCENT secant step applied directly to the implementation (FAIL lines), and the
    extracted exact-rational model (C07_Quad_Defs.v over Zarith) compared with the library: exact agreement is demanded whenever every
    value of the run is a small dyadic (every binary64 operation exact), counted otherwise"""
    exe = vlib.build_harness(QUAD_HARNESS, "rel", need_lib=True)
    rundir = os.path.join(vlib.WORK, "c07")
    os.makedirs(rundir, exist_ok=True)
    out_path = os.path.join(rundir, "quad-%d-%s.txt" % (r.seed, tier))
    drv_path = os.path.join(rundir, "quaddrv-%d-%s.txt" % (r.seed, tier))
    rc, err = vlib.sh("%s %s > %s" % (shlex.quote(exe), shlex.quote(tier), shlex.quote(out_path)), timeout=3000,
                      env={"VERIF_SEED": str(r.seed)})
    fails, done, last, samples = [], [], [], []
    n_runs = 0
    nontriv = set()
    with open(out_path, errors="replace") as f:
        for l in f:
            l = l.rstrip("\n")
            if l.startswith("QUAD "):
                n_runs += 1
                nontriv.add(vlib.sha(l.split(" ", 2)[2]))
                if len(samples) < 3:
                    samples.append(l[:400])
            elif l.startswith("FAIL "):
                fails.append(l)
            elif l.startswith("DONE "):
                done.append(l)
            last = (last + [l[:600]])[-4:]
    replay_cmd = lambda cid: "VERIF_SEED=%d %s %s %s" % (r.seed, exe, tier, cid)

    def case_of(cid):
        if not str(cid).isdigit():
            return ""
        rc_, out_ = vlib.sh([exe, tier, str(cid)], timeout=300, env={"VERIF_SEED": str(r.seed)})
        return "\n".join(x[:3000] for x in out_.split("\n") if x.startswith("QUAD "))[:4000]

    meaning = ("QUAD id | alg(0 backtrack 1 lemarechal 2 fletcher 3 morethuente 4 cgdescent) max_iterations interpolation(0 bisection 1 quadratic 2 cubic) "
               "c1 c2 safeguard tau1 tau2 tau3 cg_epsilon | f0 g0 a t0 (phi(t) = f0 + g0 t + a/2 t^2, x0 = 0, d = 1) | ok t | probes t,f,dg")
    if rc != 0 or not done:
        r.violation("quadx-crash", {"kind": "QUAD harness crashed / did not finish", "exit": rc, "stderr": err[-1500:], "last_lines": last,
                                    "replay_cmd": "VERIF_SEED=%d %s %s" % (r.seed, exe, tier)}, fingerprint="crash")
    for i, l in enumerate(fails[:3]):
        cid = _case_id(l)
        r.violation("quadx-impl-%d" % i, {"kind": "a statement PROVED for the exact-arithmetic model on convex quadratics (closed-form acceptance region / iteration bound "
                                                  "of backtrack or lemarechal / first secant step of CG_DESCENT = exact minimiser) fails on the implementation, "
                                                  "with a 1e-6 relative margin for binary64 rounding", "failure": l[:1500], "case": case_of(cid),
                                          "replay_cmd": replay_cmd(cid), "meaning": meaning})
    n_mism, checked, hist, model_done = 0, 0, {}, ""
    drv = None
    try:
        drv = _build_qdriver()
    except (vlib.CheckError, OSError):
        if cres["ok"]:
            raise
    if drv:
        rc2, derr = vlib.sh("%s < %s > %s" % (shlex.quote(drv), shlex.quote(out_path), shlex.quote(drv_path)), timeout=3000)
        mism = []
        with open(drv_path, errors="replace") as f:
            for l in f:
                l = l.rstrip("\n")
                if l.startswith(("MISMATCH", "PROPFAIL")):
                    n_mism += 1
                    if len(mism) < 200:
                        mism.append(l)
                elif l.startswith("HIST "):
                    p = l.split(" ")
                    hist = {kv.rpartition("=")[0]: int(kv.rpartition("=")[2]) for kv in p[2:]}
                elif l.startswith("MODEL-DONE"):
                    model_done = l
                    checked = int(l.split("checked=")[1].split()[0])
        if rc2 != 0 or not checked:
            r.violation("quadx-driver", {"kind": "exact-rational model driver failed on the QUAD stage", "out": derr[-2000:]}, no_input=True)
        prop = [l for l in mism if l.startswith("PROPFAIL")]
        corr = [l for l in mism if l.startswith("MISMATCH")]
        for i, l in enumerate(prop[:3]):
            cid = l.split(" ")[2] if len(l.split(" ")) > 2 else "?"
            r.violation("quadx-prop-%d" % i, {"kind": "a proved iteration bound / region / secant statement of C07_Quad.v, evaluated in exact arithmetic by the extracted bound "
                                                      "functions, fails on the library's run although every value of the run is exactly representable",
                                              "case": l[:3000], "replay_cmd": replay_cmd(cid), "meaning": meaning})
        for i, l in enumerate(corr[:3]):
            cid = l.split(" ")[2] if len(l.split(" ")) > 2 and l.split(" ")[1] == "QUAD" else "?"
            r.violation("quadx-corr-%d" % i, {"kind": "exact-rational model / implementation disagreement on a run whose every value is exactly representable in binary64 "
                                                      "(same probes, same (ok, t) demanded)", "case": l[:3000], "replay_cmd": replay_cmd(cid), "meaning": meaning},
                        no_input=not (fails or prop))
    for pth in (out_path, drv_path):
        try:
            os.remove(pth)
        except OSError:
            pass
    st = {}
    if done:
        for kv in done[-1].split()[1:]:
            k, _, v = kv.partition("=")
            st[k] = int(v) if v.isdigit() else v
    cert = sum(v for k, v in hist.items() if k.startswith("qagree:certified_"))
    unc_agree = sum(v for k, v in hist.items() if k.startswith("qagree:uncertified_agree_"))
    unc_other = sum(v for k, v in hist.items() if k.startswith("qagree:uncertified_") and not k.startswith("qagree:uncertified_agree_"))
    return {"runs": n_runs, "distinct_runs": len(nontriv), "correspondence_lines_checked": checked, "mismatches": n_mism, "impl_direct_failures": len(fails),
            "harness_counts": st, "driver_histogram": hist, "driver": model_done,
            "exact_model_vs_library(backtrack/lemarechal/fletcher)": {"certified_exact_and_equal(demanded)": cert, "uncertified_but_identical": unc_agree,
                                                                      "uncertified_differing(rounding)": unc_other},
            "samples": samples}


def run(tier, replay=None):
    r = vlib.Run("C07", tier)
    # 2. Coq: translated kernels (+ PrimFloat reading) + theorems (+ extraction target, built even if a proof breaks)
    cres = coq_side()
    # 1./3. implementation run (output streamed through a file: thorough runs print several hundred MB)
    exe = vlib.build_harness(HARNESS, "rel", need_lib=True)
    env = {"VERIF_SEED": str(r.seed)}
    rundir = os.path.join(vlib.WORK, "c07")
    os.makedirs(rundir, exist_ok=True)
    out_path = os.path.join(rundir, "run-%d-%s.txt" % (r.seed, tier))
    drv_path = os.path.join(rundir, "drv-%d-%s.txt" % (r.seed, tier))
    rc, err = vlib.sh("%s %s > %s" % (shlex.quote(exe), shlex.quote(tier), shlex.quote(out_path)), timeout=3000, env=env)
    done, impl_fail, qfail, cand, stats, samples, last = [], [], [], [], [], [], []
    n_ls, n_interp, n_ok = 0, 0, 0
    nontriv = set()
    with open(out_path, errors="replace") as f:
        for l in f:
            l = l.rstrip("\n")
            if not l:
                continue
            if l.startswith("LS "):
                n_ls += 1
                if " | - = " not in l:
                    nontriv.add(vlib.sha(l.split(" ", 2)[2]))   # distinct runs (id removed) that evaluated the objective
                    if " = 1 " in l[-40:]:
                        n_ok += 1
                if len(samples) < 3:
                    samples.append(l[:400])
            elif l.startswith("INTERP "):
                n_interp += 1
            elif l.startswith("FAIL "):
                impl_fail.append(l)
            elif l.startswith("QFAIL "):
                qfail.append(l)
            elif l.startswith("CAND "):
                cand.append(l)
            elif l.startswith("STATS "):
                stats.append(l)
            elif l.startswith("DONE "):
                done.append(l)
            last = (last + [l[:600]])[-4:]
    replay_cmd = lambda cid: "VERIF_SEED=%d %s %s %s" % (r.seed, exe, tier, cid)
    ls_of = lambda cid: _ls_line(exe, tier, r.seed, cid)
    if rc != 0 or not done:
        r.violation("crash", {"kind": "harness crashed / did not finish (signal, exception or sanitizer report)", "exit": rc,
                              "stderr": err[-1500:], "last_lines": last,
                              "replay_cmd": "VERIF_SEED=%d %s %s" % (r.seed, exe, tier)}, fingerprint="crash")
    # 5. direct search: the property's own oracle on the implementation (independent of the model)
    for i, l in enumerate(impl_fail[:3]):
        cid = _case_id(l)
        r.violation("impl-%d" % i, {"kind": "direct property check failed on the implementation", "failure": l[:1500],
                                    "case": ls_of(cid), "replay_cmd": replay_cmd(cid),
                                    "meaning": "LS line = id function | alg maxit interp c1 c2 safeguard tau1 tau2 tau3 delta cg_eps cg_theta "
                                               "cg_gamma cg_ro | valid0 f0 dg0 t0 | nJ x0_J d_J | probes(valid,f,dg,x_J) = ok t"})
    for i, l in enumerate(qfail[:3]):
        cid = _case_id(l)
        r.violation("quad-%d" % i, {"kind": "convex quadratic objective inside the demanded domain: the line-search failed or "
                                            "accepted a step violating its advertised conditions", "failure": l[:1500],
                                    "case": ls_of(cid), "replay_cmd": replay_cmd(cid)})
    # candidate findings of the unchanged code (see notes/C07.md): gating only once listed in known_findings.json
    candidates = []
    for fp, sel, what in (
            (STALE_FP, [l for l in cand if "kind=stale-invalid-state" in l],
             "success reported with an invalid state that is not the evaluation at the returned step: the initial `*0.3` loop "
             "of lsearchk_t::get used up max_iterations on invalid trial points and do_get accepted the stale state"),
            (CGHALF_FP, [l for l in cand if "kind=cgdescent-c1-ge-half" in l],
             "CG_DESCENT fails (honestly) on a convex quadratic when c1 >= 1/2 although the parameter domain allows it")):
        if not sel:
            continue
        payload = {"kind": what, "cases": [l[:800] for l in sel[:5]], "count": len(sel),
                   "first_case": ls_of(_case_id(sel[0]))[:4000], "replay_cmd": replay_cmd(_case_id(sel[0]))}
        if any(f.get("fingerprint") == fp for f in r.kf):
            r.violation(fp, payload, fingerprint=fp)
        else:
            candidates.append(dict(payload, fingerprint=fp))
    # 3./4. correspondence with the extracted model (bit-exact replay of every recorded run)
    mism, checked = [], 0
    drv = None
    try:
        drv = vlib.build_ocaml("c07_driver", "c07_model.ml", "c07_driver.ml", floats=True)
    except (vlib.CheckError, OSError):
        if cres["ok"]:
            raise
    if drv:
        rc2, derr = vlib.sh("%s < %s > %s" % (shlex.quote(drv), shlex.quote(out_path), shlex.quote(drv_path)), timeout=3000)
        n_mism = 0
        hists = {}
        evalb = {}
        with open(drv_path, errors="replace") as f:
            for l in f:
                l = l.rstrip("\n")
                if l.startswith(("MISMATCH", "PROPFAIL")):
                    n_mism += 1
                    if len(mism) < 200:
                        mism.append(l)
                elif l.startswith("EVALB "):
                    p = l.split(" ")
                    evalb[p[1]] = {kv.partition("=")[0]: float(kv.partition("=")[2]) if kv.startswith("max_ratio") else int(kv.partition("=")[2]) for kv in p[2:]}
                elif l.startswith("HIST "):
                    p = l.split(" ")
                    hists[p[1]] = {kv.rpartition("=")[0]: int(kv.rpartition("=")[2]) for kv in p[2:]}
                elif l.startswith("MODEL-DONE"):
                    checked = int(l.split("checked=")[1].split()[0])
        if rc2 != 0 or not checked:
            r.violation("driver", {"kind": "model driver failed", "out": derr[-2000:]}, no_input=True)
        prop = [l for l in mism if l.startswith("PROPFAIL")]
        corr = [l for l in mism if l.startswith("MISMATCH")]
        for i, l in enumerate(prop[:3]):
            cid = l.split(" ")[2] if l.split(" ")[1] == "LS" else "?"
            r.violation("prop-%d" % i, {"kind": "the proved conclusion (advertised predicates on the last probe / refusal / More-Thuente and CG_DESCENT success cases) fails on the "
                                                "data recorded from the implementation", "case": l[:6000], "replay_cmd": replay_cmd(cid)})
        for i, l in enumerate(corr[:3]):
            p = l.split(" ")
            cid = p[2] if p[1] == "LS" else "?"
            # the tie is broken: the implementation no longer behaves like the proved model on this input. It is a
            # property violation with a concrete input only if the direct oracle also failed (on this or another case).
            r.violation("corr-%d" % i, {"kind": "model/implementation disagreement (bit-exact replay)", "case": l[:6000],
                                        "replay_cmd": replay_cmd(cid) if cid != "?" else "VERIF_SEED=%d %s %s | grep '^%s'" % (r.seed, exe, tier, p[1]),
                                        "meaning": "the extracted model, fed with the recorded (valid, f, dg) answers, requests different "
                                                   "steps or returns a different (ok, t) than the library"},
                        no_input=not (impl_fail or qfail or prop))
    else:
        n_mism = 0
        hists = {}
        evalb = {}
    init_cov = _init_stage(r, tier, drv, candidates)
    quad_cov = _quad_stage(r, tier, cres)
    for pth in (out_path, drv_path):       # several hundred MB in the thorough tier; every replay_cmd regenerates its case
        try:
            os.remove(pth)
        except OSError:
            pass
    vlib.handle_coq_failure(r, cres)
    vlib.proof_coverage(r, cres, "make -C coq theories/Properties_C07.vo && coqc theories/Properties_C07.v (Print Assumptions)",
                        ["tools/translate.py (98 kernels of state.cpp/state.h/lstep.cpp/lsearchk.cpp/morethuente.cpp/cgdescent.cpp and, INIT stage, src/lsearch0.cpp, src/lsearch0/{constant,linear,quadratic,cgdescent}.{cpp,h}, solver/lsearch.h) + structural PrimFloat reading (tools/checks/c07.py: gen_float_twin; std::min/std::max as libstdc++ defines them)",
                         "INIT stage: hand-written control flow of the four lsearch0_t::get and of lsearch_t::get in C07_Init_Defs.v (tied by the bit-exact replay of every recorded call sequence); harness/c07_init.cpp (recording lsearch0_t wrapper, states injected through solver_state_t::update(x, gx, fx)); |x|_inf, |g|_inf, g.g taken from the run",
                         "Coq primitive floats = IEEE-754 binary64 of the host (PrimFloat.* in Print Assumptions)",
                         "extraction: ExtrOcamlBasic, ExtrOCamlFloats (coq-core.kernel Float64)",
                         "hand-written control flow of the five searches in C07_Defs.v (tied by the bit-exact replay of every run)",
                         "ocaml/c07_driver.ml, harness/c07_lsearch.cpp (recording function_t), g++ -O2 (no -ffast-math, no FMA)",
                         "QUAD stage: exact-rational reading of the kernels (tools/checks/c07.py: gen_q_twin), hand-written control flow of C07_Quad_Defs.v (tied to the library on the exactly representable family), Extract_C07Q.v (ExtrOcamlZBigInt, Z.ggcd -> Zarith gcd), ocaml/c07q_driver.ml (certification rule: all values small dyadics), harness/c07_quad.cpp"])
    cov = r.coverage
    st = {}
    if done:
        for kv in done[-1].split()[1:]:
            k, _, v = kv.partition("=")
            try:
                st[k] = int(v)
            except ValueError:
                st[k] = v
    cov["evaluations"] = n_ls + n_interp
    cov["correspondence_lines_checked"] = checked
    cov["distinct_nontrivial"] = len(nontriv)
    cov["rule"] = ("one evaluation = one lsearchk_t::get run (objective x x0 x direction x t0 x configuration) or one interpolation call; "
                   "non-trivial = distinct run (id removed) in which the objective was evaluated at least once (refusals are trivial)")
    cov["harness_counts"] = st
    cov["stats"] = stats
    cov["successful_runs"] = n_ok
    # every successful More-Thuente / CG_DESCENT run of the library classified into the disjuncts of
    # C07_morethuente_success_cases / C07_cgdescent_success_cases (exit taken = first true test in source order; NONE = violation)
    # C07_evaluations_bounded on every recorded run: largest observed evaluations / proved bound per line-search
    cov["evaluations_vs_bound"] = evalb
    for h in ("mt_success_cases", "mt_success_flags", "cg_success_cases", "cg_success_flags"):
        cov[h] = hists.get(h, {})
    cov["mismatches"] = n_mism + init_cov["mismatches"]
    cov["impl_direct_failures"] = len(impl_fail) + len(qfail) + init_cov["impl_direct_failures"]
    cov["init_stage"] = init_cov
    cov["evaluations"] += init_cov["calls"]
    cov["distinct_nontrivial"] += init_cov["distinct_calls"]
    cov["correspondence_lines_checked"] += init_cov["correspondence_lines_checked"]
    cov["quad_stage"] = quad_cov
    cov["mismatches"] += quad_cov["mismatches"]
    cov["impl_direct_failures"] += quad_cov["impl_direct_failures"]
    cov["evaluations"] += quad_cov["runs"]
    cov["distinct_nontrivial"] += quad_cov["distinct_runs"]
    cov["correspondence_lines_checked"] += quad_cov["correspondence_lines_checked"]
    cov["candidate_findings"] = candidates
    cov["samples"] = samples
    cov["unproved_clauses_searched"] = [
        "success => t finite and > 0 (false of the model at full strength: C07_step_positive_refuted; direct oracle on every successful run)",
        "success => the state is valid and is the evaluation at x0+t*d for LeMarechal/Fletcher/More-Thuente (needs the validity guard: "
        "C07_state_at_step_refuted; direct oracle recomputes f, g at x0+t*d from the user function)",
        "on convex quadratics all five searches succeed and satisfy their advertised conditions (floating-point success claim; demanded for "
        "valid origin, t0 in [1e-3,1e3] or non-finite, default method parameters, max_iterations >= 100, c1 <= 0.99, exact minimiser along d in [1e-10,1e10], and c1 < 1/2 for CG_DESCENT)",
        "advertised conditions in real arithmetic 'up to rounding' (oracle recomputes them in long double with a 2^-50 relative slack)",
        "More-Thuente / CG_DESCENT: strong Wolfe / (approximate) Wolfe on EVERY success is false (C07_morethuente_exits_reachable, "
        "C07_cgdescent_exits_reachable); what is proved is the exact case split, and every successful run is classified into it "
        "(mt_success_cases, cg_success_cases); CG_DESCENT's sub-case a.f > f0 + epsilon_k is believed unreachable (a only holds points "
        "with approximate Armijo), not proved"]
    cov["unproved_clauses_searched"] += [
        "INIT: lsearch0_t::get returns a finite step > 0 on a valid state along a descent direction (false at full strength: "
        "C07_init_t0_finite_positive_refuted, witnesses reproduced on the library; every recorded call is classified, violations on valid "
        "descent states are the candidate finding " + INIT_T0_FP + "; proved instead: 0 <= t0 <= 1 for linear / quadratic, and "
        "clamp(t0) in [stpmin, 1] for every t0)",
        "INIT: 0 < |g|_inf and 0 < g.g for a descent direction (facts about the Eigen reductions, hypotheses of C07_init_cgdescent_first_nonneg)"]
    cov["unproved_clauses_searched"] += [
        "QUAD: the success clause on binary64 (the theorems of C07_Quad.v are exact-arithmetic statements; rounding can flip a decision at a region "
        "boundary): the proved regions / iteration bounds are checked on the real searches with a 1e-6 relative margin, exact agreement with the "
        "rational model is demanded only on runs whose every value is exactly representable",
        "QUAD: fletcher (do_get + zoom) and More-Thuente succeed on the exactly representable quadratics with max_iterations >= 128 (no success theorem: "
        "the zoom invariant is not mechanised; fletcher's exact model is compared with the library); CG_DESCENT beyond its first secant step",
        "QUAD: sharp iteration bound for cubic interpolation (needs the exactness of sqrt on rational squares)"]
    cov["excluded_inputs"] = ["max_iterations < 100, c1 > 0.99, non-default method parameters, t0 outside [1e-3,1e3] (finite), exact minimiser along d outside "
                              "[1e-10,1e10] (the searches are confined to [stpmin,stpmax]), c1 >= 1/2 with CG_DESCENT: "
                              "success on quadratics not demanded (correspondence and the success-implies-conditions oracle still apply)"]
    r.assumptions = ["x86-64 SSE2 scalar double arithmetic = PrimFloat; Eigen reductions (g.dot(d)) are taken from the run as oracle answers",
                     "the objective is evaluated only through function_t::vgrad (recorded); constraints are absent",
                     "max_iterations >= 1 (parameter domain)",
                     "INIT: lsearch0 only reads state.fx(), state.dg(descent), state.x().lpNorm<Inf>(), state.gx().lpNorm<Inf>(), state.gx().squaredNorm() "
                     "and evaluates the objective through function_t::vgrad (recorded)"]
    return r.finish("proof")
