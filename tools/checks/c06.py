"""C06 -- values, gradients and convexity flags of benchmark functions, losses, constraints and ML objectives are truthful
(Coq theorems over R about a model written once over an abstract scalar structure, whose exact-rational instance is extracted and
compared with the library; declared flags re-parsed from the source on every run and matched against the theorem table; direct
oracles on the implementation: central differences, value-only == value+gradient, (strong) convexity inequality with hill-climbing,
loss locality / non-negativity / decision rule)."""
import collections
import json
import os
import re
import shlex
import vlib


MANIFEST = dict(
    text=("Coq theorems (real numbers) about a model written once over an abstract scalar structure: per-coefficient loss kernels "
          "(mse, mae, hinge, squared-hinge, pinball as Eigen evaluates them, incl. the values returned on the kinks; exponential, "
          "logistic, cauchy, savage, tangent as real specifications), the error rules, the closed-form benchmark functions and the "
          "ball / linear constraints. For every modelled object that the SOURCE declares convex -- 7 loss kernels, sphere, axis "
          "ellipsoid, schumer-steiglitz, chung-reynolds, sargan, zakharov, chained_lq, chained_cb3I/II, exponential, ball and linear "
          "constraints -- "
          "the sub-gradient inequality f(z) >= f(x) + g(x).(z-x) + mu/2 |z-x|^2 with the declared coefficient for all x, z; witnesses "
          "that qing, styblinski-tang, rosenbrock, dixon-price (declared non-convex) are not convex; chained_cb3I and chained_cb3II "
          "with the tie rule of the source (gradient of an active piece; the pre-fix rule is refuted on the tie (2,-3)); Coquelicot derivatives of the smooth loss kernels, lifted "
          "to whole samples along every direction, and of the separable polynomial functions; loss values are non-negative, a "
          "sample's loss depends on its own row only, the 0-1 errors equal the first-arg-max / sign decision rule. The convex / "
          "smooth / strong-convexity declarations of 52 objects (24 benchmark sources, 5 elastic-net losses, 11 loss kernels + "
          "pinball, 5 constraint families, 6 ML objectives) and the matrix whose eigenvalues nano::convex(P) / strong_convexity(P) "
          "inspect are re-parsed from the working tree on every run into a Coq table; "
          "every theorem carries the declaration it justifies, so a changed flag breaks the proof side. Q2R is proved to be a homomorphism of the scalar "
          "structure (order embedding), hence Q2R (obj Qops q) = obj Rops (map Q2R q) for every loss kernel, error rule, algebraic "
          "benchmark function and constraint of the shared model (C06_model_transfer): the theorems over R apply verbatim to the "
          "extracted instance on the doubles the driver sees. The exact-rational instance "
          "of the same definitions is extracted and compared with the library on the doubles it saw (1e-9 of the summed "
          "magnitudes; 0-1 errors and sizes exactly); independent C++ oracles (central differences along random and coordinate "
          "directions, one-sided quotients at kinks, value-only == value+gradient, convexity inequality with hill-climbing on the "
          "violation, batch == one-by-one, decision rules) run on all 48 prototypes, 17 losses, 11 constraint kinds (incl. "
          "non-symmetric quadratic forms) and the linear / gboost / surrogate objectives over random datasets and produce the "
          "concrete failing input. Transcendental objects (logistic, exponential, cauchy, savage, tangent, class-NLL losses; exponential "
          "and cauchy functions): per-run kernel-checked interval enclosures of the transcendental specs at sampled points "
          "(|spec(exact dyadic inputs) - returned double| <= 1e-11 * (1 + sum |terms|), one CoqInterval lemma per number, ~190 quick / "
          "~2000 thorough) -- validation at sampled points, not the unbounded claim. "
          "EXTENSION (C06_Convex2_Defs.v / C06_Convex2.v, 17 more theorems, stage `ext` of harness and driver): log-sum-exp is convex with "
          "gradient soft-max; the gradient the class-NLL code computes (shift by the largest output) IS soft-max minus the label indicator; the "
          "value the code computes (epsilon inside the logarithm) lies in [ideal, ideal + ln(1+eps)] and satisfies the sub-gradient inequality up "
          "to the slack ln(1+eps) <= eps, while the EXACT inequality is refuted for the code's formula (witness at 4.8e-33, kernel-checked with "
          "CoqInterval; below binary64 resolution, not observable on the library). Exact second-order expansions (gradient = derivative) for "
          "trid (remainder d'Td, 2 d'Td = d_1^2 + sum (d_{i+1}-d_i)^2 + d_n^2), the rotated ellipsoid (remainder f(z-x)), fn:quadratic "
          "x.(a + 1/2 A x) for symmetric A (the constructor's I + B B' is proved symmetric with Rayleigh quotient >= 1), the quadratic "
          "constraint with ANY square P (gradient 1/2 (P+P')x + q; mu-strongly convex <=> mu bounds d'Pd/d'd, i.e. the symmetric part decides), "
          "the coordinate constraints; a general lemma for pointwise maxima with the gradient of the FIRST largest piece (the rule of "
          "maxCoeff / the strict `>` loop of maxquad, pinned by translated kernels) with the instances maxq, maxhilb (any matrix, sign(0) = +1, "
          "weights 1/(i+j+1) from a translated kernel), maxquad (symmetric psd pieces), kinks (sum of |x - K_i|_1), geometric optimisation; "
          "empirical risks mean_i L(t_i, M_i x + c_i) through per-sample affine maps with gradient mean_i M_i' G (chain rule by the adjoint "
          "<A'y, x> = <y, Ax>) for every loss convex in its outputs (all coefficient-wise kernels with a tangent inequality, class-NLL): the "
          "linear-model objective with the weighted l1 / l2 regulariser and the guards `> 0.0` of the source (translated) is convex in (W, b) "
          "and satisfies the declared l2/(isize*tsize) for pairs that move the weights only -- and NOT for a pair that moves the bias only "
          "(the known finding restated as a theorem with the probe's data); gboost bias / scale; elastic-net objectives are alpha2-strongly "
          "convex as declared. The new exact-rational instances are compared with the library on every run (QF CQ KK LM GB GS EN lines and more "
          "FN lines aimed at exact ties; geometric optimisation through interval lemmas), with new direct oracles for the proved clauses "
          "(`expansion`: f(z)-f(x)-g.(z-x) == the remainder of the theorem computed independently; `active-piece`: first largest piece and "
          "sub-gradient on exact ties; `classnll-softmax`: gradient == soft-max - indicator, value within eps of lse - posum in long double). "
          "SECOND EXTENSION (C06_Rest_Defs.v / C06_Rest.v, 11 more theorems, stage `rest`): every one of the 54 declared objects now has the theorem its "
          "declaration calls for. Full Taylor expansions along every line, f(x + s d) = f(x) + s g(x).d + s^2 R2 + s^3 R3 + s^4 R4 for all real s with "
          "executable coefficient functions (so gradient = derivative and the remainder is explicit), by induction over the coordinate list / chain / "
          "blocks of four, for schumer-steiglitz, styblinski-tang, qing, axis ellipsoid, chung-reynolds, sargan, zakharov, rosenbrock, dixon-price and "
          "powell (newly modelled; its linear forms and gradient combinations are translated kernels); Coquelicot derivatives along every direction for "
          "exponential, cauchy, geometric optimisation, the three pieces of chained CB3 and the chain sums of CB3 II; witnesses for the objects declared "
          "non-convex (cauchy function, cauchy / savage / tangent kernels, elastic-net cauchy loss, the surrogate with model (0,0,-1)) -- and powell, declared "
          "non-convex, is PROVED convex (pessimistic declaration); functional constraints forward value, gradient and flags (translated kernels) so that "
          "they are convex whenever the wrapped function is; the gboost grads objective mean_i L(t_i, x_i) over the concatenated outputs and the surrogate "
          "FIT objective sum_i L(y_i, phi(p_i).x) are convex for every convex loss (declarations forward loss.convex(): translated); the quadratic surrogate "
          "m.phi(x) has an exact expansion with the gradient loops of the source; maxquad AS CONSTRUCTED: the fill of the source (mirrored off-diagonal "
          "entries, diagonal = own non-negative term + sum of |off-diagonal| of the row; index expressions translated) yields symmetric positive "
          "semi-definite pieces for ANY entries (iterated border decomposition), hence function_maxquad_t is convex unconditionally. Tie: FX SG SF GG MQ lines "
          "(exact-Q instance vs the library on dyadic points, incl. the remainder f(x+d)-f(x)-g.d of the implementation against the polynomial of the theorem), "
          "interval lemmas for single maxquad entries, new direct oracles `taylor` (five-point stencil, exact for quartics: derivative == g.d to rounding; fifth "
          "difference == 0), `psd-piece` (x.g - f >= 0 for the active piece), `forwarding` (functional constraint == wrapped function, bit for bit)."),
    note=("Coq kernel + standard real-number axioms + Coquelicot + CoqInterval (per-run lemmas, Qed-checked); regular-expression flag parser and translator (6 size kernels + the 4 branch tests of chained_cb3I/II) in "
          "tools/; extraction (ExtrOcamlBasic, exact Q); harness against the library built from the working tree + OCaml driver; "
          "floating-point rounding is outside the theorems (compared within 1e-9 / searched with tolerances); objects without a "
          "convexity theorem (after the extension: functional constraints, gboost-grads, the surrogate objectives, powell; cauchy / savage / "
          "tangent are declared non-convex) are searched only; directed probes (exact cb3 "
          "ties, non-symmetric P) guard the fixes 114b02b / 3feb922; one known finding (linear strong convexity ignores the "
          "unregularised bias, notes/C06.md; now also the theorem C06_ml_linear_strong_convexity_in_bias_refuted). Extension: 4 more translated "
          "kernels (maxhilb denominator, maxquad loop test, the two regularisation guards of linear/function.cpp), each pinned by a theorem; "
          "the Q->R transfer theorem covers the first-build objects only -- the new objects are the same polymorphic definitions instantiated at "
          "Qops (extracted, compared with the library) and Rops (theorems); hypotheses that are NOT tied to the library: symmetry / positive "
          "semi-definiteness of the maxquad matrices (built from exp/cos/sin in the constructor; maxquad has a theorem but no model tie), "
          "`least eigenvalue of the symmetric part is a Rayleigh lower bound` (spectral theorem, not proved: the ext stage checks the declared "
          "coefficient against d'Pd/d'd on its pairs); the random data of fn:quadratic / kinks / geometric / elastic net are re-drawn by the "
          "harness with the constructor's public calls (fn:quadratic additionally reads the matrix off the gradient and compares it with I + B B'). "
          "Second extension: 19 more translated kernels in their own group Src_c06rest.v (flag forwarding of functional constraints / gboost grads / surrogate fit, "
          "maxquad index expressions and loop bounds, powell's linear forms and gradient combinations, the surrogate's inner loop bound), each pinned by a theorem; "
          "maxquad's transcendental ENTRIES (exp/cos/sin) are recomputed by the harness with the constructor's formulas (tied to the real specification by per-run "
          "interval lemmas and to the library through the MQ value / gradient lines) -- the theorem holds for any entries; after this round no declared object "
          "is without a theorem (objects_without_theorem = []); still only searched: squared-hinge gradient = derivative (C1, piecewise), the spectral fact "
          "`least eigenvalue = Rayleigh bound`, value-only == value+gradient, locality on the implementation, floating-point distance to the model."),
    technique="Coq proof over R of a model shared with its extracted exact-rational instance (proved Q->R transfer), source-parsed "
              "declaration table, differential correspondence, per-run kernel-checked interval enclosures of the transcendental specs "
              "at sampled points (validation at sampled points, not the unbounded claim), direct property oracles on the implementation",
    design="DESIGN.md section 2, C06")

VARIANTS = ["rel"]
# lines the extracted model recomputes (SIZE LV FN CN: first build; QF CQ KK LM GB GS: extension stage `ext`, C06_Convex2_Defs.v); GE lines
# (geometric optimisation) go through the per-run interval lemmas
# second extension (stage `rest`, C06_Rest_Defs.v): FX SG SF GG MQ are recomputed by the extracted model; ME MD MB (single entries of maxquad's
# matrices / vectors as the harness recomputes them with the constructor's formulas) go through interval lemmas
TIE_PREFIXES = ("SIZE ", "LV ", "FN ", "CN ", "QF ", "CQ ", "KK ", "LM ", "GB ", "GS ", "EN ", "GE ", "FX ", "SG ", "SF ", "GG ", "MQ ", "ME ", "MD ", "MB ")
EXT_CLAUSES = ("expansion", "active-piece", "classnll-softmax", "taylor", "psd-piece", "forwarding")
REST_CLAUSES = ("taylor", "psd-piece", "forwarding")      # clauses of the stage `rest` (replay: c06_objects <tier> rest)

# object of the declaration table -> theorem(s) of Properties_C06.v that justify its `convex` declaration (or refute convexity)
OBJECT_THEOREMS = {
    "loss:mse": "C06_loss_mse_convex", "loss:mae": "C06_loss_mae_convex", "loss:hinge": "C06_loss_hinge_convex",
    "loss:squared-hinge": "C06_loss_squared_hinge_convex", "loss:pinball": "C06_loss_pinball_convex",
    "loss:exponential": "C06_loss_exponential_convex", "loss:logistic": "C06_loss_logistic_convex",
    "loss:classnll": "C06_loss_classnll_convex",
    "fn:sphere": "C06_fn_sphere_convex", "fn:axis-ellipsoid": "C06_fn_axis_ellipsoid_convex", "fn:schumer-steiglitz": "C06_fn_schumer_steiglitz_convex",
    "fn:chung-reynolds": "C06_fn_chung_reynolds_convex", "fn:sargan": "C06_fn_sargan_convex", "fn:zakharov": "C06_fn_zakharov_convex",
    "fn:chained_lq": "C06_fn_chained_lq_convex", "fn:exponential": "C06_fn_exponential_convex", "fn:chained_cb3I": "C06_fn_chained_cb3I_convex",
    "fn:chained_cb3II": "C06_fn_chained_cb3II_convex", "fn:qing": "C06_fn_qing_declared_nonconvex",
    "fn:styblinski-tang": "C06_fn_styblinski_tang_declared_nonconvex", "fn:rosenbrock": "C06_fn_rosenbrock_declared_nonconvex",
    "fn:dixon-price": "C06_fn_dixon_price_declared_nonconvex",
    "fn:trid": "C06_fn_trid_convex", "fn:rotated-ellipsoid": "C06_fn_rotated_ellipsoid_convex", "fn:quadratic": "C06_fn_quadratic_convex",
    "fn:maxq": "C06_fn_maxq_convex", "fn:maxhilb": "C06_fn_maxhilb_convex", "fn:kinks": "C06_fn_kinks_convex", "fn:maxquad": "C06_fn_maxquad_convex",
    "fn:geometric-optimization": "C06_fn_geometric_convex", "fn:enet": "C06_fn_elastic_net_convex",
    "enet-loss:mse": "C06_fn_elastic_net_convex", "enet-loss:mae": "C06_fn_elastic_net_convex", "enet-loss:hinge": "C06_fn_elastic_net_convex",
    "enet-loss:logistic": "C06_fn_elastic_net_convex",
    "cons:euclidean_ball": "C06_cons_ball_convex", "cons:linear": "C06_cons_linear_affine", "cons:constant": "C06_cons_coordinate_affine",
    "cons:quadratic": "C06_cons_quadratic_convex", "util:convex(P)": "C06_cons_quadratic_convex", "util:strong_convexity(P)": "C06_cons_quadratic_convex",
    "ml:linear": "C06_ml_linear_convex (+ C06_ml_linear_strong_convexity_in_bias_refuted)", "ml:gboost-bias": "C06_ml_gboost_convex",
    "ml:gboost-scale": "C06_ml_gboost_convex",
    # second extension (C06_Rest): the table is complete
    "fn:powell": "C06_fn_powell_declared_nonconvex_is_convex (declared non-convex, proved CONVEX: the declaration is pessimistic)",
    "fn:cauchy": "C06_fn_cauchy_declared_nonconvex", "loss:cauchy": "C06_loss_declared_nonconvex", "loss:savage": "C06_loss_declared_nonconvex",
    "loss:tangent": "C06_loss_declared_nonconvex", "enet-loss:cauchy": "C06_loss_declared_nonconvex",
    "cons:functional": "C06_cons_functional_convex", "ml:gboost-grads": "C06_ml_gboost_grads_convex",
    "ml:quadratic-surrogate-fitting-function": "C06_ml_surrogate_fit_convex", "ml:quadratic-surrogate-function": "C06_ml_surrogate_quadratic",
}
OBJECT_THEOREMS["fn:maxquad"] = "C06_fn_maxquad_convex + C06_fn_maxquad_constructed_convex (the constructor's matrices are symmetric psd: unconditional)"
# gradient == derivative theorems (exact Taylor expansion along every line / Coquelicot is_derive), by object
DERIVATIVE_THEOREMS = {
    "C06_fn_polynomial_taylor": ["fn:schumer-steiglitz", "fn:styblinski-tang", "fn:qing", "fn:axis-ellipsoid", "fn:chung-reynolds", "fn:sargan", "fn:zakharov",
                                 "fn:rosenbrock", "fn:dixon-price", "fn:powell"],
    "C06_fn_transcendental_deriv": ["fn:exponential", "fn:cauchy", "fn:geometric-optimization", "fn:chained_cb3I (pieces)", "fn:chained_cb3II (pieces and chain sums)"],
    "C06_ml_surrogate_quadratic": ["ml:quadratic-surrogate-function"],
    "C06_fn_trid_convex / C06_fn_rotated_ellipsoid_convex / C06_fn_quadratic_convex / C06_fn_sphere_convex / C06_cons_*": ["exact second-order expansions of the first extension"],
    "C06_loss_kernels_deriv / C06_loss_deriv / C06_fn_separable_deriv": ["smooth loss kernels, whole samples, separable functions (first build)"]}
HARNESS = "c06_objects"

# Findings of the unchanged code (see notes/C06.md). LINEAR_FP is listed in known_findings.json (integrator decision): it is reported
# through r.violation(..., fingerprint=) => `KNOWN-FINDING:` line, exit 0. Were it removed from known_findings.json it would be
# reported under coverage.candidate_findings without failing. The two other candidates of the first build (chained_cb3 tie
# gradient, convexity of a non-symmetric P) were FIXED in /repo (114b02b, 3feb922): a hit is a plain violation again.
LINEAR_FP = "C06-linear-strong-convexity-ignores-unregularised-bias"
CANDIDATES = [LINEAR_FP]


# ------------------------------------------------------------------------------------------------
# declared flags, parsed from the working tree -> coq/generated/Src_c06_flags.v
# ------------------------------------------------------------------------------------------------
def _strip_comments(src):
    src = re.sub(r"//[^\n]*", "", src)
    return re.sub(r"/\*.*?\*/", "", src, flags=re.S)


def _norm(e):
    e = "".join(e.split())
    m = re.match(r"^(.*)\?(?:convexity|smoothness)::yes:(?:convexity|smoothness)::no$", e)
    if m:
        e = m.group(1)
        if e.startswith("(") and e.endswith(")") and e.count("(") == e.count(")") and ")" not in e[1:-1].split("(", 1)[0]:
            e = e[1:-1]
    e = e.replace("convexity::", "").replace("smoothness::", "").replace("function_t::", "")
    return {"true": "yes", "false": "no"}.get(e, e)


def _read(rel):
    path = os.path.join(vlib.REPO, rel)
    try:
        return _strip_comments(open(path).read())
    except OSError as ex:
        raise vlib.CheckError("flags: cannot read %s (%s)" % (rel, ex))


def _ctor_flags(chunk, what):
    def one(name):
        ms = re.findall(r"(?<![\w.>])(?:function_t::)?%s\(([^;]*)\);" % name, chunk)
        if len(ms) > 1:
            raise vlib.CheckError("flags: %s declares %s more than once" % (what, name))
        return _norm(ms[0]) if ms else ""
    return one("convex"), one("smooth"), one("strong_convexity")


def parse_flags():
    """{object: (convex, smooth, strong_convexity)} as normalised source expressions ('' = not declared: the defaults of
    function_t are convexity::no / smoothness::no / 0)"""
    flags = {}
    bdir = os.path.join(vlib.REPO, "src/function/benchmark")
    try:
        files = sorted(f for f in os.listdir(bdir) if f.endswith(".cpp"))
    except OSError as ex:
        raise vlib.CheckError("flags: %s" % ex)
    for f in files:
        src = _read("src/function/benchmark/" + f)
        if f == "linear.cpp":
            continue    # synthetic linear model: the base of the elastic-net objectives, declares nothing
        if f == "elastic_net.cpp":
            flags["fn:enet"] = _ctor_flags(src, f)
            continue
        m = re.search(r"function_t\(\"([^\"]+)\"", src)
        if not m:
            raise vlib.CheckError("flags: no function_t(\"name\", ...) in %s" % f)
        flags["fn:" + m.group(1)] = _ctor_flags(src, f)
    # the loss structs of the elastic-net objectives and of flatten.h
    for rel, prefix in (("src/function/benchmark/elastic_net.h", "enet-loss:"), ("include/nano/loss/flatten.h", "loss:")):
        src = _read(rel)
        for m in re.finditer(r"static constexpr auto convex\s*=\s*(\w+);\s*static constexpr auto smooth\s*=\s*(\w+);\s*"
                             r"static constexpr auto basename\s*=\s*\"([^\"]+)\";", src):
            flags[prefix + m.group(3)] = (_norm(m.group(1)), _norm(m.group(2)), "")
    src = _read("src/loss/pinball.cpp")
    c, s = re.search(r"\bconvex\((\w+)\);", src), re.search(r"\bsmooth\((\w+)\);", src)
    if not (c and s):
        raise vlib.CheckError("flags: pinball.cpp declares no convex/smooth")
    flags["loss:pinball"] = (_norm(c.group(1)), _norm(s.group(1)), "")
    # constraints
    src = _read("src/function/constraint.cpp")
    cons = collections.defaultdict(dict)
    for m in re.finditer(r"(?:auto|bool|scalar_t)\s+(smooth|convex|strong_convexity)\(const (\w+)_t&[^)]*\)\s*\{\s*return\s+([^;]*);\s*\}", src):
        cons[m.group(2)][m.group(1)] = _norm(m.group(3))
    for kind, d in cons.items():
        flags["cons:" + kind] = (d.get("convex", ""), d.get("smooth", ""), d.get("strong_convexity", ""))
    # how nano::convex(P) / nano::strong_convexity(P) decide (src/function/util.cpp): the matrix whose eigenvalues are inspected
    src = _read("src/function/util.cpp")
    for fn, key in (("bool nano::convex", "util:convex(P)"), ("scalar_t nano::strong_convexity", "util:strong_convexity(P)")):
        m = re.search(re.escape(fn) + r"\(const matrix_t& P\)\s*\{(.*?)\n\}", src, re.S)
        e = re.search(r"eigenvalues\s*=\s*([^;]*);", m.group(1)) if m else None
        if not e:
            raise vlib.CheckError("flags: cannot find the eigenvalue expression of %s in util.cpp" % fn)
        flags[key] = ("".join(e.group(1).split()), "", "")
    # ML objectives: one chunk per constructor
    for rel in ("src/linear/function.cpp", "src/gboost/function.cpp", "src/tuner/surrogate.cpp"):
        src = _read(rel)
        ms = list(re.finditer(r"function_t\(\"([^\"]+)\"", src))
        for i, m in enumerate(ms):
            chunk = src[m.end():ms[i + 1].start() if i + 1 < len(ms) else len(src)]
            chunk = chunk.split("do_vgrad", 1)[0]
            flags["ml:" + m.group(1).replace(" ", "-")] = _ctor_flags(chunk, rel + ":" + m.group(1))
    return flags


def gen_flags():
    flags = parse_flags()
    q = lambda s: '"%s"' % s.replace('"', '""')
    rows = ["  (%s, (%s, %s, %s))" % (q(k), q(v[0]), q(v[1]), q(v[2])) for k, v in sorted(flags.items())]
    txt = ("(* GENERATED by tools/checks/c06.py from /repo's working tree -- do not edit.\n"
           "   object |-> (convex, smooth, strong_convexity) as declared in the source (normalised expressions; \"\" = not declared) *)\n"
           "From Coq Require Import String List.\nImport ListNotations.\nLocal Open Scope string_scope.\n\n"
           "Definition src_c06_flags : list (string * (string * string * string)) := [\n" + ";\n".join(rows) + "].\n")
    gen = os.path.join(vlib.COQ, "generated")
    os.makedirs(gen, exist_ok=True)
    path = os.path.join(gen, "Src_c06_flags.v")
    if not os.path.exists(path) or open(path).read() != txt:
        open(path, "w").write(txt)
    return flags


def coq_side():
    flags, err = {}, None
    try:
        flags = gen_flags()
    except vlib.CheckError as ex:
        err = str(ex)
    # C06_Convex2_Refuted.vo: the refutation of the exact class-NLL inequality (needs CoqInterval; deliberately not imported by Properties_C06.v)
    cres = vlib.coq_check("C06", targets=["theories/Extract_C06.vo", "theories/Properties_C06.vo", "theories/C06_Convex2_Refuted.vo"])
    if err and cres["ok"]:
        cres["ok"] = False
        cres["broken"] = "flag-parser:" + err
    cres["flags"] = flags
    return cres


# ------------------------------------------------------------------------------------------------
# style D: per-run interval enclosures of the transcendental specifications at sampled points
# ------------------------------------------------------------------------------------------------
IV_LOSSES = {"cauchy": "cauchy", "s-logistic": "logistic", "m-logistic": "logistic", "s-exponential": "exponential",
             "m-exponential": "exponential", "s-savage": "savage", "m-savage": "savage", "s-tangent": "tangent", "m-tangent": "tangent",
             "s-classnll": "classnll"}
IV_FNS = {"exponential": ("fexp_v", "fexp_g"), "cauchy": ("fcauchy_v", "fcauchy_g")}
IV_REL = "1e-11"       # tol = IV_REL * (1 + sum of |terms|)
IV_HEADER = """(* GENERATED by tools/checks/c06.py on every run from the values the library returned (VERIF_SEED = %d, tier %s) -- do not edit.
   One lemma per number: |real-analytic specification (C06_Defs.v) at the exact dyadic inputs - double returned by the library|
   <= 1e-11 * (1 + sum of |terms|), closed by CoqInterval and re-checked by the kernel at Qed.
   Validation at sampled points, not the unbounded claim. *)
From Coq Require Import Reals List Lra.
From Interval Require Import Tactic.
From LNGen Require Import Src_c06rest.
From LN Require Import C06_Defs C06_Convex2_Defs C06_Rest_Defs.
Import ListNotations.
Local Open Scope R_scope.

(* maxquad (C06_Rest_Defs.v): single entries exp(si/sj) cos(si sj) sin(sk), si |sin sk| / n, exp(si/sk) sin(si sk) with the translated index expressions *)
Ltac iv_mq :=
  unfold mq_b; cbn [seq map nth];
  unfold mq_e, mq_dg, mq_s, mq_sj, mq_sk, src_c06rest_maxquad_si, src_c06rest_maxquad_sj, src_c06rest_maxquad_sk;
  repeat match goal with |- context [IZR ?z] => let z' := eval vm_compute in z in progress change (IZR z) with (IZR z') end;
  cbn [INR];
  interval with (i_prec 70).

(* geometric optimisation sum_i exp(a_i + A_i . x) and its gradient A' exp(a + A x) (C06_Convex2_Defs.v) *)
Ltac iv_geo :=
  unfold geo_v, geo_g, mv, dot, total;
  cbn [map length mtv]; unfold vadd, vscale, zeros;
  cbn [map map2 sum2 fold_right repeat nth o_add o_mul o_zero Rops];
  interval with (i_prec 70).

Lemma iv_ltb_pos : forall a, 0 < a -> Rltb 0 a = true.
Proof. intros a H. unfold Rltb. destruct (Rlt_dec 0 a); [reflexivity | contradiction]. Qed.
Lemma iv_ltb_neg : forall a, a <= 0 -> Rltb 0 a = false.
Proof. intros a H. unfold Rltb. destruct (Rlt_dec 0 a); [lra | reflexivity]. Qed.
Lemma iv_code : forall eps t o m, listmax o = m -> classnll_code eps t o = ln (eps + sumexp m o) - posum t o + m.
Proof. intros eps t o m <-. reflexivity. Qed.
Lemma iv_grad : forall t o m, listmax o = m -> classnll_g t o = classnll_g_from m (sumexp m o) t o.
Proof. intros t o m <-. reflexivity. Qed.

(* the largest output is the literal m: innermost Rmax first, each decided by lra on two literals *)
Ltac iv_max :=
  unfold listmax; cbn [fold_right];
  repeat match goal with |- context [Rmax ?a ?b] =>
    lazymatch a with context [Rmax _ _] => fail | _ =>
    lazymatch b with context [Rmax _ _] => fail | _ => first [rewrite (Rmax_left a b) by lra | rewrite (Rmax_right a b) by lra] end end end;
  reflexivity.
Ltac iv_signs :=
  repeat match goal with |- context [Rltb 0 ?a] => first [rewrite (iv_ltb_pos a) by lra | rewrite (iv_ltb_neg a) by lra] end.
(* separable losses and the two benchmark functions *)
Ltac iv :=
  unfold loss_v, loss_g, kr_logistic_v, kr_logistic_g, kr_cauchy_v, kr_cauchy_g, kr_exponential_v, kr_exponential_g,
         kr_savage_v, kr_savage_g, kr_tangent_v, kr_tangent_g, fexp_g, fcauchy_g;
  unfold fexp_v, fcauchy_v, dot, vscale;
  cbn [sum2 map2 map nth o_add o_mul o_zero Rops length INR];
  interval with (i_prec 70).
(* class-NLL as the code computes it (shift by the largest output m, epsilon inside the logarithm) *)
Ltac iv_nll m :=
  first [rewrite (iv_code _ _ _ m) by iv_max | rewrite (iv_grad _ _ m) by iv_max];
  unfold sumexp, posum; cbn [fold_right classnll_g_from nth]; iv_signs;
  interval with (i_prec 70).
"""


def _frac(h):
    from fractions import Fraction
    return Fraction(float.fromhex(h))


def _rlit(q):
    """exact rational as a Coq real literal"""
    if q.denominator == 1:
        return "(%d)" % q.numerator
    return "(%d / %d)" % (q.numerator, q.denominator)


def _dec_atan(x):
    import decimal
    D = decimal.Decimal
    n = 0
    while abs(x) > D("0.1"):          # atan x = 2 atan (x / (1 + sqrt(1 + x^2)))
        x = x / (1 + (1 + x * x).sqrt())
        n += 1
    t, s, k, x2 = x, x, 1, x * x
    while abs(t) > D(10) ** -60:
        t = -t * x2
        k += 2
        s += t / k
    return s * (2 ** n)


def _iv_spec(kind, what, idx, t, o, geo=None):
    """high-precision value of the specification (measurement of the error ratio only; the check is the Coq lemma);
    returns (value, sum of |terms|)"""
    import decimal
    from fractions import Fraction
    D = decimal.Decimal
    d = lambda q: D(q.numerator) / D(q.denominator)
    t, o = [d(x) for x in t], [d(x) for x in o]
    one = D(1)
    if kind == "geo":
        es = [(d(a) + sum(d(c) * x for c, x in zip(row, o))).exp() for a, row in zip(geo[0], geo[1])]
        if what == "v":
            return sum(es), sum(abs(e) for e in es)
        terms = [e * d(row[idx]) for e, row in zip(es, geo[1])]
        return sum(terms), sum(abs(x) for x in terms)
    if kind in ("fexp", "fcauchy"):
        s2, n = sum(x * x for x in o), D(len(o))
        if kind == "fexp":
            f = (1 + s2 / n).exp()
            return (f, abs(f)) if what == "v" else (2 * f / n * o[idx], abs(2 * f / n * o[idx]))
        f = (1 + s2).ln()
        return (f, abs(f)) if what == "v" else (2 / (1 + s2) * o[idx], abs(2 / (1 + s2) * o[idx]))
    if kind == "classnll":
        m = max(o)
        S = sum((x - m).exp() for x in o)
        pos = sum(x for a, x in zip(t, o) if a > 0)
        if what == "v":
            lg = (D(2) ** -52 + S).ln()
            return lg - pos + m, abs(lg) + abs(pos) + abs(m)
        g = (o[idx] - m).exp() / S - (1 if t[idx] > 0 else 0)
        return g, abs(g) + 1
    def kv(a, x):
        if kind == "logistic":
            return (1 + (-a * x).exp()).ln()
        if kind == "exponential":
            return (-a * x).exp()
        if kind == "cauchy":
            return ((a - x) * (a - x) + 1).ln() / 2
        if kind == "savage":
            return 1 / ((1 + (a * x).exp()) ** 2)
        return (2 * _dec_atan(a * x) - 1) ** 2
    def kg(a, x):
        if kind == "logistic":
            e = (-a * x).exp()
            return -a * (e / (1 + e))
        if kind == "exponential":
            return -a * (-a * x).exp()
        if kind == "cauchy":
            return (x - a) / (1 + (x - a) * (x - a))
        if kind == "savage":
            return -2 * a / (((1 + (a * x).exp()) ** 2) * (1 + (-a * x).exp()))
        return 4 * a * (2 * _dec_atan(a * x) - 1) / (1 + (a * x) * (a * x))
    if what == "v":
        terms = [kv(a, x) for a, x in zip(t, o)]
        return sum(terms), sum(abs(x) for x in terms)
    g = kg(t[idx], o[idx])
    return g, abs(g)


def iv_cases(lines, tier, seed):
    """select the numbers to enclose; returns list of dict(name, line, what, idx, stmt, err, tol, ratio)"""
    import decimal
    import random
    from fractions import Fraction
    decimal.getcontext().prec = 60
    rnd = random.Random(seed * 1000003 + 6)
    quick = tier != "thorough"
    per_id, cap = (8, 320) if quick else (70, 2200)
    by = collections.defaultdict(list)
    for l in lines:
        if l.startswith("LV "):
            i = l.split(" ", 2)[1]
            if i in IV_LOSSES:
                by["LV " + i].append(l)
        elif l.startswith("FN "):
            i = l.split(" ", 2)[1]
            if i in IV_FNS:
                by["FN " + i].append(l)
        elif l.startswith("GE "):
            by["GE geometric"].append(l)
        elif l.startswith(("ME ", "MD ", "MB ")):
            by["MQ maxquad-entries"].append(l)
    cases, skipped = [], collections.Counter()
    for key in sorted(by, key=lambda k: (not k.startswith("MQ "), k)):     # the maxquad entries first: the cap of the thorough tier is reached before the last keys
        ls = by[key]
        rnd.shuffle(ls)
        for l in ls[:per_id]:
            lhs, rhs = l.split(" = ", 1)
            if key.startswith("MQ "):
                import math
                p = lhs.split()
                try:
                    number = _frac(rhs.strip())
                except (ValueError, OverflowError):
                    skipped["non-finite"] += 1
                    continue
                a, b, c = int(p[1]), int(p[2]), int(p[3])
                if p[0] == "ME":
                    term, sp = "mq_e %d %d %d" % (a, b, c), math.exp((b + 1) / (c + 1)) * math.cos((b + 1) * (c + 1)) * math.sin(a + 1)
                elif p[0] == "MD":
                    term, sp = "mq_dg %d %d %d" % (a, b, c), (c + 1) * abs(math.sin(a + 1)) / b
                else:
                    term, sp = "nth %d (mq_b %d %d) 0" % (c, a, b), math.exp((c + 1) / (a + 1)) * math.sin((c + 1) * (a + 1))
                tol = decimal.Decimal(IV_REL) * (1 + decimal.Decimal(abs(sp)))
                tolq = Fraction(int(tol.scaleb(40).to_integral_value(rounding=decimal.ROUND_FLOOR)), 10 ** 40)
                err = abs(decimal.Decimal(sp) - decimal.Decimal(number.numerator) / decimal.Decimal(number.denominator))
                cases.append({"name": "iv_%04d" % len(cases), "line": l, "what": "value", "object": key, "tac": "iv_mq",
                              "stmt": "Rabs (%s - %s) <= %s" % (term, _rlit(number), _rlit(tolq)),
                              "spec": repr(sp), "err": float(err), "tol": float(tol), "ratio": float(err / tol)})
                if len(cases) >= cap:
                    return cases, skipped
                continue
            lp, rp = lhs.split(" | "), rhs.split(" | ")
            geo = None
            try:
                if key.startswith("GE "):
                    kind = "geo"
                    ga = [_frac(x) for x in lp[1].split(",")]
                    gA = [[_frac(x) for x in row.split(",")] for row in lp[2].split(";")]
                    t, o = [], [_frac(x) for x in lp[3].split(",")]
                    val, grad = _frac(rp[0]), [_frac(x) for x in rp[1].split(",")]
                    geo = (ga, gA)
                elif key.startswith("LV "):
                    kind = IV_LOSSES[key[3:]]
                    t, o = [_frac(x) for x in lp[1].split(",")], [_frac(x) for x in lp[2].split(",")]
                    val, grad = _frac(rp[0]), [_frac(x) for x in rp[1].split(",")]
                else:
                    kind = "fexp" if key[3:] == "exponential" else "fcauchy"
                    t, o = [], [_frac(x) for x in lp[1].split(",")]
                    val, grad = _frac(rp[0]), [_frac(x) for x in rp[1].split(",")]
            except (ValueError, OverflowError, IndexError):
                skipped["non-finite"] += 1      # inf / nan cannot be converted: not a real number to enclose
                continue
            if len(grad) != len(o):
                skipped["malformed"] += 1
                continue
            comps = list(range(len(o)))
            if quick:
                comps = [rnd.choice(comps)]
            lt, lo = "[" + "; ".join(_rlit(x) for x in t) + "]", "[" + "; ".join(_rlit(x) for x in o) + "]"
            for what, idx in [("v", 0)] + [("g", i) for i in comps]:
                number = val if what == "v" else grad[idx]
                if kind == "geo":
                    la = "[" + "; ".join(_rlit(x) for x in geo[0]) + "]"
                    lA = "[" + "; ".join("[" + "; ".join(_rlit(x) for x in row) + "]" for row in geo[1]) + "]"
                    term = "geo_v %s %s %s" % (la, lA, lo) if what == "v" else "nth %d (geo_g %s %s %s) 0" % (idx, la, lA, lo)
                elif kind in ("fexp", "fcauchy"):
                    fv, fg = IV_FNS[key[3:]]
                    term = "%s %s" % (fv, lo) if what == "v" else "nth %d (%s %s) 0" % (idx, fg, lo)
                elif kind == "classnll":
                    term = ("classnll_code (1 / 4503599627370496) %s %s" % (lt, lo)) if what == "v" else \
                           ("nth %d (classnll_g %s %s) 0" % (idx, lt, lo))
                else:
                    term = ("loss_v Rops kr_%s_v %s %s" % (kind, lt, lo)) if what == "v" else \
                           ("nth %d (loss_g kr_%s_g %s %s) 0" % (idx, kind, lt, lo))
                spec, mag = _iv_spec(kind, what, idx, t, o, geo)
                tol = decimal.Decimal(IV_REL) * (1 + mag)
                tolq = Fraction(int(tol.scaleb(40).to_integral_value(rounding=decimal.ROUND_FLOOR)), 10 ** 40)
                err = abs(spec - decimal.Decimal(number.numerator) / decimal.Decimal(number.denominator))
                name = "iv_%04d" % len(cases)
                cases.append({"name": name, "line": l, "what": "value" if what == "v" else "gradient[%d]" % idx, "object": key,
                              "tac": ("iv_nll %s" % _rlit(max(o))) if kind == "classnll" else ("iv_geo" if kind == "geo" else "iv"),
                              "stmt": "Rabs (%s - %s) <= %s" % (term, _rlit(number), _rlit(tolq)),
                              "spec": str(spec)[:40], "err": float(err), "tol": float(tol), "ratio": float(err / tol)})
                if len(cases) >= cap:
                    return cases, skipped
    return cases, skipped


def iv_gate(r, cases, tier):
    """write coq/generated/C06_interval_cases.v, compile it (kernel-checked); on failure find every failing lemma;
    returns dict(lemmas, failed (list of case dicts), seconds, error)"""
    import time
    res = {"lemmas": len(cases), "failed": [], "seconds": 0.0, "error": None}
    if not cases:
        return res
    gen = os.path.join(vlib.COQ, "generated")
    os.makedirs(gen, exist_ok=True)
    path = os.path.join(gen, "C06_interval_cases.v")
    head = IV_HEADER % (r.seed, tier)
    body = "".join("(* %s of %s *)\nLemma %s : %s.\nProof. %s. Qed.\n" % (c["what"], c["line"][:400].replace("*)", "* )"), c["name"], c["stmt"], c["tac"])
                   for c in cases)
    coqc = "timeout %d coqc -q -Q theories LN -Q generated LNGen -w -all %s"
    # own lock (two C06 runs must not share the file); the shared "coq" lock is not needed: only C06_Defs.vo is read
    with vlib.Lock("c06-interval"):
        t0 = time.time()
        open(path, "w").write(head + body)
        rc, out = vlib.sh(coqc % (1500, "generated/C06_interval_cases.v"), cwd=vlib.COQ, timeout=1530)
        if rc != 0:
            # diagnosis pass: every lemma tried on its own, nothing is assumed
            diag = os.path.join(vlib.WORK, "c06")
            os.makedirs(diag, exist_ok=True)
            dpath = os.path.join(diag, "C06_interval_diag_%d.v" % r.seed)
            dbody = "".join("Goal %s.\nProof. first [ %s; idtac \"IV-OK %s\" | idtac \"IV-FAIL %s\" ]. Abort.\n" % (c["stmt"], c["tac"], c["name"], c["name"])
                            for c in cases)
            open(dpath, "w").write(head + dbody)
            rc2, out2 = vlib.sh(coqc % (2400, shlex.quote(dpath)), cwd=vlib.COQ, timeout=2430)
            bad = set(re.findall(r"IV-FAIL (iv_\d+)", out2))
            res["failed"] = [c for c in cases if c["name"] in bad]
            if not bad:
                res["error"] = "interval file failed to compile but no single lemma fails: " + (out[-1500:] + out2[-1500:])
            # keep the failing file for the replay, never leave it in generated/ (other builds compile that directory)
            keep = os.path.join(diag, "C06_interval_cases_%d.v" % r.seed)
            os.replace(path, keep)
            res["kept"] = keep
            for ext in (".vo", ".vok", ".vos", ".glob"):
                try:
                    os.remove(path[:-2] + ext)
                except OSError:
                    pass
        res["seconds"] = round(time.time() - t0, 1)
    return res


def setup():
    vlib.build_harness(HARNESS, "rel", need_lib=True)
    try:
        coq_side()
        vlib.build_ocaml("c06_driver", "c06_model.ml", "c06_driver.ml")
    except (vlib.CheckError, OSError):
        pass


# ------------------------------------------------------------------------------------------------
def _kv(done_line):
    out = {}
    for tok in done_line.split()[1:]:
        if "=" in tok:
            k, v = tok.split("=", 1)
            out[k] = v
    return out


def _hist(s):
    out = {}
    for tok in s.split(","):
        if ":" in tok:
            k, v = tok.rsplit(":", 1)
            out[k] = int(v)
    return out


def _family(l):
    m = re.search(r" \| family=(.*?) \| ", l)
    return m.group(1) if m else "?"


def _group(family):
    return {"loss": "loss", "fn": "fn", "cons": "cons", "ml": "ml"}.get(family.split(":", 1)[0], "")


def _bias_moves(l):
    """FAIL line of the linear objective: parameters = [W (tsize*isize), bias (tsize)]; true iff x and z differ in a bias coordinate"""
    m = re.search(r"tsize=(\d+)", l)
    mx, mz = re.search(r" x=\[([^\]]*)\]", l), re.search(r" z=\[([^\]]*)\]", l)
    if not (m and mx and mz):
        return False
    t = int(m.group(1))
    x, z = mx.group(1).split(","), mz.group(1).split(",")
    return len(x) == len(z) and len(x) > t and x[-t:] != z[-t:]


def _candidate_of(l, probes):
    """fingerprint of the known / candidate finding a FAIL line belongs to (None: a plain violation)"""
    p = l.split(" ", 2)
    clause, fam = p[1], _family(l)
    # the known finding is narrow: the full-parameter objective, a pair (x, z) that MOVES THE BIAS (the unregularised directions);
    # pairs that differ in the weights only (family ml:linear-W, or a full-space pair with identical bias) are plain violations
    if clause == "strong-convexity" and re.match(r"ml:linear\(.*,l2\)$", fam) and probes.get("linear-strong-convexity") and _bias_moves(l):
        return LINEAR_FP
    return None


def _run_harness(exe, tier, seed, only=""):
    rc, out = vlib.sh([exe, tier] + ([only] if only else []), timeout=3000, env={"VERIF_SEED": str(seed)})
    return rc, [l for l in out.split("\n") if l]


def _replay(path):
    d = json.load(open(path))
    cmd = d.get("replay_cmd")
    if not cmd:
        print("nothing to replay in %s" % path)
        return 0
    vlib.build_harness(HARNESS, "rel", need_lib=True)
    rc, out = vlib.sh(cmd, timeout=3000)
    bad = [l for l in out.split("\n") if l.startswith(("FAIL ", "MISMATCH", "PROPFAIL"))
           or (l.startswith("PROBE ") and l.endswith("| violated") and not l.startswith("PROBE linear-strong-convexity"))]
    fam = d.get("family")
    if fam:
        bad = [l for l in bad if not l.startswith("FAIL ") or _family(l) == fam]
    print("\n".join(l[:1500] for l in bad[:10]) or "replay: no failure")
    if bad:
        print("VIOLATION property=C06 replay=%s" % path)
    return 1 if bad else 0


def run(tier, replay=None):
    if replay:
        return _replay(replay)
    r = vlib.Run("C06", tier)
    # 2. Coq: declared flags parsed from the source + size kernels + theorems (+ extraction target)
    cres = coq_side()
    # 1./3. the implementation
    exe = vlib.build_harness(HARNESS, "rel", need_lib=True)
    rc, lines = _run_harness(exe, tier, r.seed)
    done = [l for l in lines if l.startswith("DONE ")]
    fails = [l for l in lines if l.startswith("FAIL ")]
    ops = collections.Counter(l.split(" ", 1)[0] for l in lines)
    cmd = lambda only: "VERIF_SEED=%d %s %s %s" % (r.seed, exe, tier, only)
    if rc != 0 or not done:
        r.violation("crash", {"kind": "harness crashed / did not finish (signal, exception or sanitizer report)", "exit": rc,
                              "last_lines": [l[:600] for l in lines[-6:]], "replay_cmd": cmd("")}, fingerprint="crash")
    # directed probes of the declarations examined first
    probes = collections.defaultdict(list)
    for l in lines:
        if l.startswith("PROBE ") and l.endswith("| violated"):
            probes[l.split(" ", 2)[1]].append(l)
    # 5. direct search on the implementation
    cand = collections.defaultdict(list)
    plain = []
    for l in fails:
        fp = _candidate_of(l, probes)
        (cand[fp] if fp else plain).append(l)
    cand[LINEAR_FP] = probes.get("linear-strong-convexity", []) + cand.get(LINEAR_FP, [])
    # directed probes of the two FIXED defects (exact cb3 ties, non-symmetric P): a violated probe is a concrete failing input
    for key in ("cb3-tie", "quadratic-nonsymmetric", "linear-weights-strong-convexity"):
        if probes.get(key):
            first = probes[key][0]
            r.violation("probe-%s" % key, {"kind": "directed probe violated: " + {
                "cb3-tie": "chained_cb3I/II declare convex, but on an exact tie v1 == v2 > v3 the returned vector is not a sub-gradient "
                           "(the gradient of an inactive piece): /repo 114b02b reverted?",
                "linear-weights-strong-convexity": "linear::function_t: for a pair that differs in the WEIGHTS only (bias identical) the declared "
                                                   "strong-convexity coefficient must be the coefficient l2/(isize*tsize) of the l2 term; the "
                                                   "inequality fails, i.e. the declared coefficient is too large (this is NOT the known finding "
                                                   "about the unregularised bias)",
                "quadratic-nonsymmetric": "a quadratic constraint with a non-symmetric P is declared (strongly) convex although "
                                          "1/2 x'Px + q'x + r violates the inequality: convexity must be decided by 0.5*(P+P'), /repo 3feb922 reverted?"}[key],
                "case": first[:3000], "violated_probes": len(probes[key]), "all": [l[:600] for l in probes[key][:8]],
                "replay_cmd": cmd("probe") + " | grep '^PROBE %s .*violated$'" % key,
                "meaning": "PROBE name | object and points x, z (C hex floats) | declared flags, f(x), gradient, f(z), f(x)+g.(z-x)+mu/2|z-x|^2 | verdict"})
    seen = set()
    # the clauses of the extension stage first (they name the proved clause that fails), then the general oracles
    for l in sorted(plain, key=lambda l: 0 if l.split(" ", 2)[1] in EXT_CLAUSES else 1):
        key = (l.split(" ", 2)[1], _family(l))
        if key in seen or len(seen) >= 5:
            continue
        seen.add(key)
        same = [x for x in plain if (x.split(" ", 2)[1], _family(x)) == key]
        shortest = min(same, key=len)
        r.violation("impl-%s-%s" % (key[0], re.sub(r"[^\w]+", "_", key[1])[:40]),
                    {"kind": "direct property check failed on the implementation", "clause": key[0], "family": key[1],
                     "case": shortest[:8000], "failures_of_this_kind": len(same),
                     "replay_cmd": cmd("rest" if (key[0] in REST_CLAUSES or key[1].endswith("(rest)")) else ("ext" if (key[0] in EXT_CLAUSES or key[1].endswith("(ext)")) else _group(key[1]))) + " | grep '^FAIL %s '" % key[0],
                     "meaning": "FAIL clause object(description sufficient to rebuild it) | family | numbers as C hex floats: x, z, "
                                "gradient, value(s); the replay command regenerates the case from VERIF_SEED"})
    what = {LINEAR_FP: "linear::function_t declares strong_convexity = l2/(isize*tsize) but the bias is not regularised: the objective is "
                       "not strongly convex along the bias (piecewise-linear losses: affine there)"}
    candidates = []
    for fp in CANDIDATES:
        sel = cand.get(fp, [])
        if not sel:
            continue
        payload = {"kind": what[fp], "cases": [l[:1500] for l in sel[:4]], "count": len(sel), "replay_cmd": cmd("probe") + " | grep '^PROBE'"}
        if any(f.get("fingerprint") == fp for f in r.kf):
            r.violation(fp, payload, fingerprint=fp)
        else:
            candidates.append(dict(payload, fingerprint=fp))
    # 3./4. correspondence with the extracted exact-rational model
    mism, checked, skipped, ext_checked, rest_checked = [], 0, 0, 0, 0
    drv = None
    try:
        drv = vlib.build_ocaml("c06_driver", "c06_model.ml", "c06_driver.ml")
    except (vlib.CheckError, OSError):
        if cres["ok"]:
            raise
    tie_lines = [l for l in lines if l.startswith(TIE_PREFIXES)]
    if drv:
        rc2, mout = vlib.sh([drv], input="\n".join(tie_lines) + "\n", timeout=3000)
        for l in mout.split("\n"):
            if l.startswith(("MISMATCH", "PROPFAIL")):
                mism.append(l)
            elif l.startswith("MODEL-DONE"):
                d = _kv(l)
                checked, skipped = int(d.get("checked", 0)), int(d.get("skipped", 0))
                ext_checked = int(d.get("ext", 0))
                rest_checked = int(d.get("rest", 0))
        if rc2 != 0 or (not checked and tie_lines):
            r.violation("driver", {"kind": "model driver failed", "out": mout[-2000:]}, no_input=True)
        kinds = set()
        for l in mism:
            p = l.split(" ")
            kind = " ".join(p[1:3])
            if kind in kinds or len(kinds) >= 4:
                continue
            kinds.add(kind)
            same = [x for x in mism if " ".join(x.split(" ")[1:3]) == kind]
            shortest = min(same, key=len)
            # the model is the definition the theorems are about: a value / gradient / 0-1 error / size of the library that leaves it
            # beyond 1e-9 of the summed magnitudes on this very input is a concrete failing input of "the returned gradient is the
            # derivative of the returned value" unless the direct oracle still accepts it -- reported either way (the tie is broken)
            r.violation("corr-%s" % re.sub(r"[^\w]+", "_", kind)[:40],
                        {"kind": "implementation differs from the exact model beyond 1e-9 of the summed magnitudes (0-1 errors, sizes: exactly)",
                         "case": shortest[:8000], "mismatches_of_this_kind": len(same),
                         "replay_cmd": cmd("") + " | grep -E '^(SIZE|LV|FN|CN|QF|CQ|KK|LM|GB|GS|EN|FX|SG|SF|GG|MQ) ' | " + str(drv),
                         "meaning": "`<harness line> // model: <what the model computes>`; LV loss alpha | target | output = value | "
                                    "gradient | error; FN function n | x = f | gradient; CN kind n | parameters | x = f | gradient; extension stage: "
                                    "QF n | a | B | A read off the gradient | x; CQ kind n | P | q | r | x; KK n | K | offset | x; LM loss l1 l2 isize tsize | "
                                    "inputs | targets | x; EN loss alpha1 alpha2 n | inputs | targets | bias | x; GB loss tsize | targets | x; GS loss tsize groups | group of each sample | soutputs | woutputs | targets | x "
                                    "(rows separated by `;`, C hex floats); stage rest: FX function n | x | d = f(x) | g(x) | f(x+d); SG n | model | x | d = f(x) | g(x) | f(x+d); "
                                    "SF loss np | p rows | y | x = f | g; GG loss tsize | targets | x = f | g; MQ n kd | off-diagonal entries e(i<j) of every piece (pieces separated by /) | own diagonal terms | b_k | x = f | g"},
                        no_input=not plain and p[1] == "SIZE")
    # style D: kernel-checked interval enclosures of the transcendental specifications at sampled points of this run
    iv = {"lemmas": 0, "failed": [], "seconds": 0.0, "error": None}
    iv_list, iv_skipped = [], {}
    if all(os.path.exists(os.path.join(vlib.COQ, "theories", f)) for f in ("C06_Defs.vo", "C06_Convex2_Defs.vo", "C06_Rest_Defs.vo")):
        iv_list, iv_skipped = iv_cases(tie_lines, tier, r.seed)
        iv = iv_gate(r, iv_list, tier)
        for i, c in enumerate(iv["failed"][:4]):
            r.violation("interval-%d" % i,
                        {"kind": "the value returned by the library leaves the real-analytic specification (C06_Defs.v) by more than "
                                 "1e-11 * (1 + sum of |terms|) on this input: the interval lemma does not check",
                         "object": c["object"], "number": c["what"], "case": c["line"][:3000], "lemma": "Lemma %s : %s." % (c["name"], c["stmt"][:3000]),
                         "specification_value": c["spec"], "abs_error": c["err"], "tolerance": c["tol"], "ratio": c["ratio"],
                         "failed_lemmas": len(iv["failed"]),
                         "replay_cmd": "cd %s && coqc -q -Q theories LN -Q generated LNGen -w -all %s" % (vlib.COQ, iv.get("kept", "generated/C06_interval_cases.v")),
                         "meaning": "LV loss alpha | target | output = value | gradient | error; FN function n | x = f | gradient (C hex floats); "
                                    "the lemma states |spec(inputs) - returned double| <= tol with exact rationals"})
        if iv["error"]:
            r.violation("interval-gate", {"kind": "interval file failed to compile", "detail": iv["error"][-3000:]}, no_input=True)
    vlib.handle_coq_failure(r, cres)
    vlib.proof_coverage(r, cres, "make -C coq theories/Properties_C06.vo && coqc theories/Properties_C06.v (Print Assumptions)",
                        ["tools/checks/c06.py: parser of the convex/smooth/strong_convexity declarations (regular expressions over "
                         "src/function/benchmark/*.cpp, elastic_net.h, flatten.h, pinball.cpp, constraint.cpp, linear/gboost/surrogate constructors)",
                         "tools/translate.py (6 size kernels, 4 branch tests of chained_cb3I/II, extension: maxhilb denominator, maxquad loop test, 2 guards of linear/function.cpp; "
                         "second extension: 19 kernels of Src_c06rest.v -- flag forwarding, maxquad fill indices, powell forms, surrogate loop bound)",
                         "second extension: the harness recomputes maxquad's entries exp(si/sj) cos(si sj) sin(sk), si |sin sk| / n, exp(si/sk) sin(si sk) with std::exp/cos/sin "
                         "(tied to the real specification by interval lemmas, to the library by the MQ lines)",
                         "extension stage: the harness re-draws the random data of fn:quadratic / kinks / geometric / elastic net with the constructors' public calls "
                         "(make_random_*, synthetic_scalar_t / synthetic_sclass_t) and builds the per-sample design matrices of the linear / gboost objectives in the driver",
                         "extraction: ExtrOcamlBasic (exact Q on the inductive Z/positive)",
                         "the hand-written formulas of C06_Defs.v (tied by the exact-rational correspondence and, for exp/ln/atan objects, by "
                         "the per-run interval lemmas)",
                         "CoqInterval (tactic; its proofs are re-checked by the kernel at Qed); exact double -> rational conversion in c06.py",
                         "ocaml/c06_driver.ml (exact double->Q conversion, 1e-9 comparison), harness/c06_objects.cpp (tolerances of the direct "
                         "oracles), g++ -O2"])
    cov = r.coverage
    # the theorem kept outside Properties_C06.v (CoqInterval): built by the same `make` (a failure breaks cres), gated for forbidden words here
    ref = os.path.join(vlib.COQ, "theories", "C06_Convex2_Refuted.v")
    ref_ok = cres["ok"] and os.path.exists(ref[:-2] + ".vo") and not vlib.FORBIDDEN.search(vlib.strip_coq_comments(open(ref).read()))
    if cres["ok"] and not ref_ok:
        r.violation("refuted-file", {"kind": "C06_Convex2_Refuted.v is not compiled or contains a forbidden word"}, no_input=True)
    cov["obligations"] += 1
    cov["discharged"] += 1 if ref_ok else 0
    cov["theorems_outside_properties"] = ["C06_loss_classnll_code_exact_inequality_refuted (theories/C06_Convex2_Refuted.v, CoqInterval i_prec 300)"]
    cov["obligations"] += iv["lemmas"]
    cov["discharged"] += iv["lemmas"] - len(iv["failed"]) if not iv["error"] else 0
    cov["interval_lemmas"] = iv["lemmas"]
    cov["interval_failed"] = len(iv["failed"])
    cov["interval_seconds"] = iv["seconds"]
    cov["interval_skipped"] = dict(iv_skipped)
    cov["interval_worst_ratio"] = max([c["ratio"] for c in iv_list] or [0.0])
    cov["interval_ratio_meaning"] = ("max over the sampled numbers of |specification (60-digit decimal evaluation) - returned double| / tolerance, "
                                     "tolerance = 1e-11 * (1 + sum of |terms|); the lemmas themselves are closed by CoqInterval (i_prec 70) and Qed")
    cov["interval_by_object"] = dict(collections.Counter(c["object"] for c in iv_list))
    st = _kv(done[-1]) if done else {}
    flags = cres.get("flags", {})
    cov["evaluations"] = int(st.get("evals", 0))
    cov["correspondence_lines_checked"] = checked
    cov["correspondence_lines_without_model"] = skipped
    cov["correspondence_lines_extension_stage"] = ext_checked
    cov["correspondence_lines_rest_stage"] = rest_checked
    cov["derivative_theorems"] = DERIVATIVE_THEOREMS
    distinct = set(vlib.sha(l) for l in tie_lines if not l.startswith("SIZE ") and re.search(r"0x1\.[0-9a-f]*p|0x1p", l.split(" = ", 1)[-1]))
    cov["distinct_nontrivial"] = len(distinct)
    cov["rule"] = ("objects: 17 losses x outputs {1,2,3,5,13} (thorough 1..13) x target patterns (regression dyadic/random, one-hot, no / all / "
                   "random labels) x pinball alpha in {0,.25,.5,.9,1}; 48 prototypes x dims {1,2,3,4,7,16,32} (thorough 1..32); 11 constraint "
                   "kinds with dyadic / random coefficients (P psd / indefinite / negative / non-symmetric); linear (l1,l2 on/off), gboost "
                   "bias/scale/grads, surrogate objectives per loss over random datasets. Per object: points in boxes of radius 1e-3..10 "
                   "around 0 or the kinks (20% snapped to a dyadic grid: exact ties), 2 directions per point (random + coordinate), "
                   "convexity pairs (same box / near x / far / one coordinate) + 12 (thorough 40) hill-climbing steps on violation/tolerance. "
                   "evaluations = calls of the object's value/gradient; distinct_nontrivial = distinct model-tie lines (LV/FN/CN) with a "
                   "non-zero result; everything derived from VERIF_SEED")
    cov["op_histogram"] = dict(ops)
    cov["harness_counts"] = {k: (int(v) if v.isdigit() else v) for k, v in st.items() if k not in ("families", "fail_clauses", "fail_keys")}
    cov["objects_by_family"] = _hist(st.get("families", ""))
    cov["impl_direct_failures"] = len(plain)
    cov["mismatches"] = len(mism)
    cov["candidate_findings"] = candidates
    cov["known_findings_hit"] = [{"fingerprint": fp, "failures": len(cand.get(fp, []))} for fp, _ in r.known_hits]
    cov["coq_side"] = "ok" if cres["ok"] else "BROKEN: %s" % cres["broken"]
    cov["declared_flags"] = {k: list(v) for k, v in sorted(flags.items())}
    cov["objects_total"] = len(flags)
    cov["objects_with_theorems"] = {k: OBJECT_THEOREMS[k] for k in sorted(flags) if k in OBJECT_THEOREMS}
    cov["objects_without_theorem"] = sorted(k for k in flags if k not in OBJECT_THEOREMS)
    missing_thm = sorted(set(t.split(" ")[0] for t in OBJECT_THEOREMS.values()) - set(cres.get("theorems", [])))
    if missing_thm and cres["ok"]:
        r.violation("theorem-table", {"kind": "objects_with_theorems names theorems that Properties_C06.v does not state", "missing": missing_thm}, no_input=True)
    convex_decl = sorted(k for k, v in flags.items() if v[0] == "yes")
    cov["objects_declaring_convex_unconditionally"] = convex_decl
    cov["samples"] = ([l[:500] for l in tie_lines if l.startswith("LV ")][:2] + [l[:500] for l in tie_lines if l.startswith("FN ")][:2]
                      + [l[:500] for l in tie_lines if l.startswith("CN ")][:1]) or [l[:300] for l in lines[:3]]
    cov["unproved_clauses_searched"] = UNPROVED
    cov["not_reached"] = ["floating-point rounding of the values / gradients (the property compares with central differences)",
                          "objects built from user-supplied functions (functional constraints are exercised with the 48 prototypes)"]
    r.assumptions = ["finite inputs inside the search boxes (|x| <= 10, predictions in [-30,30], ML parameters in [-4,4]): no overflow",
                     "NDEBUG build; single evaluation thread or pool of 2 for the ML objectives",
                     "the theorems are about real arithmetic; the library's double arithmetic is tied within 1e-9 of the summed magnitudes"]
    return r.finish("proof")


UNPROVED = [
    "gradient == derivative for squared-hinge (C1 but piecewise), class-NLL as a whole sample, chained_lq / chained_cb3 / maxq / maxhilb / kinks / maxquad on "
    "their kinks (sub-gradient theorems instead) : central differences / one-sided quotients on the implementation. After the second extension every "
    "polynomial benchmark function has a full Taylor expansion theorem and exponential / cauchy / geometric / the cb3 pieces have is_derive theorems",
    "ML objectives (linear, gboost bias / scale / grads, surrogate fit, elastic net): convexity theorems through `loss_convex_on`; gradient == derivative of "
    "these objectives is searched only (central differences) unless the loss kernel is algebraic (exact-Q correspondence)",
    "declared strong convexity of quadratic objects = least eigenvalue of the symmetric part computed by Eigen: the theorem needs a Rayleigh lower "
    "bound; that the numerically computed eigenvalue is one is searched (ext stage: d'Pd >= mu |d|^2 on its pairs; general oracle with hill-climbing)",
    "class-NLL adds machine epsilon inside the logarithm: proved |value - ideal| <= ln(1+eps) and the inequality up to that slack; the exact "
    "inequality is refuted at the 1e-33 level (theorem), unobservable in binary64",
    "value-only == value+gradient (bit-exact for the scalar code, 1e-12 relative for the threaded ML objectives)",
    "per-sample locality on the implementation (batch of 8 == one-by-one within 16 ulp; 0-1 errors exactly)",
    "floating-point: |library value - exact model| <= 1e-9 * (summed magnitudes) for the algebraic objects",
    "transcendental objects agree with their real specification: kernel-checked only at the sampled points of each run (interval "
    "lemmas: losses, exponential / cauchy functions, geometric optimisation, single maxquad entries), not for all inputs; chained_cb3I/II values have no interval tie",
    "maxquad: the transcendental entries are recomputed by the harness (formulas of the constructor) -- the convexity theorem holds for ANY entries, the "
    "placement (mirroring, diagonal) is the model's and is compared with the library through value and gradient on every MQ line",
    "functional constraints: the theorem is conditional on the wrapped function (every registered prototype that declares convex has its own theorem); "
    "forwarding is compared bit for bit on the implementation",
    "ML objectives with transcendental / class-NLL losses: covered by the theorems through `loss_convex_on`, their values are not recomputed by the "
    "model (LM/GB/GS/EN/SF/GG lines use the algebraic kernels mse, mae, pinball, hinge, squared-hinge)"]
