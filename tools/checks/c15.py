"""C15 -- serialization round-trips; truncated / corrupted streams are rejected
(proof over a codec-combinator model + translated kernels + differential correspondence + direct search)."""
import collections
import concurrent.futures
import os
import shutil
import sys
import vlib
sys.path.insert(0, os.path.dirname(os.path.abspath(__file__)))
import c15_fields  # noqa: E402  (the generator of coq/generated/Src_c15_fields.v)


MANIFEST = dict(
    text=("Coq theorems about a byte-level codec-combinator model of libnano's binary formats: for EVERY format built from the "
          "combinators (tensor, string, vector, parameter, configurable, feature, learner, linear, weak learners, gboost, factory "
          "objects) reading back a written stream returns the value and the untouched rest, every strict prefix is rejected, and "
          "whatever is accepted is byte-exactly the encoding of the returned value; for tensors (all ranks, widths 1..8, "
          "signed/unsigned/float) any change of version/rank/sizeof/stored hash, any dims change announcing more elements or a "
          "negative count, and any change of the last element are rejected; a payload change is accepted iff the 64-bit hashes "
          "collide. The unconditional payload claim and the dims claim are REFUTED in Coq (one-byte collision found with z3; "
          "empty tensors) and replayed on the implementation. hash_combine's sum, the header test, the element count and the "
          "version test are translated from source on every run; the extracted reader is compared "
          "with the real readers (ASan+UBSan) on every truncation offset and on single-byte corruptions of real objects, "
          "including fitted linear / gradient boosting models (bit-identical predictions after re-read checked directly). "
          "Extension (stateful readers, C15_Dest_*): nano::read(stream, destination) MUTATES an existing object; the formats are "
          "re-written with their destination handling (string: early-exit test, resize keeps a prefix, per-character overwrite; "
          "vector: resize KEEPS the old elements as destinations; tensor: header in locals, resize(dims) keeps the buffer iff the "
          "element count is unchanged, payload over it, hash test; parameter/feature/configurable/factory objects: locals vs "
          "members vs freshly cloned prototypes) as an executable rd returning the destination state AFTER the call, also on "
          "failure. Proved for every format, every previous destination state and every stream: the stateful reader succeeds "
          "exactly when the pure decoder does and the destination then IS the decoded value (C15_dest_independent, by induction "
          "over the format; C15_dest_formats for all library formats with the early-exit and resize decisions TRANSLATED from "
          "core/stream.h and tensor/stream.h on every run; C15_dest_roundtrip); the two seeded regressions C15/4 and C15/5 are "
          "refuted variants with witnesses (C15_dest_early_exit_refuted, C15_dest_skip_resize_refuted); failure is reported but "
          "not atomic (C15_dest_failure_not_atomic: half-written string and tensor, replayed on the library). Tie: every read of "
          "a valid stream into a used destination (previous object, same element count in another shape, other factory type, "
          "previously loaded fitted model) is re-run by the extracted read_into: the destination must serialise to exactly the "
          "library's bytes; half-written strings/tensors after truncated reads are compared with rd. Extension (field sequences): "
          "tools/checks/c15_fields.py lists for 22 write/read units (14 member / free function pairs + parameter_t::read/write split "
          "by storage kind) the ::nano::write/read calls in source order with the wire "
          "type of each argument (coq/generated/Src_c15_fields.v); C15_fields_as_assumed: the model's format terms are exactly "
          "the interpretation of these sequences and every writer emits what its reader consumes."),
    note=("Coq kernel; translator (9 kernels: hash, header test, element count, version test, string/vector early exit, tensor "
          "resize condition); tools/checks/c15_fields.py (regex extractor of the field sequences; its C++-type -> wire-token table "
          "is trusted, typedef chains are not followed except irange_t & co; the size/type-id fields of the "
          "string/vector/unique_ptr overloads are tied by the correspondence only); functional extensionality (erase of the "
          "destination-aware format terms = the pure format terms); failure states of scalars read through read_cast and of "
          "feature_t::m_type / parameter type are modelled as in-place (documented imprecision, never compared); "
          "extraction (ExtrOcamlBasic); harness + "
          "OCaml driver; little-endian host; allocation behaviour on corrupted size fields observed (plain build under a soft "
          "RLIMIT_AS), modelled as 'reject'; int64 overflow of corrupted dimension products not modelled (single-byte "
          "corruptions cannot reach it)."),
    technique="Coq proof over a translated+extracted codec model, exhaustive-truncation differential correspondence, direct oracle",
    design="DESIGN.md section 2, C15")

VARIANTS = ["asan", "rel"]

KF_COLLISION = "C15-hash-collision-one-byte"
KF_EMPTYDIMS = "C15-empty-tensor-dims-not-hashed"


def setup():
    vlib.build_harness("c15_stream", "asan", need_lib=True, extra="-O1")
    vlib.build_harness("c15_stream", "rel", need_lib=True)
    vlib.build_ocaml("c15_driver", "c15_model.ml", "c15_driver.ml")


def _short(l, n=600):
    return l if len(l) <= n else l[:n] + "...(%d chars)" % len(l)


def _run_harness(exe, args, seed):
    env = {"VERIF_SEED": str(seed), "ASAN_OPTIONS": "detect_leaks=1:abort_on_error=0", "UBSAN_OPTIONS": "print_stacktrace=1"}
    return vlib.sh([exe] + args, timeout=3400, env=env)


def run(tier, replay=None):
    r = vlib.Run("C15", tier)
    if replay:
        # a replay file names the seed (and tier) of the run that produced it: the same objects are regenerated and the
        # failing case reappears in the FAIL/MISMATCH lines (the streams themselves are in the file's `case`)
        import json
        try:
            data = json.load(open(replay))
            r.seed = int(data.get("seed", r.seed))
        except (OSError, ValueError):
            pass
    # 2. Coq: translated kernels + theorems (+ extraction target, built even if a proof breaks)
    # extension (b): the field sequences of every write/read pair, re-read from the working tree
    gen = os.path.join(vlib.COQ, "generated")
    ftable, fnotes, ferr = {}, [], None
    try:
        ftable, fnotes = c15_fields.generate(gen)
    except c15_fields.FieldError as ex:
        ferr = str(ex)
        main = os.path.join(vlib.ROOT, "coq", "generated", "Src_c15_fields.v")
        if not os.path.exists(os.path.join(gen, "Src_c15_fields.v")) and os.path.exists(main):
            os.makedirs(gen, exist_ok=True)
            shutil.copy(main, os.path.join(gen, "Src_c15_fields.v"))   # last good table: the rest of the development still builds
    cres = vlib.coq_check("C15", targets=["theories/Extract_C15.vo", "theories/Properties_C15.vo"])
    if ferr and cres["ok"]:
        cres["ok"] = False
        cres["broken"] = "field-extractor: " + ferr
    # 1./3. implementation runs: ASan+UBSan (round trips, every truncation, safe tensor corruptions) and plain build
    #       under a soft address-space limit (corruptions of every object, including absurd size fields)
    exe_a = vlib.build_harness("c15_stream", "asan", need_lib=True, extra="-O1")
    exe_r = vlib.build_harness("c15_stream", "rel", need_lib=True)
    with concurrent.futures.ThreadPoolExecutor(2) as pool:
        fa = pool.submit(_run_harness, exe_a, [tier], r.seed)
        fr = pool.submit(_run_harness, exe_r, [tier, "corrupt"], r.seed)
        runs = [("asan", exe_a, [tier]) + fa.result(), ("rel", exe_r, [tier, "corrupt"]) + fr.result()]

    all_lines = []
    impl_fail = []
    for name, exe, args, rc, out in runs:
        lines = [l for l in out.split("\n") if l]
        done = [l for l in lines if l.startswith("DONE ")]
        if rc != 0 or not done:
            ops = [l for l in lines if l.split(" ", 1)[0] in ("OBJ", "FAIL", "COLLIDE", "EMPTYDIMS", "MODEL", "REUSE", "HALF")]
            r.violation("crash-" + name,
                        {"kind": "implementation crash (sanitizer report / signal / timeout) while reading or writing a stream",
                         "variant": name, "exit": rc,
                         "last_operations": [_short(l, 3000) for l in ops[-3:]],
                         "sanitizer": [l for l in lines if "ERROR:" in l or "SUMMARY:" in l or " in nano::" in l or "runtime error" in l][:14],
                         "replay_cmd": "VERIF_SEED=%d %s %s" % (r.seed, exe, " ".join(args))}, fingerprint="crash")
        impl_fail += [(name, l) for l in lines if l.startswith("FAIL ")]
        all_lines.append((name, lines))

    # 5. direct oracle on the implementation
    seen_kinds = collections.Counter()
    for name, l in impl_fail:
        kind = l.split(" ", 2)[1]
        seen_kinds[kind] += 1
        if seen_kinds[kind] <= 2 and sum(1 for _ in r.violations) < 5:
            r.violation("impl-%s-%d" % (kind.lower(), seen_kinds[kind]),
                        {"kind": "direct property check failed on the implementation (%s)" % kind, "variant": name,
                         "case": _short(l, 6000),
                         "replay_cmd": "VERIF_SEED=%d %s %s%s | grep '^FAIL'" % (
                             r.seed, exe_a if name == "asan" else exe_r, tier, "" if name == "asan" else " corrupt")})

    # 3./4. correspondence with the extracted model
    mism, prop, checked, verdicts = [], [], 0, 0
    dest = collections.Counter()   # stateful reader stage: reuse / half / hit_early / hit_skip
    drv = None
    try:
        drv = vlib.build_ocaml("c15_driver", "c15_model.ml", "c15_driver.ml")
    except (vlib.CheckError, OSError):
        if cres["ok"]:
            raise
    if drv:
        def _drive(lines):
            keep = [l for l in lines if l.split(" ", 1)[0] in ("VERSION", "FTYPES", "IDS", "WLIDS", "OBJ", "REUSE", "HALF")]
            return vlib.sh([drv], input="\n".join(keep) + "\n", timeout=3400)
        with concurrent.futures.ThreadPoolExecutor(2) as pool:
            outs = list(pool.map(_drive, [ls for _, ls in all_lines]))
        for (name, _), (rc2, mout) in zip(all_lines, outs):
            ok = False
            for l in mout.split("\n"):
                if l.startswith("MISMATCH"):
                    mism.append((name, l))
                elif l.startswith("PROPFAIL"):
                    prop.append((name, l))
                elif l.startswith("MODEL-DONE"):
                    ok = True
                    checked += int(l.split("checked=")[1].split()[0])
                    verdicts += int(l.split("verdicts=")[1].split()[0])
                    for key in ("reuse", "half", "hit_early", "hit_skip"):
                        if key + "=" in l:
                            dest[key] += int(l.split(key + "=")[1].split()[0])
            if rc2 != 0 or not ok:
                r.violation("driver-" + name, {"kind": "model driver failed", "out": mout[-2000:]}, no_input=True)
        for i, (name, l) in enumerate(mism[:3]):
            # the concrete stream is in the line; the property oracle decides separately (FAIL / PROPFAIL lines)
            r.violation("corr-%d" % i, {"kind": "model/implementation disagreement on a concrete stream", "variant": name,
                                        "case": _short(l, 6000),
                                        "meaning": "the real reader/writer leaves the proved codec model on this input"},
                        no_input=not (impl_fail or prop))
        if prop and not impl_fail:
            for i, (name, l) in enumerate(prop[:2]):
                r.violation("prop-%d" % i, {"kind": "implementation accepted a strict prefix (driver oracle)", "case": _short(l, 6000)})

    # refuted clauses replayed on the implementation (never a violation by themselves; KNOWN-FINDING when listed)
    collide = [l for _, ls in all_lines for l in ls if l.startswith("COLLIDE ")]
    emptyd = [l for _, ls in all_lines for l in ls if l.startswith("EMPTYDIMS ")]
    listed = set(f.get("fingerprint") for f in r.kf)
    for l in collide:
        if "verdict=A differs=1" not in l:
            r.violation("collision-replay", {"kind": "the one-byte hash collision proved for the model (C15_payload_refuted) is NOT "
                                                     "accepted by the implementation: model and implementation differ", "case": l},
                        no_input=True)
    if collide and KF_COLLISION in listed:
        r.violation("collision", {"kind": "altered payload byte accepted (64-bit hash collision)", "case": collide[0]},
                    fingerprint=KF_COLLISION)
    if emptyd and KF_EMPTYDIMS in listed:
        r.violation("emptydims", {"kind": "altered dimensions of an empty tensor accepted", "case": emptyd[0]},
                    fingerprint=KF_EMPTYDIMS)

    # the witness of C15_dest_failure_not_atomic replayed on the implementation ("abcdef" <- size 4, "xy", end of stream)
    wit = [l for _, ls in all_lines for l in ls if l.startswith("HALF string | 06000000616263646566 | 040000007879 |")]
    for l in wit[:1]:
        if not l.endswith("| R | 0400000078796364"):
            r.violation("half-witness-replay", {"kind": "the half-written string proved for the model (C15_dest_failure_not_atomic) is not "
                                                        "what the implementation leaves behind: model and implementation differ",
                                                "case": l}, no_input=True)

    vlib.handle_coq_failure(r, cres)
    vlib.proof_coverage(r, cres, "make -C coq theories/Properties_C15.vo && coqc theories/Properties_C15.v (Print Assumptions)",
                        ["tools/translate.py (9 kernels of hash.h, core/stream.h, tensor/stream.h, dims.h, configurable.cpp; "
                         "`<<6`, `>>2` and the hex constant of hash_combine normalised by the atom table)",
                         "extraction: ExtrOcamlBasic only; N/Z/positive extracted as inductives",
                         "ocaml/c15_driver.ml, harness/c15_stream.cpp + c15_models.h, g++ -fsanitize=address,undefined",
                         "field order/widths of the formats: tools/checks/c15_fields.py (regex extractor + trusted C++ type -> wire "
                         "token table) + theorem C15_fields_as_assumed + the differential correspondence",
                         "functional extensionality (C15_dest_formats only)",
                         "little-endian host (x86-64)"])
    # measured coverage
    cov = r.coverage
    objs = [(name, l) for name, ls in all_lines for l in ls if l.startswith("OBJ ")]
    kinds = collections.Counter()
    tverd, cverd = collections.Counter(), collections.Counter()
    distinct = set()
    nreads = 0
    lens = []
    for name, l in objs:
        parts = l[4:].split(" | ")
        if len(parts) < 4:
            continue
        spec, hx, trunc, corr = parts[0], parts[1], parts[2], parts[3]
        kinds[(spec.split(":")[0] + ":" + spec.split(":")[1]) if spec.startswith("object:") else spec.split(":")[0]] += 1
        nreads += 1
        h = vlib.sha(hx)
        if trunc != "-":
            lens.append(len(hx) // 2)
            for k, c in enumerate(trunc):
                tverd[c] += 1
                if k > 0:
                    distinct.add((h, "t", k))
            nreads += len(trunc)
        for c in corr.split(";") if corr else []:
            p = c.split(":")
            if len(p) == 3:
                cverd[p[2]] += 1
                distinct.add((h, "c", p[0], p[1]))
                nreads += 1
    cov["evaluations"] = nreads
    cov["distinct_nontrivial"] = len(distinct)
    cov["rule"] = ("objects generated from VERIF_SEED: tensors (10 scalar types x rank 1..5 x dims 0..6, arbitrary bit patterns), the 7 "
                   "parameter kinds, random configurables and features, every registered loss/solver/tuner/splitter/line-search "
                   "with random valid parameter values, fitted linear and gradient boosting models and every weak learner type; "
                   "per object: the full read, EVERY strict prefix (exhaustive), single-byte corruptions (quick: all positions of tensor "
                   "streams up to 600 bytes and of other streams up to 160 bytes, thorough: up to 4000 resp. 1000 bytes; longer streams: the "
                   "first 64 bytes + a random sample; 2-3 replacement bytes each incl. sign/top bits). "
                   "evaluations = reads of the real reader; distinct non-trivial = distinct (stream, non-empty prefix length) and "
                   "(stream, position, byte) cases")
    cov["objects"] = dict(kinds)
    cov["stream_length_max"] = max(lens) if lens else 0
    cov["truncation_verdicts_impl"] = dict(tverd)
    cov["corruption_verdicts_impl"] = dict(cverd)
    cov["model_checks"] = checked
    cov["model_verdict_comparisons"] = verdicts
    cov["mismatches"] = len(mism)
    reuse_lines = [l for _, ls in all_lines for l in ls if l.startswith("REUSE ")]
    half_lines = [l for _, ls in all_lines for l in ls if l.startswith("HALF ")]
    rk = collections.Counter(l.split(" ", 2)[1].split(":")[0] + (":" + l.split(" ", 2)[1].split(":")[1] if l.split(" ", 2)[1].startswith("object:") else "")
                             for l in reuse_lines)
    cov["stateful_reader"] = {
        "reuse_reads_compared_exactly": dest["reuse"], "by_kind": dict(rk),
        "distinct_reuse_cases": len(set(vlib.sha(l) for l in reuse_lines)),
        "half_written_states_compared": dest["half"], "distinct_half_cases": len(set(vlib.sha(l) for l in half_lines)),
        "reuse_lines_on_which_the_refuted_early_exit_variant_differs": dest["hit_early"],
        "reuse_lines_on_which_the_refuted_skip_resize_variant_differs": dest["hit_skip"],
        "rule": "REUSE: a valid stream read into a destination that already holds another object (previous object of the kind, same "
                "element count in another shape, empty shapes, same-kind objects with other strings, other factory types, previously "
                "loaded fitted model); the extracted read_into must leave a state that serialises to exactly the library's bytes. "
                "HALF: strict prefixes (header cut, payload cut inside / after an element; size field / characters cut) into used "
                "strings and tensors; the half-written state must be the one rd computes (re-allocated tensor buffers: dims and the "
                "arrived bytes only)",
        "samples": [_short(l, 300) for l in reuse_lines[:2]] + [_short(l, 300) for l in half_lines[:1]]}
    cov["field_sequences_from_source"] = {"units": {u: {"write": w, "read": r} for u, (w, r) in ftable.items()},
                                          "extractor_notes": fnotes, "extractor_error": ferr,
                                          "not_resolved_by_the_extractor": [
                                              "typedef chains (TYPE_TOKENS of tools/checks/c15_fields.py is a trusted table)",
                                              "string / vector / unique_ptr overloads of core/stream.h (size width u32/u64, type id): tied by "
                                              "the correspondence and the translated early-exit kernels"]}
    cov["impl_direct_failures"] = len(impl_fail)
    cov["exhaustive"] = False
    cov["samples"] = [_short(l, 400) for _, l in objs[:2]] + [_short(l, 400) for _, l in objs if l.startswith(("OBJ param", "OBJ linear", "OBJ gboost"))][:3] + collide[:1]
    cov["refuted_clauses"] = [
        {"clause": "every altered tensor payload is rejected", "theorem": "C15_payload_refuted", "fingerprint": KF_COLLISION,
         "replayed_on_implementation": collide},
        {"clause": "every altered tensor header is rejected", "theorem": "C15_dims_corruption_refuted",
         "fingerprint": KF_EMPTYDIMS, "accepted_cases_this_run": len(emptyd), "example": _short(emptyd[0], 400) if emptyd else None}]
    cov["unproved_clauses_searched"] = [
        "observational identity of re-read objects beyond the bytes: operator== of parameters/features, equal parameter lists, "
        "bit-identical predictions of re-read linear / gboost models and weak learners (implementation-side oracle)",
        "payload corruptions at inner positions: rejected unless the hashes collide (proved iff; searched: no accepted case)",
        "dims corruptions that announce FEWER elements: rejected unless the prefix hash collides (searched)",
        "corruptions of non-tensor fields (sizes, counts, type ids, version): verdict equality model vs implementation only",
        "no crash / out-of-bounds read on any truncated or corrupted stream (ASan+UBSan, plain build for absurd sizes)",
        "stale destination state beyond the serialised bytes (e.g. capacity, cached values not written by write()): invisible to "
        "both the model and the REUSE oracle, which compare re-serialised bytes",
        "the half-written state of vectors / features / parameters / models after a failed read (modelled by rd, not compared: a "
        "reader that clear()s first is equally valid)"]
    r.assumptions = ["streams are read from memory (std::istringstream); I/O errors of the underlying device are out of scope",
                     "an exception or a failed stream state both count as 'reported failure'",
                     "allocation failure on absurd corrupted sizes (bad_alloc/length_error) is a reported failure; observed in a "
                     "plain build under a soft RLIMIT_AS, not under ASan",
                     "dimension products stay below 2^63 (true for single-byte corruptions of rank <= 5 tensors)"]
    return r.finish("proof")
