"""C16 -- tensor indexing / slicing / reshaping (proof + translator tie + correspondence)."""
import collections
import json
import os
import vlib


MANIFEST = dict(
    text=("Coq theorems (offset range/bijection/injectivity, sub-tensor/vector/matrix views, slices, reshape with one "
          "inferred dimension, gather, summed-area table = naive prefix sums) about an executable model whose arithmetic steps are regenerated from "
          "dims.h/tensor.h on every run by tools/translate.py; the extracted model is compared with the real tensor "
          "classes (ASan+UBSan) on an exhaustive enumeration of small shapes and random large ones. The three tensor "
          "storages (owning / mapping / constant mapping) and their conversions are a heap model (freed buffers read "
          "None) with 5 theorems: owning := view copies before it frees -- also for a view into the destination's own "
          "buffer --, constructors, views alias, frame; STO scripts executed by the real tensors (self-aliasing and "
          "disjoint cases, every slice of every enumerated shape) are replayed by the extracted model. The summed-area "
          "table is also run with input scalars narrower than the output scalar at the limits of the input type "
          "(accumulation must happen in the output type)."),
    note=("Coq kernel; translator (13 kernels); extraction (ExtrOcamlBasic); harness + OCaml driver; NDEBUG build: only "
          "valid accesses explored; Eigen Map/vector storage modelled as a flat list."),
    technique="Coq proof over a translated+extracted model, exhaustive differential correspondence",
    design="DESIGN.md section 2, C16")

VARIANTS = []  # header-only: no library build needed


def setup():
    vlib.build_harness("c16_tensor", "asan", need_lib=False, extra="-O1")
    vlib.build_ocaml("c16_driver", "c16_model.ml", "c16_driver.ml")


def run(tier, replay=None):
    r = vlib.Run("C16", tier)
    # 2. Coq: translated kernels + theorems (+ extraction target, built even if a proof breaks)
    cres = vlib.coq_check("C16", targets=["theories/Extract_C16.vo", "theories/Properties_C16.vo"])
    # 1./3. implementation run (ASan+UBSan), header-only: compiled from the working tree
    exe = vlib.build_harness("c16_tensor", "asan", need_lib=False, extra="-O1")
    rc, out = vlib.sh([exe, tier], timeout=3000, env={"VERIF_SEED": str(r.seed)})
    lines = [l for l in out.split("\n") if l]
    done = [l for l in lines if l.startswith("DONE ")]
    impl_fail = [l for l in lines if l.startswith("FAIL ")]
    ops = collections.Counter(l.split(" ", 1)[0] for l in lines)
    crashed = rc != 0 or not done
    if crashed:
        r.violation("crash", {"kind": "implementation-crash (sanitizer report / signal) during a valid access",
                              "exit": rc, "mode": tier,
                              "last_operations": [l for l in lines if l.split(" ", 1)[0].isupper() and not l.startswith("==")][-5:],
                              "sanitizer": [l for l in lines if "ERROR:" in l or "SUMMARY:" in l or " in nano::" in l][:12],
                              "replay_cmd": "VERIF_SEED=%d %s %s" % (r.seed, exe, tier)}, fingerprint="crash")
    for l in impl_fail[:3]:
        r.violation("impl-%d" % (impl_fail.index(l)), {"kind": "direct property check failed on the implementation",
                                                       "case": l, "replay_cmd": "%s %s | grep FAIL" % (exe, tier)})
    # 3. correspondence with the extracted model
    mism, checked = [], 0
    drv = None
    try:
        drv = vlib.build_ocaml("c16_driver", "c16_model.ml", "c16_driver.ml")
    except (vlib.CheckError, OSError) as ex:
        if cres["ok"]:
            raise
    if drv:
        rc2, mout = vlib.sh([drv], input="\n".join(l for l in lines if not l.startswith(("FAIL", "DONE"))) + "\n", timeout=3000)
        for l in mout.split("\n"):
            if l.startswith(("MISMATCH", "PROPFAIL")):
                mism.append(l)
            elif l.startswith("MODEL-DONE"):
                checked = int(l.split("checked=")[1].split()[0])
        if rc2 != 0 or not checked:
            r.violation("driver", {"kind": "model driver failed", "out": mout[-2000:]}, no_input=True)
        for i, l in enumerate(mism[:3]):
            # the model *is* the row-major specification proved in Properties_C16: a disagreement on a valid
            # access is a concrete input on which the implementation leaves the proved behaviour
            r.violation("corr-%d" % i, {"kind": "model/implementation disagreement", "case": l,
                                        "meaning": "implementation result differs from the row-major model on this input"})
    vlib.handle_coq_failure(r, cres)
    vlib.proof_coverage(r, cres, "make -C coq theories/Properties_C16.vo && coqc theories/Properties_C16.v (Print Assumptions)",
                        ["tools/translate.py (13 kernels of dims.h/tensor.h/numeric.h)",
                         "extraction: ExtrOcamlBasic only; Z/nat/positive extracted as inductives",
                         "ocaml/c16_driver.ml, harness/c16_tensor.cpp, g++ -fsanitize=address,undefined"])
    cov = r.coverage
    cov["evaluations"] = len(lines)
    cov["correspondence_lines_checked"] = checked
    cov["distinct_nontrivial"] = len(set(l for l in lines if l.split(" ", 1)[0] in ("OFF", "OFF0", "TENSOR", "VECTOR", "MATRIX", "SLICE", "RESHAPE", "GATHER", "INTEGRAL") and " = 0" != l[-4:]))
    cov["rule"] = ("exhaustive shapes (quick: rank1-3 dims 0..4, rank4 dims 0..2; thorough: rank1-4 dims 0..4, rank5 dims 0..3, "
                   "10 scalar types) x every index tuple/prefix/slice/factorisation, random gathers, random shapes up to 1e5 "
                   "elements; non-trivial = distinct operation line whose result is not the bare 0")
    cov["op_histogram"] = dict(ops)
    cov["mismatches"] = len(mism)
    cov["impl_direct_failures"] = len(impl_fail)
    cov["samples"] = [l for l in lines if l.startswith(("OFF 3,4,2", "SLICE 3,2", "RESHAPE 4,3 |", "GATHER 3,2", "INTEGRAL 2,3"))][:8] or lines[:5]
    cov["exhaustive"] = True
    cov["unproved_clauses_searched"] = ["storage conversions: the heap model of C16_StorageDefs.v is tied by replaying the STO scripts "
                                        "(self-aliasing owning := view, constructor, view := storage on disjoint ranges); that Eigen's "
                                        "resize frees the old buffer is the model's assumption (ASan shows a use-after-free otherwise)"]
    cov["excluded_inputs"] = ["reshape with a -1 whose remaining product is 0 (integer division by zero in treshape; outside the guard of C16_reshape_infer)"]
    r.assumptions = ["assertions are compiled out (NDEBUG) as in the library build; only valid accesses are explored",
                     "ASan/UBSan detect out-of-bounds touches of the explored accesses"]
    return r.finish("proof")
