"""C02 -- every solver returns an honest, self-consistent result within bounded budget
(proof over an extracted model + translated kernels + differential correspondence + trace acceptance + direct oracle).
C01 shares the model, the harness and this machinery (tools/checks/c01.py calls run_shared)."""
import collections
import os
import re
import vlib

MANIFEST = dict(
    text=("Coq theorems, for ALL client op sequences over an executable binary64 model of nano::solver_state_t and "
          "solver_t::done (update / update_if_better / value_test / gradient_test / valid / done): monotone best value that is "
          "never replaced by a non-finite one (IEEE facts proved through Flocq), history book-keeping, value_test "
          "specification, status in {max_iters, converged, failed} with `converged` only from a done() call with a true flag, a valid "
          "state and iter_ok (repo commits 3c2475d, 85997bc -- both defects found by this check), reported "
          "evaluation counts below the evaluations performed, budget-loop overshoot bound; and for every trace accepted by "
          "the done()-event acceptor: returned state = designated snapshot, valid unless failed. The integer/boolean "
          "kernels (done decision, value_test indices, call counters, the budget-loop condition of all 18 solver loops) "
          "are translated from the source on every run. Tie: the real solver_state_t is driven through its public API "
          "with random op sequences and compared bit for bit with the extracted model; all 35 registered solvers + 3 "
          "constrained ones run on registered and generated functions with the NANO_VERIF done() hooks and their traces "
          "must be accepted. Direct oracle with a recording wrapper function: value/gradient at the returned point, call "
          "counts, finiteness, not worse than the start, budget overshoot. Termination and the per-iteration evaluation "
          "bound of the solver bodies are searched, not proved -- EXCEPT for the line-search solvers (extension, stage lsloop): "
          "the whole do_minimize of gd.cpp and the common skeleton of cgd/lbfgs/quasi.cpp are inside the model (ls_solver_run = "
          "C02's state/done composed with C07's bit-exact line searches; objective, g.d, direction rule and lsearch0 are oracles) "
          "and, for every oracle: termination with at most max_evals - 1 + 2*ls_bound + 1 evaluations, the returned triple is "
          "an answer of the oracle at the returned point, with an Armijo-type search (backtrack, lemarechal, fletcher) every "
          "accepted iterate has f_{k+1} <= f_k in binary64 (Flocq) hence f(returned) <= f(x0) unless failed (a theorem since repo "
          "commit 85997bc; refuted with a witness before it, and the pre-fix decision is kept as done_ref_prefix), CG_DESCENT's "
          "slack, status facts incl. converged => the last line search succeeded. Tie: 600 "
          "(thorough 12000) whole runs of the real gd / cgd-* / lbfgs / quasi solvers with a recording function and a "
          "recording lsearch0: the extracted model must request exactly the recorded evaluation points bit for bit and end "
          "in the same state, status and counters. Extension 2 (stage bodies): the whole do_minimize of sgm.cpp, cocob.cpp and "
          "pdsgm.cpp (sda, wda) is inside the model (body_run = one skeleton over a rule computing the next point; element-wise "
          "vector code bit-exact; lpNorm<2>, libm pow and tanh are oracle inputs) and, for every oracle / parameter value / budget: "
          "termination with exactly one evaluation per pass and at most max(2, max_evals + 1) evaluations (also for ANY rule), the "
          "returned triple is an oracle answer, fx <= f(x0) in binary64 for a finite start, valid unless failed, `converged` means "
          "exactly value_test(patience) < epsilon after a finite evaluation or the zero-sub-gradient exit (the reading `converged => "
          "near-optimal` is refuted with a witness and reproduced on the real wda), cocob's L >= |g| and reward >= 0, the guard of "
          "the division by |g|. Tie: 800 (thorough 16000) whole runs of the real sgm / cocob / sda / wda replayed bit for bit. "
          "Targeted family T4 (repo commit 31bf93f): rqb / fpba on convex functions with max_evals 10..20 -- the budget running out "
          "inside the curve search must not resurrect the status of the previous call (direct oracle worse-than-start). "
          "Extension 3 (stage bodies2): the whole do_minimize of ellipsoid.cpp, osga.cpp, universal.cpp (pgm, dgm, fgm) and asga.cpp "
          "(asga2, asga4) is inside the model (body2_run: a pass of the budget loop is a program of evaluation requests with the capped "
          "inner backtracking loop; scalar and element-wise code bit-exact; Eigen reductions, libm exp, gHg and the n-D ellipsoid update "
          "are oracle inputs; the reference of that update is C03's en_step, imported) and, for every oracle / parameter / budget: "
          "termination with fcalls + gcalls <= max(2, max_evals - 1 + B) for the PROVED per-pass bound B (2 ellipsoid, 3 osga, 2/3/4 x "
          "lsearch_max_iters pgm/dgm/fgm, 4 x lsearch_max_iters asga -- which parameter caps the inner loop is translated from the source: "
          "seeded change C02/3), B <= 400 <= 1100 + 8 dim for lsearch_max_iters <= 100 (not on asga's whole domain: refuted), returned "
          "point / value (sub-gradient except osga) is an oracle answer, fx <= f(x0), status facts, what `converged` means per body, the "
          "guard of the ellipsoid's division by sqrt(gHg) (Flocq), how the inner loops end, osga's alpha > 0 refuted (exp(-kappa) = 0). Tie: "
          "1050 (thorough 21000) whole runs of the seven real solvers replayed bit for bit."),
    note=("Coq kernel; Flocq + FloatAxioms (binary64 = PrimFloat); translator (31 kernels); extraction (ExtrOcamlBasic + "
          "ExtrOCamlFloats); harness + OCaml driver; NANO_VERIF hooks in solver.cpp/augmented.cpp/random.cpp (add-only); "
          "Eigen reductions are inputs, only max-abs / scalar code is recomputed bit-exactly; NDEBUG build. Extension lsloop: "
          "+ C07's model/kernels/PrimFloat reading, 4 kernels (final return of gd/cgd/lbfgs/quasi), harness c02_lsloop.cpp, "
          "driver c02ls_driver.ml; 'accepted steps are not negative and the Armijo bound is finite' is a ghost flag of the "
          "model, searched on the implementation. Extension bodies: + 17 kernels (group c02b: decisions of sgm.cpp / cocob.cpp / "
          "pdsgm.cpp), harness c02_bodies.cpp, driver c02b_driver.ml (tanh / pow of the OCaml runtime = the same libm); lpNorm<2> "
          "recomputed by the harness with the library's expression (cross-checked against long double); Eigen's lpNorm<Infinity> = "
          "max-abs on NaN-free vectors; the dead members of pdsgm's model_t (m_Sk, m_xk1h, m_lgx) are not modelled. Extension bodies2: "
          "+ 35 kernels (group c02c), harness c02_bodies2.cpp (+ values hook ev_ellipsoid_update), driver c02c_driver.ml: dot / squaredNorm "
          "/ lpNorm<2> are answered in Eigen's summation order (3.4, SSE2), tied to the library by DOT lines on every run; exp / sqrt of the "
          "OCaml runtime; the n-D ellipsoid update and gHg are taken from the hook and compared with C03_Defs.en_step over binary64 "
          "within 1e-3; asga with lsearch_max_iters <= 0 (outside its domain) is not modelled faithfully."),
    technique="Coq proof over a translated+extracted binary64 model, differential correspondence, trace acceptance, direct oracle with a recording function",
    design="DESIGN.md section 2, C02")

VARIANTS = ["rel"]

HARNESS = "c02_solver"


def _ensure_numeric():
    """Src_c02.v imports Src_numeric (translate.py adds that import to every group): on a fresh alternate tree
    generate it from the C16 kernel table (same anchor everybody uses) without touching the group's definition"""
    import translate
    p = os.path.join(vlib.COQ, "generated", "Src_numeric.v")
    if not os.path.exists(p):
        try:
            translate.run("C16")
        except translate.TranslateError:
            pass


def setup():
    vlib.build_harness(HARNESS, "rel")
    vlib.build_ocaml("c02_driver", "c02_model.ml", "c02_driver.ml", floats=True)
    vlib.build_harness("c02_lsloop", "rel")
    try:
        vlib.build_ocaml("c02ls_driver", "c02ls_model.ml", "c02ls_driver.ml", floats=True)
    except (vlib.CheckError, OSError):
        pass
    vlib.build_harness("c02_bodies", "rel")
    try:
        vlib.build_ocaml("c02b_driver", "c02b_model.ml", "c02b_driver.ml", floats=True)
    except (vlib.CheckError, OSError):
        pass
    vlib.build_harness("c02_bodies2", "rel")
    try:
        vlib.build_ocaml("c02c_driver", "c02c_model.ml", "c02c_driver.ml", floats=True)
    except (vlib.CheckError, OSError):
        pass


def run_block(lines, rid):
    """the lines of one RUN (for replay files), long events shortened"""
    out, on = [], False
    for l in lines:
        if l.startswith("RUN %s " % rid):
            on = True
        if on:
            out.append(l[:1500])
            if l.startswith("END %s" % rid):
                break
    if len(out) > 60:
        out = out[:12] + ["... (%d lines omitted)" % (len(out) - 40)] + out[-28:]
    return out


def seq_block(lines, sid, upto):
    out = []
    for l in lines:
        if l.startswith("S %s " % sid):
            out.append(l[:1200])
            if l == upto:
                break
    return out[-40:]


def run_shared(pid, mode, tier, extra_trusted, unproved, assumptions, pre_coq=None, coq_targets=(), stage=None):
    """pre_coq(): called before the Coq build; coq_targets: additional .vo targets; stage(r, cres) -> dict merged into the
    coverage (an additional, separately named part of the check: tools/checks/c02.py uses it for the line-search loop)"""
    r = vlib.Run(pid, tier)
    _ensure_numeric()
    pre_err = None
    if pre_coq:
        try:
            pre_coq()
        except (vlib.CheckError, OSError) as ex:
            pre_err = str(ex)
    cres = vlib.coq_check(pid, targets=["theories/Extract_C02.vo"] + list(coq_targets) + ["theories/Properties_%s.vo" % pid])
    if pre_err and cres["ok"]:
        cres["ok"] = False
        cres["broken"] = "float-reading:" + pre_err
    exe = vlib.build_harness(HARNESS, "rel")
    drv = None
    try:
        drv = vlib.build_ocaml("c02_driver", "c02_model.ml", "c02_driver.ml", floats=True)
    except (vlib.CheckError, OSError):
        if cres["ok"]:
            raise
    rc, out = vlib.sh([exe, tier, mode], timeout=3300, env={"VERIF_SEED": str(r.seed)})
    lines = [l for l in out.split("\n") if l]
    done = [l for l in lines if l.startswith("DONE ")]
    fails = [l for l in lines if l.startswith("FAIL ")]
    replay_cmd = "VERIF_SEED=%d %s %s %s" % (r.seed, exe, tier, mode)
    if rc != 0 or not done:
        last = [l for l in lines if l.startswith("RUN ")][-1:]
        r.violation("crash", {"kind": "implementation crashed / did not terminate (exit %s)" % rc, "last_run": last,
                              "tail": [l[:400] for l in lines[-8:]], "replay_cmd": replay_cmd}, fingerprint="crash")
    seen = set()
    for l in fails:
        m = re.match(r"FAIL (\d+) (\S+)", l)
        rid, clause = (m.group(1), m.group(2)) if m else ("?", "?")
        if clause in seen or len(seen) >= 4:
            continue
        seen.add(clause)
        hdr = [x for x in lines if x.startswith("RUN %s " % rid)]
        solver = re.search(r"solver=(\S+)", hdr[0]).group(1) if hdr else "?"
        r.violation("impl-%s" % clause[:40], {"kind": "direct property check failed on the implementation", "clause": clause, "what": l,
                                              "run": run_block(lines, rid), "replay_cmd": replay_cmd + " " + rid},
                    fingerprint="%s:%s" % (solver, clause))
    stats = {}
    mism, pf = [], []
    if drv:
        rc2, mout = vlib.sh([drv], input="\n".join(lines) + "\n", timeout=3000)
        for l in mout.split("\n"):
            if l.startswith("MISMATCH"):
                mism.append(l)
            elif l.startswith("PROPFAIL"):
                pf.append(l)
            elif l.startswith("MODEL-DONE"):
                stats = {k: int(v) for k, v in re.findall(r"(\w+)=(\d+)", l)}
        if rc2 != 0 or not stats.get("checked"):
            r.violation("driver", {"kind": "model driver failed", "out": mout[-2000:]}, no_input=True)
        for i, l in enumerate(pf[:3]):
            m = re.search(r"RUN (\d+)", l)
            ms = re.search(r": (S (\d+) .*)$", l)
            r.violation("prop-%d" % i, {"kind": "executable mirror of a theorem fails on what the implementation returned", "what": l[:3000],
                                        "run": run_block(lines, m.group(1)) if m else [],
                                        "sequence": seq_block(lines, ms.group(2), ms.group(1)) if ms else [],
                                        "replay_cmd": replay_cmd})
        for i, l in enumerate(mism[:3]):
            m = re.search(r"RUN (\d+)", l)
            ms = re.match(r"MISMATCH SEQ (S (\d+) .*?) // model:", l)
            # a disagreement is a concrete input on which the implementation leaves the modelled (proved) behaviour
            payload = {"kind": "model/implementation disagreement", "what": l[:3000], "replay_cmd": replay_cmd}
            if m:
                payload["run"] = run_block(lines, m.group(1))
            if ms:
                payload["sequence"] = seq_block(lines, ms.group(2), ms.group(1))
            r.violation("corr-%d" % i, payload)
    stage_cov = stage(r, cres) if stage else {}
    vlib.handle_coq_failure(r, cres)
    vlib.proof_coverage(r, cres, "make -C coq theories/Properties_%s.vo && coqc theories/Properties_%s.v (Print Assumptions)" % (pid, pid),
                        ["tools/translate.py (31 kernels: solver_t::done decision, value_test indices, vgrad counters, 18 budget-loop conditions)",
                         "extraction: ExtrOcamlBasic + ExtrOCamlFloats (binary64 = OCaml float)",
                         "ocaml/c02_driver.ml, harness/c02_solver.cpp (recording wrapper function, hooks)",
                         "NANO_VERIF hooks: solver_t::done entry/exit, augmented-lagrangian outer event, make_rng seed (add-only)"]
                        + list(extra_trusted))
    cov = r.coverage
    ops = collections.Counter()
    solvers = collections.Counter()
    funcs = collections.Counter()
    dims = collections.Counter()
    status = collections.Counter()
    nontrivial = set()
    for l in lines:
        t = l.split(" ", 3)
        if t[0] == "S" and len(t) > 2:
            ops[t[2]] += 1
            nontrivial.add(l.split(" ", 2)[2])
        elif t[0] == "RUN":
            solvers[re.search(r"solver=(\S+)", l).group(1)] += 1
            funcs[re.search(r"func=([^\[ ]+)", l).group(1)] += 1
            dims[re.search(r" n=(\d+)", l).group(1)] += 1
        elif t[0] == "RET":
            status[{"0": "max_iters", "1": "converged", "2": "failed"}.get(t[2], t[2])] += 1
        elif t[0] == "ORA":
            m = re.search(r"events=(\d+)", l)
            if m and int(m.group(1)) > 1:
                nontrivial.add(l)
    cov["evaluations"] = stats.get("checked", 0)
    cov["distinct_nontrivial"] = len(nontrivial)
    cov["rule"] = ("op sequences: 1..4 dims, 5..60 ops, values aimed at the df > 0 split (equal, +-1 ulp, denormal difference, "
                   "non-finite), patience aimed at the three-way split of value_test; solver runs: every registered solver x random "
                   "registered/generated function x dims {1,2,3,4,5,8,16,32} x x0 radius 1e-3..10 x epsilon x max_evals 10..5000 x "
                   "lsearch0 x lsearchk x (c1,c2) x patience/history; non-trivial = distinct op line, or solver run with more than "
                   "one done() event (distinct measurement line)")
    cov["model_stats"] = stats
    cov["op_histogram"] = dict(ops)
    cov["solver_histogram"] = dict(solvers)
    cov["function_histogram"] = dict(funcs.most_common(60))
    cov["dims_histogram"] = dict(dims)
    cov["returned_status_histogram"] = dict(status)
    cov["mismatches"] = len(mism)
    cov["theorem_mirror_failures"] = len(pf)
    cov["impl_direct_failures"] = len(fails)
    cov["ambiguous_skipped"] = stats.get("ambiguous_skipped", 0)
    smp = [l[:300] for l in lines if l.startswith(("S 3 B", "S 3 T", "RUN 5 ", "RET 5 ", "ORA 5 "))][:8]
    cov["samples"] = smp or [l[:300] for l in lines[:5]]
    cov["unproved_clauses_searched"] = list(unproved)
    if stage_cov:
        cov["evaluations"] = cov.get("evaluations", 0) + stage_cov.pop("_evaluations", 0)
        cov["distinct_nontrivial"] = cov.get("distinct_nontrivial", 0) + stage_cov.pop("_distinct", 0)
        cov["trusted_base"] = list(cov.get("trusted_base", [])) + stage_cov.pop("_trusted", [])
        cov.update(stage_cov)
    r.assumptions = list(assumptions)
    return r.finish("proof")


# ------------------------------------------------------------------------------------------------------------------------
# stage "lsloop": whole runs of the real line-search solvers replayed by the extracted ls_solver_run (C02_LsLoop_Defs.v)
# ------------------------------------------------------------------------------------------------------------------------
LS_HARNESS = "c02_lsloop"


def _pre_coq_lsloop():
    """C02_LsLoop_Defs imports C07_Defs, which imports the PrimFloat reading of the C07 kernels (generated by
    tools/checks/c07.py from Src_c07.v): regenerate both from the working tree before the Coq build"""
    import translate
    import c07
    try:
        translate.run("C02")
    except translate.TranslateError:
        pass  # reported by coq_check (same call, same error)
    c07.gen_float_twin()


def _ls_block(path, rid, limit=60):
    out, on = [], False
    try:
        with open(path) as f:
            for l in f:
                l = l.rstrip("\n")
                t = l.split(" ", 2)
                if len(t) > 1 and t[1] == rid and (t[0].startswith("LS") or t[0] == "FAIL"):
                    on = True
                    out.append(l[:700])
                    if t[0] == "LSEND":
                        break
                elif on and t[0] == "LSRUN":
                    break
    except OSError:
        pass
    if len(out) > limit:
        out = out[:14] + ["... (%d lines omitted)" % (len(out) - 40)] + out[-26:]
    return out


def stage_lsloop(r, cres):
    import shlex
    exe = vlib.build_harness(LS_HARNESS, "rel")
    drv = None
    try:
        drv = vlib.build_ocaml("c02ls_driver", "c02ls_model.ml", "c02ls_driver.ml", floats=True)
    except (vlib.CheckError, OSError):
        if cres["ok"]:
            raise
    rundir = os.path.join(vlib.WORK, "c02ls")
    os.makedirs(rundir, exist_ok=True)
    out_path = os.path.join(rundir, "run-%d-%s.txt" % (r.seed, r.tier))
    rc, err = vlib.sh("%s %s > %s" % (shlex.quote(exe), shlex.quote(r.tier), shlex.quote(out_path)), timeout=3000,
                      env={"VERIF_SEED": str(r.seed)})
    replay_cmd = "VERIF_SEED=%d %s %s" % (r.seed, exe, r.tier)
    fails, done, hist, nruns = [], "", "", 0
    with open(out_path) as f:
        for l in f:
            if l.startswith("FAIL "):
                fails.append(l.rstrip("\n"))
            elif l.startswith("DONE "):
                done = l.strip()
            elif l.startswith("LSHIST"):
                hist = l.strip()
            elif l.startswith("LSRUN "):
                nruns += 1
    if rc != 0 or not done:
        r.violation("lsloop-crash", {"kind": "implementation crashed / did not terminate in a whole solver run (exit %s)" % rc,
                                     "tail": err[-1500:], "replay_cmd": replay_cmd}, fingerprint="lsloop-crash")
    seen = set()
    for l in fails:
        m = re.match(r"FAIL (\d+) (\S+)", l)
        rid, clause = (m.group(1), m.group(2)) if m else ("?", "?")
        if clause in seen or len(seen) >= 4:
            continue
        seen.add(clause)
        blk = _ls_block(out_path, rid)
        solver = blk[0].split(" ")[2] if blk else "?"
        r.violation("lsloop-impl-%s" % clause[:40], {"kind": "direct property check failed on a whole run of the implementation",
                                                     "clause": clause, "what": l[:600], "run": blk,
                                                     "replay_cmd": replay_cmd + " " + rid},
                    fingerprint="lsloop:%s:%s" % (solver, clause))
    stats, dhist, mism, pf = {}, "", [], []
    if drv:
        rc2, mout = vlib.sh("%s < %s" % (shlex.quote(drv), shlex.quote(out_path)), timeout=3000)
        for l in mout.split("\n"):
            if l.startswith("MISMATCH"):
                mism.append(l)
            elif l.startswith("PROPFAIL"):
                pf.append(l)
            elif l.startswith("HIST "):
                dhist = l[5:]
            elif l.startswith("MODEL-DONE"):
                stats = {k: int(v) for k, v in re.findall(r"(\w+)=(\d+)", l)}
        if rc2 != 0 or not stats.get("checked"):
            r.violation("lsloop-driver", {"kind": "model driver failed", "out": mout[-2000:]}, no_input=True)
        for i, l in enumerate(pf[:3]):
            m = re.search(r"RUN (\d+)", l)
            r.violation("lsloop-prop-%d" % i, {"kind": "conclusion of a C02_lsloop theorem fails on the recorded run of the implementation",
                                               "what": l[:1500], "run": _ls_block(out_path, m.group(1)) if m else [],
                                               "replay_cmd": replay_cmd + (" " + m.group(1) if m else "")})
        for i, l in enumerate(mism[:3]):
            m = re.search(r"RUN (\d+)", l)
            r.violation("lsloop-corr-%d" % i, {"kind": "the extracted ls_solver_run and the real solver disagree on a whole run",
                                               "what": l[:1500], "run": _ls_block(out_path, m.group(1)) if m else [],
                                               "replay_cmd": replay_cmd + (" " + m.group(1) if m else "")})
    samples = []
    with open(out_path) as f:
        for l in f:
            if l.startswith(("LSRUN 7 ", "LSIT 7 0 ", "LSDN 7 ", "LSRET 7 ")):
                samples.append(l.strip()[:260])
    return {
        "_evaluations": stats.get("checked", 0),
        "_distinct": stats.get("line_searches", 0),
        "_trusted": ["lsloop: harness/c02_lsloop.cpp (recording function_t, recording lsearch0 wrapper, done() hooks), "
                     "ocaml/c02ls_driver.ml, extraction Extract_C02LS.v; 4 translated kernels (final return of gd/cgd/lbfgs/quasi); "
                     "C07's model and translated kernels (imported)"],
        "lsloop_runs_replayed": stats.get("checked", 0),
        "lsloop_runs": nruns,
        "lsloop_evaluations_matched_bit_for_bit": stats.get("evaluations", 0),
        "lsloop_line_searches": stats.get("line_searches", 0),
        "lsloop_mismatches": len(mism),
        "lsloop_theorem_mirror_failures": len(pf),
        "lsloop_impl_direct_failures": len(fails),
        "lsloop_harness_histogram": hist[7:] if hist else "",
        "lsloop_model_histogram": dhist,
        "lsloop_rule": ("whole runs: solver in {gd (1/3), cgd-* x10, lbfgs, dfp, sr1, bfgs, hoshino, fletcher} x objective in {22 registered "
                        "smooth functions, random quadratics, 1-D adversarial (NaN wall, infinite slope, oscillating, double well, overflow, "
                        "flat, hill, barrier)} optionally restricted to a box (non-finite outside) or scaled by 1e-220..1e-150 / 1e100..1e300 x "
                        "dims {1,2,3,4,8,16} x lsearchk x max_iterations (1, 1..3, 2..8, 8..40, 128, 20..200) x (c1,c2) x lsearch0 "
                        "(cgdescent with its value-only trial, constant, linear, quadratic) x epsilon (1e-300..1e-1) x max_evals "
                        "(10..14, 10..60, 60..200, 20..500/3000); distinct = line searches replayed"),
        "lsloop_samples": samples[:6],
    }


# ------------------------------------------------------------------------------------------------------------------------
# stage "bodies": whole runs of the real sgm / cocob / sda / wda solvers replayed by the extracted body_run (C02_Bodies_Defs.v)
# ------------------------------------------------------------------------------------------------------------------------
B_HARNESS = "c02_bodies"


def _b_block(path, rid, limit=60):
    out, on = [], False
    try:
        with open(path) as f:
            for l in f:
                l = l.rstrip("\n")
                t = l.split(" ", 2)
                if len(t) > 1 and t[1] == rid and (t[0] in ("BRUN", "BEV", "BDN", "BRET", "BEND", "FAIL")):
                    on = True
                    out.append(l[:700])
                    if t[0] == "BEND":
                        break
                elif on and t[0] == "BRUN":
                    break
    except OSError:
        pass
    if len(out) > limit:
        out = out[:14] + ["... (%d lines omitted)" % (len(out) - 40)] + out[-26:]
    return out


def stage_bodies(r, cres):
    import shlex
    exe = vlib.build_harness(B_HARNESS, "rel")
    drv = None
    try:
        drv = vlib.build_ocaml("c02b_driver", "c02b_model.ml", "c02b_driver.ml", floats=True)
    except (vlib.CheckError, OSError):
        if cres["ok"]:
            raise
    rundir = os.path.join(vlib.WORK, "c02b")
    os.makedirs(rundir, exist_ok=True)
    out_path = os.path.join(rundir, "run-%d-%s.txt" % (r.seed, r.tier))
    rc, err = vlib.sh("%s %s > %s" % (shlex.quote(exe), shlex.quote(r.tier), shlex.quote(out_path)), timeout=3000,
                      env={"VERIF_SEED": str(r.seed)})
    replay_cmd = "VERIF_SEED=%d %s %s" % (r.seed, exe, r.tier)
    fails, done, hist, nruns = [], "", "", 0
    with open(out_path) as f:
        for l in f:
            if l.startswith("FAIL "):
                fails.append(l.rstrip("\n"))
            elif l.startswith("DONE "):
                done = l.strip()
            elif l.startswith("BHIST"):
                hist = l.strip()
            elif l.startswith("BRUN "):
                nruns += 1
    if rc != 0 or not done:
        r.violation("bodies-crash", {"kind": "implementation crashed / did not terminate in a whole solver run (exit %s)" % rc,
                                     "tail": err[-1500:], "replay_cmd": replay_cmd}, fingerprint="bodies-crash")
    seen = set()
    for l in fails:
        m = re.match(r"FAIL (\d+) (\S+)", l)
        rid, clause = (m.group(1), m.group(2)) if m else ("?", "?")
        if clause in seen or len(seen) >= 4:
            continue
        seen.add(clause)
        blk = _b_block(out_path, rid)
        solver = blk[0].split(" ")[2] if blk else "?"
        r.violation("bodies-impl-%s" % re.sub(r"[^A-Za-z0-9_.-]", "_", clause[:40]), {"kind": "direct property check failed on a whole run of the implementation",
                                                     "clause": clause, "what": l[:600], "run": blk,
                                                     "replay_cmd": replay_cmd + " " + rid},
                    fingerprint="bodies:%s:%s" % (solver, clause))
    stats, dhist, mism, pf = {}, "", [], []
    if drv:
        rc2, mout = vlib.sh("%s < %s" % (shlex.quote(drv), shlex.quote(out_path)), timeout=3000)
        for l in mout.split("\n"):
            if l.startswith("MISMATCH"):
                mism.append(l)
            elif l.startswith("PROPFAIL"):
                pf.append(l)
            elif l.startswith("HIST "):
                dhist = l[5:]
            elif l.startswith("MODEL-DONE"):
                stats = {k: int(v) for k, v in re.findall(r"(\w+)=(\d+)", l)}
        if rc2 != 0 or not stats.get("checked"):
            r.violation("bodies-driver", {"kind": "model driver failed", "out": mout[-2000:]}, no_input=True)
        for i, l in enumerate(pf[:3]):
            m = re.search(r"RUN (\d+)", l)
            r.violation("bodies-prop-%d" % i, {"kind": "conclusion of a C02_bodies theorem fails on the recorded run of the implementation",
                                               "what": l[:1500], "run": _b_block(out_path, m.group(1)) if m else [],
                                               "replay_cmd": replay_cmd + (" " + m.group(1) if m else "")})
        for i, l in enumerate(mism[:3]):
            m = re.search(r"RUN (\d+)", l)
            r.violation("bodies-corr-%d" % i, {"kind": "the extracted body_run and the real solver disagree on a whole run",
                                               "what": l[:1500], "run": _b_block(out_path, m.group(1)) if m else [],
                                               "replay_cmd": replay_cmd + (" " + m.group(1) if m else "")})
    samples = []
    with open(out_path) as f:
        for l in f:
            if l.startswith(("BRUN 5 ", "BEV 5 0 ", "BEV 5 1 ", "BDN 5 0 ", "BRET 5 ")):
                samples.append(l.strip()[:260])
    return {
        "_evaluations": stats.get("checked", 0),
        "_distinct": stats.get("passes", 0),
        "_trusted": ["bodies: harness/c02_bodies.cpp (recording function_t, done() hooks; lpNorm<2> / lpNorm<Infinity> / std::pow recomputed "
                     "with the library's own expressions and cross-checked against long double), ocaml/c02b_driver.ml (libm tanh/pow of the "
                     "OCaml runtime), extraction Extract_C02B.v; 17 translated kernels of sgm.cpp / cocob.cpp / pdsgm.cpp (group c02b)"],
        "bodies_runs_replayed": stats.get("checked", 0),
        "bodies_runs": nruns,
        "bodies_evaluations_matched_bit_for_bit": stats.get("evaluations", 0),
        "bodies_passes": stats.get("passes", 0),
        "bodies_mismatches": len(mism),
        "bodies_theorem_mirror_failures": len(pf),
        "bodies_impl_direct_failures": len(fails),
        "bodies_ambiguous_skipped": stats.get("ambiguous_skipped", 0),
        "bodies_tanh_calls": stats.get("tanh_calls", 0),
        "bodies_pow_differs_from_driver_libm": stats.get("pow_differs_from_this_libm", 0),
        "bodies_harness_histogram": hist[6:] if hist else "",
        "bodies_model_histogram": dhist,
        "bodies_rule": ("whole runs: solver in {sgm, cocob, sda, wda} (1/4 each) x objective in {48 registered functions (smooth and not, convex "
                        "and not), random quadratics, max-of-affine, scaled |x - c|_1 (exactly zero sub-gradient at c), 1-D adversarial (NaN "
                        "wall, oscillating, overflow, steep kink, plateau, barrier)} optionally restricted to a box (NaN / +inf / infinite "
                        "sub-gradient / -inf outside) or scaled by 1e-220..1e-150 / 1e100..1e300 x dims {1,2,3,4,8,16} x x0 (random, 0, "
                        "quarter-integers, 1) x epsilon (1e-300..1e-1) x max_evals (10..14, 10..40, 40..120, 20..400/2000) x patience (10, "
                        "10..12, 10..40, 1000, 1e6) x power (0.5, 0.75, 1, random) / L0 and D (DBL_MAX, 1e-300, default, 1e-20..1e6); "
                        "distinct = passes replayed"),
        "bodies_samples": samples[:6],
    }


B2_HARNESS = "c02_bodies2"


def _b2_block(path, rid, limit=60):
    out, on = [], False
    try:
        with open(path) as f:
            for l in f:
                l = l.rstrip("\n")
                t = l.split(" ", 2)
                if len(t) > 1 and t[1] == rid and (t[0] in ("CRUN", "CEV", "CEL", "CDN", "CRET", "CEND", "FAIL")):
                    on = True
                    out.append(l[:700])
                    if t[0] == "CEND":
                        break
                elif on and t[0] == "CRUN":
                    break
    except OSError:
        pass
    if len(out) > limit:
        out = out[:14] + ["... (%d lines omitted)" % (len(out) - 40)] + out[-26:]
    return out


def stage_bodies2(r, cres):
    import shlex
    exe = vlib.build_harness(B2_HARNESS, "rel")
    drv = None
    try:
        drv = vlib.build_ocaml("c02c_driver", "c02c_model.ml", "c02c_driver.ml", floats=True)
    except (vlib.CheckError, OSError):
        if cres["ok"]:
            raise
    rundir = os.path.join(vlib.WORK, "c02c")
    os.makedirs(rundir, exist_ok=True)
    out_path = os.path.join(rundir, "run-%d-%s.txt" % (r.seed, r.tier))
    rc, err = vlib.sh("%s %s > %s" % (shlex.quote(exe), shlex.quote(r.tier), shlex.quote(out_path)), timeout=3000,
                      env={"VERIF_SEED": str(r.seed)})
    replay_cmd = "VERIF_SEED=%d %s %s" % (r.seed, exe, r.tier)
    fails, done, hist, nruns = [], "", "", 0
    with open(out_path) as f:
        for l in f:
            if l.startswith("FAIL "):
                fails.append(l.rstrip("\n"))
            elif l.startswith("DONE "):
                done = l.strip()
            elif l.startswith("CHIST"):
                hist = l.strip()
            elif l.startswith("CRUN "):
                nruns += 1
    if rc != 0 or not done:
        r.violation("bodies2-crash", {"kind": "implementation crashed / did not terminate in a whole solver run (exit %s)" % rc,
                                     "tail": err[-1500:], "replay_cmd": replay_cmd}, fingerprint="bodies2-crash")
    seen = set()
    for l in fails:
        m = re.match(r"FAIL (\d+) (\S+)", l)
        rid, clause = (m.group(1), m.group(2)) if m else ("?", "?")
        if clause in seen or len(seen) >= 4:
            continue
        seen.add(clause)
        blk = _b2_block(out_path, rid)
        solver = blk[0].split(" ")[2] if blk else "?"
        r.violation("bodies2-impl-%s" % re.sub(r"[^A-Za-z0-9_.-]", "_", clause[:40]), {"kind": "direct property check failed on a whole run of the implementation",
                                                     "clause": clause, "what": l[:600], "run": blk,
                                                     "replay_cmd": replay_cmd + " " + rid},
                    fingerprint="bodies2:%s:%s" % (solver, clause))
    stats, dhist, mism, pf = {}, "", [], []
    if drv:
        rc2, mout = vlib.sh("%s < %s" % (shlex.quote(drv), shlex.quote(out_path)), timeout=3000)
        for l in mout.split("\n"):
            if l.startswith("MISMATCH"):
                mism.append(l)
            elif l.startswith("PROPFAIL"):
                pf.append(l)
            elif l.startswith("HIST "):
                dhist = l[5:]
            elif l.startswith("MODEL-DONE"):
                stats = {k: int(v) for k, v in re.findall(r"(\w+)=(\d+)", l)}
        if rc2 != 0 or not stats.get("checked"):
            r.violation("bodies2-driver", {"kind": "model driver failed", "out": mout[-2000:]}, no_input=True)
        for i, l in enumerate(pf[:3]):
            m = re.search(r"RUN (\d+)", l)
            r.violation("bodies2-prop-%d" % i, {"kind": "conclusion of a C02_bodies2 theorem fails on the recorded run of the implementation",
                                               "what": l[:1500], "run": _b2_block(out_path, m.group(1)) if m else [],
                                               "replay_cmd": replay_cmd + (" " + m.group(1) if m else "")})
        for i, l in enumerate(mism[:3]):
            m = re.search(r"RUN (\d+)", l)
            r.violation("bodies2-corr-%d" % i, {"kind": "the extracted body2_run and the real solver disagree on a whole run",
                                               "what": l[:1500], "run": _b2_block(out_path, m.group(1)) if m else [],
                                               "replay_cmd": replay_cmd + (" " + m.group(1) if m else "")})
    samples = []
    with open(out_path) as f:
        for l in f:
            if l.startswith(("CRUN 8 ", "CEV 8 0 ", "CEV 8 1 ", "CDN 8 0 ", "CRET 8 ")):
                samples.append(l.strip()[:260])
    ellref = ""
    if drv:
        m = re.search(r"ELLREF worst_relative_deviation=(\S+)", mout)
        ellref = m.group(1) if m else ""
    return {
        "_evaluations": stats.get("checked", 0),
        "_distinct": stats.get("passes", 0),
        "_trusted": ["bodies2: harness/c02_bodies2.cpp (recording function_t, done() hooks, values hook ev_ellipsoid_update), "
                     "ocaml/c02c_driver.ml (Eigen's summation order for dot / squaredNorm / lpNorm<2>, tied to the library by the DOT lines of "
                     "every run; libm exp of the OCaml runtime), extraction Extract_C02C.v; 35 translated kernels of ellipsoid.cpp / osga.cpp / "
                     "universal.cpp / asga.cpp (group c02c); C03_Defs.en_step (imported) as the reference of the n-D ellipsoid update"],
        "bodies2_runs_replayed": stats.get("checked", 0),
        "bodies2_runs": nruns,
        "bodies2_evaluations_matched_bit_for_bit": stats.get("evaluations", 0),
        "bodies2_passes": stats.get("passes", 0),
        "bodies2_mismatches": len(mism),
        "bodies2_theorem_mirror_failures": len(pf),
        "bodies2_impl_direct_failures": len(fails),
        "bodies2_ambiguous_skipped": stats.get("ambiguous_skipped", 0),
        "bodies2_reductions_answered_in_eigen_order": stats.get("dots", 0),
        "bodies2_dot_calibration_lines": stats.get("dot_lines", 0),
        "bodies2_exp_calls": stats.get("exp_calls", 0),
        "bodies2_ellipsoid_updates": stats.get("ellipsoid_updates", 0),
        "bodies2_ellipsoid_updates_checked_against_C03_en_step": stats.get("ellipsoid_updates_checked_against_C03", 0),
        "bodies2_ellipsoid_worst_relative_deviation_from_C03_en_step": ellref,
        "bodies2_harness_histogram": hist[6:] if hist else "",
        "bodies2_model_histogram": dhist,
        "bodies2_rule": ("whole runs: solver in {ellipsoid, osga, pgm, dgm, fgm, asga2, asga4} (1/7 each) x objective in {48 registered functions, "
                         "random quadratics, max-of-affine, scaled |x - c|_1, 1-D adversarial (NaN wall, oscillating, overflow, steep kink, plateau, "
                         "barrier)} optionally restricted to a box (NaN / +inf / infinite sub-gradient / -inf outside) or scaled by 1e-220..1e-150 / "
                         "1e100..1e300, optional strong convexity parameter x dims {1 (1/4 of the ellipsoid runs: bisection branch),2,3,4,8,16} x x0 "
                         "(random, 0, quarter-integers, 1) x epsilon (1e-300..1e-1) x max_evals (10..14, 10..40, 40..160, 20..400/2000) x patience x "
                         "R (1e160, 1e-300, 10, 1e-3..1e3) / osga lambda, alpha_max, kappas (kappa up to 1e4 kappa': exp(-kappa) = 0) / L0 (1, 1e-300, "
                         "1e300, 1e-12..1e4), gamma1, gamma2, lsearch_max_iters (10, 100, random; patience and max_evals differ from it); "
                         "distinct = passes replayed"),
        "bodies2_samples": samples[:6],
    }


def stage_extensions(r, cres):
    """the three extension stages; their private keys are merged"""
    a = stage_lsloop(r, cres)
    out = dict(a)
    for b in (stage_bodies(r, cres), stage_bodies2(r, cres)):
        for k, v in b.items():
            if k in ("_evaluations", "_distinct"):
                out[k] = out.get(k, 0) + v
            elif k == "_trusted":
                out[k] = list(out.get(k, [])) + list(v)
            else:
                out[k] = v
    return out


def run(tier, replay=None):
    return run_shared(
        "C02", "c02", tier, [],
        ["termination of minimize() (every run must return; a hang is a crash violation) -- proved for the line-search loop (lsloop) and "
         "for sgm / cocob / sda / wda (bodies) and for ellipsoid / osga / pgm / dgm / fgm / asga2 / asga4 (bodies2); searched for rqb, fpba*, gs*, "
         "the constrained solvers",
         "reported value = f(returned point) on the real solvers (recording wrapper: the returned (x, fx[, gx]) must be one of "
         "the evaluated triples bit for bit, and agree with a fresh evaluation within 1e-9 relative) -- the theorem covers "
         "clients that only store evaluated triples; that every solver body is such a client is searched",
         "finite point/value unless failed, on the real solvers (theorem only for accepted traces)",
         "f(returned) <= f(x0) + 5e-4 (1+|f0|) in the documented class for the line-search and RQB solvers (theorem only for "
         "update_if_better clients)",
         "evaluations <= max_evals + 1100 + 8 n (per inner solve for the constrained solvers): the per-iteration bound B of "
         "each solver body is measured, the loop-shape bound given B is proved"],
        ["NDEBUG build: assertions compiled out as in the library build",
         "Eigen's lpNorm<Infinity> on NaN-free vectors = max of absolute values (vectors with NaN are excluded from the "
         "bit-exact comparison of gradient_test and counted as ambiguous_skipped)",
         "the constraint values / multipliers of a state enter valid() as one observed flag",
         "the gradient-sampling solvers are made deterministic with verif::g_rng_seed",
         "lsloop: gx.dot(descent) is taken from the run (Eigen reduction); x + t*d, -gx, the line searches, done() are bit-exact",
         "bodies: g.lpNorm<2>() as recomputed by the harness with the same Eigen expression is the value the library read (validated by "
         "the bit-exact next evaluation point); std::tanh / std::pow of the OCaml runtime are the libm functions the library calls",
         "bodies: max_evals >= 10 and patience >= 10 (registered domains) in the runs; the theorems hold for every integer",
         "bodies2: Eigen's reductions sum in the order the driver implements (checked against the library by 57 DOT lines per run); "
         "asga2 / asga4: lsearch_max_iters >= 1 (registered domain [10, 1000])"],
        pre_coq=_pre_coq_lsloop, coq_targets=["theories/Extract_C02LS.vo", "theories/Extract_C02B.vo", "theories/Extract_C02C.vo"], stage=stage_extensions)
