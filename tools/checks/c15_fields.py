"""C15 (extension b): the FIELD SEQUENCES of libnano's binary formats, read off the source on every run.

For every `write(std::ostream&)` / `read(std::istream&)` member pair of the serialized classes (and the free function
pairs of dtree_node_t, the tensor stream and the parameter range helpers) the generator lists, in source order, the
`::nano::write(stream, X)` / `::nano::read(stream, X)` / `read_cast<T>` / `write_cast<T>` calls and the `base_t::read(stream)`
calls, and resolves the C++ type of X from a declaration (cast, local, function argument, member of the class header) to a
*wire token*:
    int4 / int8 (scalar of that many bytes), string, raw24 (tensor3d_dims_t), vec(T), tensor(width,s|u,rank), feature,
    param, object(wlearner), dtree_node, base(config|learner|single), dims(trank) / payload (tensor stream only),
    ?<text> for anything it cannot resolve.
The result is coq/generated/Src_c15_fields.v:
    src_c15_fields : list (string * (list string * list string))     -- unit |-> (write sequence, read sequence)
C15_Fields.v proves that the model's format terms are exactly the interpretation of these sequences and that every
writer emits what its reader consumes (same order, same widths).

Segmentation is regex based on the clang-formatted tree (function = from its column-0 signature to the next column-0 `}`).
TYPE_TOKENS is a trusted table (typedef chains are not followed)."""
import os
import re

REPO = os.path.realpath(os.environ.get("VERIF_REPO", "/repo"))

TYPE_TOKENS = {
    "int32_t": "int4", "uint32_t": "int4", "int64_t": "int8", "uint64_t": "int8", "tensor_size_t": "int8",
    "scalar_t": "int8", "double": "int8", "tscalar": "int8",   # range_t<tscalar> is instantiated for int64_t / scalar_t only (checked)
    "string_t": "string", "std::string": "string", "std::string_view": "string", "strings_t": "vec(string)",
    "tensor3d_dims_t": "raw24",
    "tensor1d_t": "tensor(8,u,1)", "tensor2d_t": "tensor(8,u,2)", "tensor4d_t": "tensor(8,u,4)",
    "indices_t": "tensor(8,s,1)", "hashes_t": "tensor(8,u,1)",
    "parameters_t": "vec(param)", "features_t": "vec(feature)", "feature_t": "feature",
    "rwlearners_t": "vec(object(wlearner))", "dtree_nodes_t": "vec(dtree_node)",
}
BASE_TOKENS = {"configurable_t": "base(config)", "learner_t": "base(learner)", "wlearner_t": "base(learner)",
               "single_feature_wlearner_t": "base(single)"}

# unit, file, regex of the write signature, regex of the read signature, headers with the member declarations
UNITS = [
    ("feature", "src/feature.cpp", r"feature_t::write\(std::ostream& stream\) const", r"feature_t::read\(std::istream& stream\)",
     ["include/nano/feature.h"]),
    ("configurable", "src/configurable.cpp", r"configurable_t::write\(std::ostream& stream\) const",
     r"configurable_t::read\(std::istream& stream\)", ["include/nano/configurable.h"]),
    ("learner", "src/learner.cpp", r"learner_t::write\(std::ostream& stream\) const", r"learner_t::read\(std::istream& stream\)",
     ["include/nano/learner.h"]),
    ("linear", "src/linear.cpp", r"linear_t::write\(std::ostream& stream\) const", r"linear_t::read\(std::istream& stream\)",
     ["include/nano/linear.h"]),
    ("gboost", "src/gboost/model.cpp", r"gboost_model_t::write\(std::ostream& stream\) const",
     r"gboost_model_t::read\(std::istream& stream\)", ["include/nano/gboost/model.h"]),
    ("single", "src/wlearner/single.cpp", r"single_feature_wlearner_t::write\(std::ostream& stream\) const",
     r"single_feature_wlearner_t::read\(std::istream& stream\)", ["include/nano/wlearner/single.h"]),
    ("stump", "src/wlearner/stump.cpp", r"stump_wlearner_t::write\(std::ostream& stream\) const",
     r"stump_wlearner_t::read\(std::istream& stream\)", ["include/nano/wlearner/stump.h"]),
    ("hinge", "src/wlearner/hinge.cpp", r"hinge_wlearner_t::write\(std::ostream& stream\) const",
     r"hinge_wlearner_t::read\(std::istream& stream\)", ["include/nano/wlearner/hinge.h"]),
    ("table", "src/wlearner/table.cpp", r"table_wlearner_t::write\(std::ostream& stream\) const",
     r"table_wlearner_t::read\(std::istream& stream\)", ["include/nano/wlearner/table.h"]),
    ("dtree", "src/wlearner/dtree.cpp", r"dtree_wlearner_t::write\(std::ostream& stream\) const",
     r"dtree_wlearner_t::read\(std::istream& stream\)", ["include/nano/wlearner/dtree.h"]),
    ("dtree_node", "src/wlearner/dtree.cpp", r"nano::write\(std::ostream& stream, const dtree_node_t& node\)",
     r"nano::read\(std::istream& stream, dtree_node_t& node\)", ["include/nano/wlearner/dtree.h"]),
    ("tensor", "include/nano/tensor/stream.h", r"std::ostream& write\(std::ostream& stream, const tensor_t<tstorage, tscalar, trank>& tensor\)",
     r"std::istream& read\(std::istream& stream, tensor_t<tstorage, tscalar, trank>& tensor\)", []),
    ("param_range", "src/parameter.cpp",
     r"void write\(const string_t& name, std::ostream& stream, int32_t type, const parameter_t::range_t<tscalar>& param\)",
     r"auto read\(const string_t& name, std::istream& stream, parameter_t::range_t<tscalar>\)",
     [("include/nano/parameter.h", r"struct range_t\b.*?\n    \};")]),
    ("param_pair_range", "src/parameter.cpp",
     r"void write\(const string_t& name, std::ostream& stream, int32_t type, const parameter_t::pair_range_t<tscalar>& param\)",
     r"auto read\(const string_t& name, std::istream& stream, parameter_t::pair_range_t<tscalar>\)",
     [("include/nano/parameter.h", r"struct pair_range_t\b.*?\n    \};")]),
]


class FieldError(Exception):
    pass


def _strip(src):
    src = re.sub(r"//[^\n]*", "", src)
    return re.sub(r"/\*.*?\*/", "", src, flags=re.S)


def _read(rel):
    try:
        return _strip(open(os.path.join(REPO, rel)).read())
    except OSError as ex:
        raise FieldError("cannot read %s (%s)" % (rel, ex))


def _function(src, sig, rel):
    """signature (regex) ... body up to the closing brace at the indentation of the signature line"""
    m = re.search(r"^([ \t]*)[^\n]*?" + sig + r"\s*\n\1\{\n(.*?)\n\1\}", src, re.S | re.M)
    if not m:
        raise FieldError("function `%s` not found in %s" % (sig.replace("\\", ""), rel))
    return m.group(0), m.group(2)


def _balanced(text, start):
    """text[start] is just after '(' : returns (inside, index after the matching ')')"""
    depth, i = 1, start
    while i < len(text) and depth:
        if text[i] in "([{":
            depth += 1
        elif text[i] in ")]}":
            depth -= 1
        i += 1
    return text[start:i - 1], i


def _split_args(s):
    out, depth, cur = [], 0, ""
    for c in s:
        if c in "([{<" and not (c == "<" and depth == 0 and not re.search(r"(cast|_t)\s*$", cur)):
            depth += 1
        elif c in ")]}>" and depth:
            depth -= 1
        if c == "," and depth == 0:
            out.append(cur.strip())
            cur = ""
        else:
            cur += c
    out.append(cur.strip())
    return out


_DECL_TYPES = "|".join(sorted((re.escape(t) for t in TYPE_TOKENS), key=len, reverse=True))


def _resolve(arg, cast, whole, headers, notes):
    """wire token of the value `arg` written/read by one call"""
    if cast:
        return TYPE_TOKENS.get(cast, "?cast<%s>" % cast)
    a = arg.strip()
    m = re.match(r"static_cast<\s*([\w:]+)\s*>\(", a)
    if m:
        return TYPE_TOKENS.get(m.group(1), "?static_cast<%s>" % m.group(1))
    if re.match(r"scat\(", a):
        return "string"                                     # scat(...) builds a std::string
    if re.match(r"detail::hash_version\(\)$", a):
        hs = _read("include/nano/core/hash.h")
        m2 = re.search(r"constexpr\s+(\w+)\s+hash_version\s*\(\)", hs)
        return TYPE_TOKENS.get(m2.group(1), "?" + a) if m2 else "?" + a
    if re.match(r"detail::hash\(", a):
        hs = _read("include/nano/core/hash.h")
        m2 = re.search(r"(\w+)\s+hash\s*\(const tscalar\* data, const tsize size\)", hs)
        return TYPE_TOKENS.get(m2.group(1), "?" + a) if m2 else "?" + a
    if re.match(r"make_flag\(", a):
        ps = _read("src/parameter.cpp")
        m2 = re.search(r"auto make_flag\(LEorLT comp\)\s*\{\s*return[^;]*\?\s*1U\s*:\s*0U;", ps)
        return "int4" if m2 else "?" + a                    # `1U : 0U` is an unsigned int
    m = re.match(r"(?:::)?nano::(major|minor|patch)_version$", a)
    if m:
        vs = _read("cmake/version.h.in")
        m2 = re.search(r"constexpr\s+(\w+)\s+%s_version\s*=" % m.group(1), vs)
        return TYPE_TOKENS.get(m2.group(1), "?" + a) if m2 else "?" + a
    name = re.sub(r"^(?:\w+)\.", "", a)                      # node.m_feature, param.m_value -> the member
    # a local / an argument of the function
    m = re.search(r"\b(%s)\s*&?\s+%s\b\s*(?:=|;|,|\)|\{)" % (_DECL_TYPES, re.escape(name)), whole)
    if m:
        return TYPE_TOKENS[m.group(1)]
    for h in headers:
        if isinstance(h, tuple):                             # (file, regex of the struct the members belong to)
            ms = re.search(h[1], _read(h[0]), re.S)
            hs = ms.group(0) if ms else ""
        else:
            hs = _read(h)
        m = re.search(r"^\s*(?:mutable\s+)?([\w:]+(?:<[^;>]*>)?)\s+%s\b\s*(?:\{[^;]*\})?\s*;" % re.escape(name), hs, re.M)
        if m:
            t = m.group(1)
            if t in TYPE_TOKENS:
                return TYPE_TOKENS[t]
            notes.append("member %s has type %s (no wire token)" % (name, t))
            return "?" + t
    return "?" + a


NAMES = {}   # id(token list) -> list of member names (m_xxx mentioned by the argument, "" if none), filled by _sequence


def _member(arg):
    m = re.search(r"\bm_\w+", arg or "")
    return m.group(0) if m else ""


def _sequence(whole, body, headers, direction, notes):
    items = []
    for m in re.finditer(r"\b(\w+)::(read|write)\(stream\)", body):
        if m.group(2) == direction:
            items.append((m.start(), BASE_TOKENS.get(m.group(1), "?base " + m.group(1)), ""))
    for m in re.finditer(r"::nano::(read|write)(_cast<\s*([\w:]+)\s*>)?\(", body):
        if m.group(1) != direction:
            notes.append("a %s call inside a %s function" % (m.group(1), direction))
        inside, _ = _balanced(body, m.end())
        args = _split_args(inside)
        if not args or args[0] != "stream":
            continue
        rest = args[1:]
        if len(rest) == 2 and re.match(r"(\w+\.)?dims\(\)\.data\(\)$|dims\.data\(\)$", rest[0]):
            tok = _resolve("", m.group(3), whole, headers, notes)
            items.append((m.start(), "dims(%s,%s)" % (rest[1], tok), ""))
        elif len(rest) == 2 and re.match(r"tensor\.data\(\)$", rest[0]) and rest[1] == "tensor.size()":
            items.append((m.start(), "payload", ""))
        elif len(rest) == 1:
            items.append((m.start(), _resolve(rest[0], m.group(3), whole, headers, notes), _member(rest[0])))
        else:
            items.append((m.start(), "?" + inside, ""))
    toks = [t for _, t, _ in sorted(items)]
    NAMES[id(toks)] = [n for _, _, n in sorted(items)]
    return toks


UNIT_NAMES = {}   # unit -> (member names of the write calls, member names of the read calls)


def parse():
    """returns (table: unit -> (write tokens, read tokens), notes: list of str)"""
    table, notes = {}, []
    UNIT_NAMES.clear()
    # the two checked side conditions of TYPE_TOKENS
    ph = _read("include/nano/parameter.h")
    inst = sorted(set(re.findall(r"=\s*(?:pair_)?range_t<\s*(\w+)\s*>", ph)))
    if not inst or any(TYPE_TOKENS.get(t) != "int8" for t in inst):
        notes.append("range_t is instantiated for %s: `tscalar` is not an 8-byte scalar everywhere" % inst)
    for unit, rel, wsig, rsig, headers in UNITS:
        src = _read(rel)
        ww, wb = _function(src, wsig, rel)
        rw, rb = _function(src, rsig, rel)
        table[unit] = (_sequence(ww, wb, headers, "write", notes), _sequence(rw, rb, headers, "read", notes))
        UNIT_NAMES[unit] = (NAMES[id(table[unit][0])], NAMES[id(table[unit][1])])
    # wlearner_t has no read/write of its own (base(learner) stands for learner_t::read through wlearner_t)
    for rel in ("src/wlearner.cpp",):
        try:
            if re.search(r"wlearner_t::(read|write)\(std::[io]stream&", _read(rel)):
                notes.append("wlearner_t defines its own read/write: base(learner) is wrong for the weak learners")
        except FieldError:
            pass
    parse_parameter(table, notes)
    for unit, (w, r) in table.items():
        for t in w + r:
            if t.startswith("?"):
                notes.append("%s: unresolved `%s`" % (unit, t[1:]))
    return table, notes


PARAM_KINDS = [  # unit, variant type of the std::visit lambda in parameter_t::write
    ("param_none", "std::monostate"), ("param_enum", "enum_t"), ("param_irange", "irange_t"), ("param_frange", "frange_t"),
    ("param_iprange", "iprange_t"), ("param_fprange", "fprange_t"), ("param_string", "string_t")]


def parse_parameter(table, notes):
    """parameter_t::write is a std::visit over the 7 storage kinds (one lambda each, which sets `type = K`), parameter_t::read a
    switch over the type read from the stream: unit param_<kind> = (tokens of the lambda, tokens read before the switch ++ tokens
    of the `case K:` whose body mentions the same kind); `type=K` is the first token on both sides, a call of the shared range
    helpers is the token range(<kind>)"""
    rel = "src/parameter.cpp"
    src = _read(rel)
    ww, wb = _function(src, r"parameter_t::write\(std::ostream& stream\) const", rel)
    rw, rb = _function(src, r"parameter_t::read\(std::istream& stream\)", rel)
    hdr = ["include/nano/parameter.h"]
    # ---- reader: before the switch, then per case
    msw = re.search(r"\bswitch \(type\)", rb)
    if not msw:
        raise FieldError("parameter_t::read: no `switch (type)`")
    pre = _sequence(rw, rb[:msw.start()], hdr, "read", notes)
    cases = {}
    parts = re.split(r"\bcase (-?\d+):", rb[msw.end():])
    for k, body in zip(parts[1::2], parts[2::2]):
        body = re.split(r"\bdefault:", body)[0]
        toks = _sequence(rw + body, body, hdr, "read", notes)
        for m in re.finditer(r"::read\(m_name, stream, (\w+)\{\}\)", body):
            toks.append("range(%s)" % m.group(1))
        cases[int(k)] = (toks, body)
    # ---- writer: one lambda per kind
    for unit, kind in PARAM_KINDS:
        m = re.search(r"\[&\]\(const %s&\s*(\w*)\)\s*\{" % re.escape(kind), wb)
        if not m:
            raise FieldError("parameter_t::write: no lambda for %s" % kind)
        body, _ = _balanced(wb, m.end())
        scope = [("include/nano/parameter.h", r"struct enum_t\b.*?\n    \};")] if kind == "enum_t" else hdr
        whole = ("const %s& %s;" % (kind, m.group(1))) + body + " string_t m_name;"
        wt = _sequence(whole, body, scope, "write", notes)
        mt = re.search(r"const int32_t type\s*=\s*(-?\d+);", body)
        mr = re.search(r"::write\(m_name, stream, (-?\d+), param\)", body)
        if mr:
            k = int(mr.group(1))
            wt = ["type=%d" % k, "range(%s)" % kind]
        elif mt:
            k = int(mt.group(1))
            wt = ["type=%d" % k] + wt[1:] if wt and wt[0] == "int4" else ["?type"] + wt
        else:
            k = None
            wt = ["?type"] + wt
        if k in cases:
            ctoks, cbody = cases[k]
            if ctoks and ctoks[0].startswith("range("):
                rt = ["type=%d" % k] + ctoks
            else:
                rt = ["type=%d" % k] + pre[1:] + ctoks if pre and pre[0] == "int4" else ["?pre"] + ctoks
        else:
            rt = ["?no case %s" % k]
        table[unit] = (wt, rt)
    table["param_header"] = (pre, pre)
    # irange_t & co are aliases of the two helper templates: range(irange_t) -> call(range_t)
    alias = dict(re.findall(r"using\s+(\w+)\s*=\s*(pair_range_t|range_t)<", _read("include/nano/parameter.h")))
    for unit, _ in PARAM_KINDS:
        table[unit] = tuple([re.sub(r"^range\((\w+)\)$", lambda m: "call(%s)" % alias.get(m.group(1), "?" + m.group(1)), t) for t in side]
                            for side in table[unit])


def generate(gen_dir):
    table, notes = parse()
    q = lambda s: '"%s"' % s.replace('"', '""')
    lst = lambda l: "[" + "; ".join(q(t) for t in l) + "]"
    order = [u for u, *_ in UNITS] + ["param_header"] + [u for u, _ in PARAM_KINDS]
    rows = ["  (%s, (%s,\n      %s))" % (q(u), lst(table[u][0]), lst(table[u][1])) for u in order]
    txt = ("(* GENERATED by tools/checks/c15_fields.py from /repo's working tree -- do not edit.\n"
           "   unit |-> (tokens of the write calls in source order, tokens of the read calls in source order) *)\n"
           "From Coq Require Import String List.\nImport ListNotations.\nLocal Open Scope string_scope.\n\n"
           "Definition src_c15_fields : list (string * (list string * list string)) := [\n" + ";\n".join(rows) + "].\n")
    nrows = ["  (%s, (%s,\n      %s))" % (q(u), lst(UNIT_NAMES[u][0]), lst(UNIT_NAMES[u][1])) for u, *_ in UNITS]
    txt += ("\n(* the member (m_xxx) each call mentions, \"\" if it mentions none (locals, casts of constants): a writer and its reader\n"
            "   must name the same member at the same position *)\n"
            "Definition src_c15_names : list (string * (list string * list string)) := [\n" + ";\n".join(nrows) + "].\n")
    os.makedirs(gen_dir, exist_ok=True)
    path = os.path.join(gen_dir, "Src_c15_fields.v")
    if not os.path.exists(path) or open(path).read() != txt:
        open(path, "w").write(txt)
    return table, notes


if __name__ == "__main__":
    t, n = parse()
    for u, (w, r) in t.items():
        print(u, "\n   W", w, "\n   R", r)
    print("notes:", n)
