"""C20 -- order statistics (percentile/median) and histogram_t vs a sorted-array reference
(proof + translator tie + bit-exact differential correspondence + direct oracle)."""
import collections
import os
import re
import vlib


MANIFEST = dict(
    text=("Coq theorems about a polymorphic executable model of stats.h/histogram.h (rank characterisation of the "
          "selected order statistic, percentile = element/midpoint at the binary64-computed position, exactness of "
          "that position on the grid k/16 x n<=512 by exhaustive kernel computation, median, bins partition the "
          "values and hold exactly the values with thr[b-1] <= v < thr[b], bin(v) agrees with the counting rule for "
          "every v, exact means) whose integer decisions are regenerated from the sources on every run; the extracted "
          "model instantiated at IEEE binary64 is compared bit for bit with the real library (percentiles, positions, "
          "thresholds from ratios/percentiles, counts, means, medians, bin lookups) and an independent exact-integer "
          "oracle is applied to the library's answers. Extension (C20_FloatDefs/C20_Float, through Flocq): for EVERY "
          "dyadic percentage k/2^j and EVERY size n with k(n-1) < 2^53 (j <= 1015) the binary64 product p*(n-1) is exact, "
          "the quotient by 100 is correctly rounded and lpos/rpos are floor/ceil of the exact rational position, hence "
          "percentile = the sorted-array reference for lists of any length (C20_position_exact, C20_percentile_exact, "
          "C20_median_all); for every double in [0,100] the position is the twice rounded real expression, the indices "
          "stay in range, are neighbours and are monotone in p (C20_position_any/_monotone); the binary64 midpoint of the "
          "repaired code (/repo 985fdb5: isfinite(a+b) ? (a+b)/2 : a/2+b/2) is finite and lies in [a,b] for ALL finite "
          "a <= b, equals fl(fl(a+b)/2) when the sum is finite and the correctly rounded exact midpoint when it overflows "
          "(C20_midpoint; the pre-repair expression is kept as C20_midpoint_prefix_refuted, witness DBL_MAX twice); three "
          "refuted position statements with witnesses (the first round's conjecture for j<=20, n<=2^31 is false; beyond "
          "2^53; underflow). The position "
          "expression, the index casts and the two-branch midpoint are translated from stats.h on every run (group pctpos) and "
          "pinned by C20_kernel_position/_indices. A POS/MID stage runs detail::percentile over a lazily generated "
          "sorted array (n up to 2^46+1) aimed at integral and next-to-integral exact positions: bit-exact "
          "correspondence, theorem instances evaluated on the library's indices, independent 128-bit oracle."),
    note=("Coq kernel + PrimFloat + Flocq (FloatAxioms specs of mul/div/add/of_uint63/leb, classical reals); "
          "translator (17 kernels); extraction (ExtrOCamlFloats/Int63); harness (rel build + "
          "header-only ASan/UBSan build) + OCaml driver; std::sort/nth_element/upper_bound modelled by their contracts; "
          "position exactness is proved for k(n-1) < 2^53 and is false beyond (witnesses); there the position follows "
          "the binary64 value of p (proved) and the decimal/real rule is only searched with a one-position tolerance; "
          "exponent-derived thresholds (log/pow) are taken from the implementation."),
    technique="Coq proof over a translated+extracted model, bit-exact differential correspondence, exact-integer oracle",
    design="DESIGN.md section 2, C20")

VARIANTS = ["rel"]
ASAN_EXTRA = "-O1 -DC20_HEADER_ONLY"


def setup():
    vlib.build_harness("c20_stats", "rel", need_lib=True)
    vlib.build_harness("c20_stats", "asan", need_lib=False, extra=ASAN_EXTRA)
    try:
        vlib.build_ocaml("c20_driver", "c20_model.ml", "c20_driver.ml", floats=True)
    except (vlib.CheckError, OSError):
        pass  # the extracted model appears with the first coq_check


def _replay(r, replay):
    """re-run the concrete input of a replay file on the current working tree"""
    import json
    d = json.load(open(replay))
    cmd = d.get("replay_cmd", "")
    m = re.search(r"c20_stats (pct|hist|pos|mid) (.*)$", cmd)
    if not m:
        return None
    ex = (vlib.build_harness("c20_stats", "asan", need_lib=False, extra=ASAN_EXTRA) if "harness-asan" in cmd
          else vlib.build_harness("c20_stats", "rel", need_lib=True))
    rc, out = vlib.sh("%s %s %s" % (ex, m.group(1), m.group(2)), timeout=300)
    if rc != 0 or "FAIL" in out:
        r.violation("replayed", {"kind": "replayed input still violates the property", "input": d.get("input"),
                                 "output": out[-1500:], "replay_cmd": "%s %s %s" % (ex, m.group(1), m.group(2))})
    return out


def _parse_fail(l):
    """FAIL <OP> k=v k=v ... :: why  ->  dict"""
    head, _, why = l.partition(" :: ")
    toks = head.split()
    d = {"op": toks[1] if len(toks) > 1 else "?", "why": why}
    for t in toks[2:]:
        if "=" in t:
            k, v = t.split("=", 1)
            d[k] = v
    return d


def _run_harness(r, exe, tier, label, outpath):
    rc, out = vlib.sh("%s %s > %s 2> %s.err" % (exe, tier, outpath, outpath), timeout=3000,
                      env={"VERIF_SEED": str(r.seed)})
    err = open(outpath + ".err", errors="replace").read() if os.path.exists(outpath + ".err") else ""
    ops = collections.Counter()
    fails, done, nlines = [], None, 0
    tail = collections.deque(maxlen=4)
    with open(outpath, errors="replace") as f:
        for l in f:
            l = l.rstrip("\n")
            if not l:
                continue
            nlines += 1
            op = l.split(" ", 1)[0]
            ops[op] += 1
            if op == "FAIL":
                fails.append(l)
            elif op == "DONE":
                done = l
            else:
                tail.append(l[:400])
    if rc != 0 or done is None:
        r.violation("crash-" + label,
                    {"kind": "implementation-crash (sanitizer report / signal) on in-domain input", "exit": rc,
                     "build": label, "last_operations": list(tail),
                     "sanitizer": [x for x in err.split("\n") if "ERROR:" in x or "SUMMARY:" in x or " in nano::" in x
                                   or "runtime error" in x][:12],
                     "replay_cmd": "VERIF_SEED=%d %s %s" % (r.seed, exe, tier)}, fingerprint="crash")
    return ops, fails, nlines


def run(tier, replay=None):
    r = vlib.Run("C20", tier)
    if replay:
        # 1. the concrete (shrunk) input of the replay file, 2. the whole run with the seed that produced it
        try:
            import json
            seed = json.load(open(replay)).get("seed")
            if seed is not None and "VERIF_SEED" not in os.environ:
                r.seed = int(seed)
        except (OSError, ValueError):
            pass
        _replay(r, replay)
    work = os.path.join(vlib.WORK, "c20")
    os.makedirs(work, exist_ok=True)
    # 2. Coq: translated kernels + theorems (+ extraction target, built even if a proof breaks)
    cres = vlib.coq_check("C20", targets=["theories/Extract_C20.vo", "theories/Properties_C20.vo"])
    # 1./3. implementation runs: full build (library functions included) and header-only ASan+UBSan build
    exe = vlib.build_harness("c20_stats", "rel", need_lib=True)
    exe_asan = vlib.build_harness("c20_stats", "asan", need_lib=False, extra=ASAN_EXTRA)
    out_rel = os.path.join(work, "impl-%d-%s.txt" % (r.seed, tier))
    out_asan = os.path.join(work, "impl-asan-%d-%s.txt" % (r.seed, tier))
    ops, fails, nlines = _run_harness(r, exe, tier, "rel", out_rel)
    atier = "quick"  # the sanitizer build always runs the quick amount (same oracle, different random stream)
    ops_a, fails_a, nlines_a = _run_harness(r, exe_asan, atier, "asan", out_asan)

    # 5. direct property oracle on the implementation: concrete (shrunk) failing inputs
    seen = set()
    k = 0
    for l, ex in [(x, exe) for x in fails] + [(x, exe_asan) for x in fails_a]:
        d = _parse_fail(l)
        fp = (d["op"], re.sub(r"0x[0-9a-fp.+-]+|\d+", "#", d["why"]))
        if fp in seen or k >= 4:
            continue
        seen.add(fp)
        payload = {"kind": "direct property check failed on the implementation (sorted-array / counting-rule oracle)",
                   "operation": d["op"], "what": d["why"], "input": {a: b for a, b in d.items() if a not in ("op", "why")}}
        if d["op"] == "PCT":
            payload["replay_cmd"] = "%s pct %s %s" % (ex, d.get("p", "?"), d.get("values", "-"))
        elif d["op"] == "POS":
            payload["replay_cmd"] = "%s pos %s %s" % (ex, d.get("p", "?"), d.get("n", "?"))
        elif d["op"] == "POSM":
            payload["replay_cmd"] = "%s pos %s %s ; %s pos %s %s" % (ex, d.get("p", "?"), d.get("n", "?"), ex, d.get("q", "?"), d.get("n", "?"))
        elif d["op"] == "MID":
            payload["replay_cmd"] = "%s mid %s %s" % (ex, d.get("a", "?"), d.get("b", "?"))
        elif d["op"] == "HIST":
            payload["replay_cmd"] = "%s hist %s %s %s" % (ex, d.get("param", "-") or "-", d.get("values", "-") or "-",
                                                          d.get("queries", "-") or "-")
        else:
            payload["replay_cmd"] = "VERIF_SEED=%d %s %s | grep ^FAIL" % (r.seed, ex, tier)
        r.violation("impl-%d" % k, payload)
        k += 1

    # 4. correspondence with the extracted model (binary64 instance bit for bit, integer instance on grid data)
    mism, checked, zchecked = [], 0, 0
    propfails, pos_stats = [], collections.Counter()
    drv = None
    try:
        drv = vlib.build_ocaml("c20_driver", "c20_model.ml", "c20_driver.ml", floats=True)
    except (vlib.CheckError, OSError):
        if cres["ok"]:
            raise
    if drv:
        for path in (out_rel, out_asan):
            rc2, mout = vlib.sh("%s < %s" % (drv, path), timeout=3000)
            c0 = checked
            for l in mout.split("\n"):
                if l.startswith("PROPFAIL"):
                    propfails.append((l, path))
                elif l.startswith(("MISMATCH", "XMISMATCH")):
                    mism.append(l)
                elif l.startswith("POS-STAGE"):
                    for kv in l.split()[1:]:
                        a, _, b = kv.partition("=")
                        pos_stats[a] += int(b)
                elif l.startswith("MODEL-DONE"):
                    checked += int(l.split("checked=")[1].split()[0])
                    zchecked += int(l.split("exact_instance_checked=")[1].split()[0])
            if rc2 != 0 or checked == c0:
                r.violation("driver", {"kind": "model driver failed", "out": mout[-2000:]}, no_input=True)
        # a proved clause evaluated on the library's own answer failed: concrete input (the POS / MID line)
        for i, (l, path) in enumerate(propfails[:3]):
            line, _, what = l[len("PROPFAIL "):].partition(" // ")
            toks = line.split()
            ex = exe_asan if path == out_asan else exe
            rc = ("%s pos %s %s" % (ex, toks[1], toks[2])) if toks and toks[0] == "POS" and len(toks) > 2 else \
                 ("%s mid %s %s" % (ex, toks[1], toks[2])) if toks and toks[0] == "MID" and len(toks) > 2 else ""
            r.violation("thm-%d" % i, {"kind": "a proved clause does not hold of the implementation's answer on this input",
                                       "implementation_line": line[:2000], "clause": what[:2000], "replay_cmd": rc})
        had_impl = bool(r.violations)
        for i, l in enumerate(mism[:3]):
            body, _, vals = l.partition(" // values: ")
            line, _, model = body.partition(" // model: ")
            # the model is the proved behaviour: a disagreement is a concrete input on which the implementation
            # leaves it.  If the independent oracle accepted everything the implementation produced, the tie (not
            # necessarily the property) is what broke: reported, but marked no-failing-input-found.
            r.violation("corr-%d" % i, {"kind": "model/implementation disagreement (bit-exact comparison)",
                                        "implementation_line": line[:3000], "model": model[:3000],
                                        "values": vals[:6000],
                                        "meaning": "the library's result differs from the proved model on this input"},
                        no_input=not had_impl)
    vlib.handle_coq_failure(r, cres)
    vlib.proof_coverage(r, cres, "make -C coq theories/Properties_C20.vo && coqc theories/Properties_C20.v (Print Assumptions)",
                        ["tools/translate.py (16 kernels of stats.h/histogram.h + the shared numeric group)",
                         "Flocq 4 (BinarySingleNaN, IEEE754.PrimFloat: Bmult/Bdiv/Bplus_correct, relative_error_N_FLT) over the "
                         "FloatAxioms specifications of the primitive float operations; classical real numbers",
                         "extraction: ExtrOcamlBasic + ExtrOCamlFloats + ExtrOCamlInt63 (binary64 = OCaml float via coq-core Float64)",
                         "std::sort / std::nth_element / std::upper_bound (libstdc++) meet their contracts "
                         "(sorted permutation, k-th order statistic, partition point); checked on every generated input",
                         "PrimFloat.compare on finite doubles is the order of the denoted rationals (IEEE-754); the order "
                         "theorems are instantiated for Z_ops/Q_ops, the float instance is tied by the integer-instance cross-check",
                         "ocaml/c20_driver.ml, harness/c20_stats.cpp (g++ -O2 and -fsanitize=address,undefined)"])
    cov = r.coverage
    cov["evaluations"] = nlines + nlines_a
    cov["correspondence_lines_checked"] = checked
    cov["exact_integer_instance_checked"] = zchecked
    # distinct non-trivial: distinct operation lines (input+result) whose list/threshold input is not a singleton
    distinct = set()
    sizes = collections.Counter()
    pcts = collections.Counter()
    samples = []
    for path in (out_rel, out_asan):
        cur_n = 0
        with open(path, errors="replace") as f:
            for l in f:
                op = l.split(" ", 1)[0]
                if op == "VALS":
                    cur = l
                    cur_n = l.count(",") + 1
                    sizes["1" if cur_n == 1 else "2-12" if cur_n <= 12 else "13-60" if cur_n <= 60 else "61-200" if cur_n <= 200 else "201-500"] += 1
                    vh = vlib.sha(l)
                elif op in ("POS", "MID"):
                    distinct.add(vlib.sha(l))
                elif op in ("PCT", "MED", "HIST", "HISTR", "HISTP", "HISTE", "BIN", "STATS"):
                    if cur_n > 1:
                        distinct.add(vlib.sha(vh + l))
                    if op == "PCT":
                        p = float.fromhex(l.split(" ", 2)[1])
                        pcts["0" if p == 0 else "100" if p == 100 else "50" if p == 50 else
                             "grid16" if (p * 16).is_integer() else "dyadic" if (p * 1048576).is_integer() else "non-dyadic"] += 1
                    if len(samples) < 6 and cur_n <= 8 and op in ("PCT", "HIST", "BIN", "HISTP") and (len(samples) == 0 or samples[-1]["op"] != op):
                        samples.append({"op": op, "values": cur.strip(), "line": l.strip()[:500]})
    cov["distinct_nontrivial"] = len(distinct)
    cov["rule"] = ("per list (1..500 dyadic values k/2^s, ties, negatives, sorted/constant/clustered shapes; element types "
                   "double/float/int/int64): ~15 percentages (0, 50, 100, grid k/16, positions that are exactly integral and "
                   "their grid neighbours, decimal grids, arbitrary doubles, extremes), median, 2 histograms from 1..20 direct "
                   "thresholds (on/between/one ulp off data values, duplicates, outside the range), histograms from ratios, "
                   "percentiles and exponents, bin() queries on/next to/between/beyond thresholds incl. non-integers; "
                   "non-trivial = distinct (list, operation, result) line with a list of at least 2 values; position stage: "
                   "6000 (thorough 60000) rounds of ~7 POS lines (sizes 2..2^46+1; dyadic percentages k/2^j, j <= 26, with "
                   "exact position integral / 1/(100 2^j) next to an integer / random inside the side condition; simple "
                   "percentages with n = 2^20..2^46; one ulp around 100 z/(n-1); decimal percentages on sizes where the "
                   "decimal position is integral; subnormal and tiny percentages) + 2 MID lines (ordinary, subnormal, "
                   "adjacent pairs; permanently: pairs whose sum overflows or straddles the overflow threshold 2^1024 - 2^970, "
                   "both signs, one operand just below 2^1023, mixed signs); every distinct POS/MID line counts")
    cov["op_histogram"] = dict(ops + ops_a)
    cov["list_size_histogram"] = dict(sizes)
    cov["percentage_kinds"] = dict(pcts)
    cov["position_stage"] = dict(pos_stats)
    cov["position_stage_rule"] = ("POS p n: detail::percentile over the lazily generated array a[i]=i; theorem_instances = lines "
                                  "inside the side condition of C20_position_exact (k(n-1) < 2^53, j <= 1015) on which the "
                                  "library's lpos/rpos were compared with the exact floor/ceil; integral = those whose exact "
                                  "position is an integer; large_n = those with n >= 2^20; range_instances = lines in the domain "
                                  "of C20_position_any; MID a b: clauses of C20_midpoint on the library's value (finite, in [a,b]; = fl(fl(a+b)/2) "
                                  "when a+b is finite; mid_overflow = lines on which a+b overflows)")
    cov["mismatches"] = len(mism)
    cov["theorem_instance_failures"] = len(propfails)
    cov["impl_direct_failures"] = len(fails) + len(fails_a)
    cov["samples"] = samples or ["(no sample collected)"]
    cov["unproved_clauses_searched"] = [
        "position beyond the side condition k(n-1) < 2^53 (decimal percentages such as 8.8, 53-bit percentages, n-1 > 2^46): "
        "proved to follow the binary64 value of p and to stay in range (n-1 <= 2^46); agreement with the exact real/decimal "
        "position is FALSE in general (C20_position_beyond_refuted, C20_position_exact_full_refuted) and only searched: "
        "indices within one of the exact ones, bit-exact model comparison on every PCT/POS line",
        "thresholds from exponents (std::log/std::pow are not modelled): thresholds taken from the implementation, the "
        "partition/bin clauses are checked with them",
        "make_equidistant_percentiles/ratios (Eigen LinSpaced): taken from the implementation, range/monotonicity checked",
        "ml::store_stats percentile entries = percentile(values, {1,5,10,20,50,80,90,95,99}) (model + oracle, no theorem)",
        "the binary64 instance satisfies the order hypotheses on finite doubles (not derived from FloatAxioms): "
        "integer-instance cross-check on grid data"]
    cov["excluded_inputs"] = ["NaN/infinite values or thresholds, -0.0 (sort order of equivalent elements is unspecified)",
                              "empty value lists for percentile (assert), percentages outside [0,100]"]
    r.assumptions = ["assertions are compiled out (NDEBUG) as in the library build; only in-domain inputs are explored",
                     "g++ -O2 without -ffast-math/-march: scalar double code is IEEE binary64 without contraction, so the "
                     "PrimFloat model is bit-exact (checked on every line)",
                     "off the dyadic grid the direct oracle accepts the neighbouring position when the exact position is within "
                     "1e-9 of an integer (the model comparison stays bit-exact there)"]
    if not r.violations:
        # the raw implementation output is large (thorough: several 100 MB); kept only when something failed
        for path in (out_rel, out_asan):
            for q in (path, path + ".err"):
                try:
                    os.remove(q)
                except OSError:
                    pass
    return r.finish("proof")
