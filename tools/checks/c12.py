"""C12 -- splitters and samplers return index sets with the promised set structure
(proof + translator tie + oracle-replay correspondence + direct search on the implementation)."""
import collections
import hashlib
import json
import os
import re
import shlex
import vlib


MANIFEST = dict(
    text=("Coq theorems, for every duplicate-free input, every fold count >= 1, every train percentage 0..100 and every "
          "std::shuffle that permutes: each (training, validation) pair of the k-fold and of the random splitter is "
          "disjoint, sorted and exactly the input; the k validation folds partition the input with sizes n/k (last: "
          "n/k + n mod k); the random training part has (p*n+50)/100 elements; the Eigen segment copies tile `train` in "
          "bounds; sampling without replacement returns `count` strictly increasing members, with replacement `count` "
          "sorted members, weighted sampling no position of zero weight (under the contracts of uniform_int/"
          "discrete_distribution); points of sample_from_ball lie in the ball (over R). The model's integer "
          "expressions are regenerated from kfold.cpp/random.cpp/sampling.cpp/numeric.h on every run; the extracted model "
          "replays the position permutations / draws observed from the real libstdc++ calls and is compared exactly with "
          "the library on the exhaustive small grid and on random inputs up to n=5000; the property itself is checked "
          "directly on every implementation result (thorough: the full n<=40 x folds<=12 x 1025 seeds x 81 percentages grid). "
          "EXTENSION. (1) sample_from_ball in binary64 through Flocq: for the computation as written, x_k = fl(x0_k + "
          "fl(fl(fl(radius z) u_k) / nrm)), with nrm ANY value an Eigen reduction can return (every summation tree over the "
          "rounded squares, then a correctly rounded sqrt: C12_fl_norm_any_tree), |x - x0|_2 <= radius (1 + g(n+5)) + "
          "2^-53 |x0|_2 with g(k) = (1+2^-53)^k - 1 <= k u / (1 - k u) (C12_fl_ball, _any_norm, _any_tree, _constant), the same "
          "for the executable PrimFloat twin (C12_fl_ball_twin) whose operator tree is proved equal to the expression translated "
          "from sampling.cpp on every run (C12_fl_shape_is_source); 'inside the ball' itself is refuted in binary64 with a witness "
          "that lands outside (C12_fl_ball_inside_refuted). Hypotheses: z = pow(unif, 1/n) in [0,1] (libm), u <> 0, no underflow -- "
          "evaluated on every observed call. The twin is compared BIT FOR BIT with the library on every sampled point (oracle inputs: "
          "deviates, z and the norm re-derived on a copy of the generator), and the harness checks the PROVED bound on every sample. "
          "(2) gboost::sampler_t::sample: dispatch table (the translated `return` of every case), allocation and index expressions "
          "of the two weight loops (translated), count = trunc(fl(ratio * n)) proved = floor of the ROUNDED product, in [0, n], "
          "= k n / 2^j for dyadic ratios (C12_gb_count_*; decimal ratios and the exact-product floor refuted), every kind returns "
          "sorted members (`count` of them; distinct for subsample; off returns the input), the weighted kinds never return a sample "
          "whose own loss / gradient magnitude is not positive (C12_gb_sample, C12_gb_weighted_support, C12_gb_weights, _layout, "
          "_dispatch); the model is compared exactly with every sampler call of the run."),
    note=("Coq kernel + standard axioms of the reals / classical logic + FloatAxioms (primitive floats = IEEE binary64); Flocq; "
          "translator (31 + 17 kernels); extraction (ExtrOcamlBasic, ExtrOCamlFloats, ExtrOCamlInt63); harness + OCaml driver; "
          "std::shuffle, uniform_int_distribution, discrete_distribution, normal_distribution, uniform_real_distribution, libm pow and "
          "Eigen's lpNorm<2> are oracles whose answers are observed (re-derived on a copy of the generator) and whose contracts "
          "(permutation / range / positive weight / z in [0,1] / norm within the any-order bound) are checked on every answer; "
          "std::sort modelled as merge sort; the generic rounding lemmas of C12_Float.v are copied from C14_Float.v (not imported: "
          "that file depends on C14's translated kernels); discrete_distribution's floating-point table not modelled."),
    technique="Coq proof over a translated+extracted model with observed-oracle replay, exhaustive differential correspondence",
    design="DESIGN.md section 2, C12")

VARIANTS = ["rel"]

HARNESS = "c12_split"
SPLIT_OPS = ("KFOLD", "RANDOM")
MODEL_OPS = ("KFOLD", "RANDOM", "SWOR", "SWR", "SWRW")
EXT_OPS = ("BALLX", "GBS")     # extension stages "ball-twin" and "gboost-model"


def setup():
    vlib.build_harness(HARNESS, "rel", need_lib=True)
    vlib.build_ocaml("c12_driver", "c12_model.ml", "c12_driver.ml", floats=True)


def _clip(s, n=60000):
    return s if len(s) <= n else s[:n] + "...[%d characters cut]" % (len(s) - n)


def _case_of(line):
    """the operation line inside a FAIL/MISMATCH/PROPFAIL line"""
    if line.startswith("FAIL ") and " :: " in line:
        return line.split(" :: ", 1)[1]
    for k in ("MISMATCH ", "PROPFAIL ", "ORACLE "):
        if line.startswith(k):
            return line[len(k):].split(" // ", 1)[0]
    return line


def _replay_cmd(exe, case):
    head = case.split(" | ")[0].split(",")
    if len(case) > 20000 or case.startswith("GBS") or (case.startswith("SW") and len(head) > 1 and head[1].strip() == "1"):
        # too big for a command line / produced through gboost::sampler_t (the direct sampler replay would bypass it)
        return "VERIF_SEED=<seed of this file> %s <tier of this run> | grep ^FAIL" % exe
    # the input part of the line is enough for the replay mode (the harness recomputes oracle answers and result)
    return "printf '%%s\\n' %s | %s replay | grep ^FAIL" % (shlex.quote(case.split(" = ")[0]), exe)


def run(tier, replay=None):
    r = vlib.Run("C12", tier)
    cres = vlib.coq_check("C12", targets=["theories/Extract_C12.vo", "theories/Properties_C12.vo"])
    # when the Coq side broke, every replay file also names the broken obligation / kernel
    side = {} if cres["ok"] else {"proof_side": "BROKEN on this tree: %s" % cres["broken"]}
    exe = vlib.build_harness(HARNESS, "rel", need_lib=True)
    wdir = os.path.join(vlib.WORK, "c12")
    os.makedirs(wdir, exist_ok=True)
    out_path = os.path.join(wdir, "impl-%d-%s.txt" % (r.seed, tier))
    mod_path = os.path.join(wdir, "model-%d-%s.txt" % (r.seed, tier))

    # 3. implementation run (also the direct search: FAIL lines)
    if replay:
        payload = json.load(open(replay))
        case = payload.get("case_full") or payload.get("case") or ""
        rc, _ = vlib.sh("%s replay > %s 2>&1" % (shlex.quote(exe), shlex.quote(out_path)), input=_case_of(case).split(" = ")[0] + "\n",
                        timeout=600)
    else:
        rc, _ = vlib.sh("%s %s > %s 2>&1" % (shlex.quote(exe), tier, shlex.quote(out_path)), timeout=3000,
                        env={"VERIF_SEED": str(r.seed)})
    ops = collections.Counter()
    nhist = collections.Counter()
    fhist = collections.Counter()
    gbhist = collections.Counter()
    rhist = collections.Counter()
    dimhist = collections.Counter()
    distinct = set()
    fails, samples, last, done = [], [], [], None
    nlines = 0
    with open(out_path, errors="replace") as f:
        for line in f:
            line = line.rstrip("\n")
            if not line:
                continue
            op = line.split(" ", 1)[0]
            if op == "FAIL":
                fails.append(line)
                continue
            if op == "DONE":
                done = line
                continue
            last = (last + [_clip(line, 400)])[-4:]
            if not op.isupper():
                continue
            nlines += 1
            ops[op] += 1
            if op in MODEL_OPS:
                parts = line.split(" | ")
                n = parts[1].count(",") + 1 if len(parts) > 1 and parts[1].strip() else 0
                nhist["n<=8" if n <= 8 else "n<=40" if n <= 40 else "n<=300" if n <= 300 else "n<=1500" if n <= 1500 else "n<=5000"] += 1
                args = parts[0].split(" ", 1)[1].split(",")
                if op in SPLIT_OPS:
                    k = int(args[1])
                    fhist["folds<=4" if k <= 4 else "folds<=12" if k <= 12 else "folds<=100"] += 1
                    nontrivial = n >= 2
                else:
                    nontrivial = n >= 2 and int(args[0]) >= 1
                if nontrivial:
                    distinct.add(hashlib.blake2b(line.encode(), digest_size=8).digest())
                if len(line) < 260 and len(samples) < 10 and n >= 5 and ops[op] % 7 == 3 and sum(1 for s in samples if s.startswith(op)) < 2:
                    samples.append(line)
            elif op == "BALL":
                distinct.add(hashlib.blake2b(line.encode(), digest_size=8).digest())
                if len(samples) < 12 and ops[op] == 5:
                    samples.append(_clip(line, 300))
            elif op in EXT_OPS:
                # extension stages: one line per sample_from_ball / gboost::sampler_t::sample call for the model
                if op == "GBS":
                    a = line.split(" | ")[0].split(" ", 1)[1].split(",")
                    gbhist["kind=%s" % a[0]] += 1
                    rhist[a[2]] += 1
                    distinct.add(hashlib.blake2b(line.encode(), digest_size=8).digest())
                else:
                    dimhist["n<=2" if int(line.split(" ", 1)[1].split(",")[0]) <= 2 else "n<=10" if int(line.split(" ", 1)[1].split(",")[0]) <= 10 else "n<=50"] += 1
                if len(samples) < 14 and ops[op] == 3:
                    samples.append(_clip(line, 400))
    counts = dict(t.split("=") for t in done.split()[1:]) if done else {}
    if rc != 0 or not done:
        r.violation("crash", {"kind": "implementation-crash (signal / abort) inside a splitter or sampler call", "exit": rc, "mode": tier,
                              "last_operations": last, "replay_cmd": "VERIF_SEED=%d %s %s" % (r.seed, exe, tier)},
                    fingerprint="crash")
    # smallest failing cases first (the exhaustive small grid runs first, so these are already minimal in n)
    fails.sort(key=len)
    seen_kinds = []
    for l in fails:
        what = l[5:].split(" :: ", 1)[0]
        kind = re.sub(r"\d+", "#", what)
        if kind in seen_kinds:
            continue
        seen_kinds.append(kind)
        case = _case_of(l)
        r.violation("impl-%d" % (len(seen_kinds) - 1),
                    {"kind": "direct property check failed on the implementation", "what": what, "case": _clip(case),
                     "format": "OP args | samples | oracle answers (std::shuffle positions / draws) = implementation result (train ; valid / ...)",
                     "replay_cmd": _replay_cmd(exe, case), **side})
        if len(seen_kinds) >= 3:
            break

    # 4. correspondence with the extracted model + verified checkers on the implementation's output
    mism, propfail, checked, propchecks = [], [], 0, 0
    ball_checked = gb_checked = 0
    drv = None
    try:
        drv = vlib.build_ocaml("c12_driver", "c12_model.ml", "c12_driver.ml", floats=True)
    except (vlib.CheckError, OSError):
        if cres["ok"]:
            raise
    if drv:
        rc2, _ = vlib.sh("%s < %s > %s 2>&1" % (shlex.quote(drv), shlex.quote(out_path), shlex.quote(mod_path)), timeout=3000)
        tail = ""
        with open(mod_path, errors="replace") as f:
            for line in f:
                line = line.rstrip("\n")
                tail = line
                if line.startswith("PROPFAIL"):
                    propfail.append(line)
                elif line.startswith(("MISMATCH", "ORACLE")):
                    mism.append(line)
                elif line.startswith("MODEL-DONE"):
                    checked = int(line.split("checked=")[1].split()[0])
                    propchecks = int(line.split("propchecks=")[1].split()[0])
                    if "ball=" in line:
                        ball_checked = int(line.split("ball=")[1].split()[0])
                        gb_checked = int(line.split("gboost=")[1].split()[0])
        if rc2 != 0 or (not checked and not replay):
            r.violation("driver", {"kind": "model driver failed", "out": _clip(tail, 2000)}, no_input=True)
        elif not replay and (ball_checked == 0 or gb_checked == 0):
            r.violation("driver-ext", {"kind": "the extension stages (ball-twin / gboost-model) compared nothing", "out": _clip(tail, 2000)},
                        no_input=True)
        propfail.sort(key=len)
        for i, l in enumerate(propfail[:2]):
            case = _case_of(l)
            r.violation("prop-%d" % i, {"kind": "checker in the model driver (verified split/sortedness/membership checkers of C12_Defs, zero-weight lookup) "
                                                "rejects what the implementation returned",
                                        "what": l.split(" // ", 1)[-1], "case": _clip(case), "replay_cmd": _replay_cmd(exe, case), **side})
        mism.sort(key=len)
        concrete = bool(fails or propfail)
        for i, l in enumerate(mism[:2]):
            case = _case_of(l)
            r.violation("corr-%d" % i, {"kind": "model/implementation disagreement" if l.startswith("MISMATCH") else "standard-library oracle contract violated",
                                        "case": _clip(case), "model_says": _clip(l.split(" // ", 1)[-1], 4000),
                                        "meaning": "on this input the library does not compute what the proved model computes from the same "
                                                   "std::shuffle / distribution answers (the tie is broken)",
                                        "replay_cmd": _replay_cmd(exe, case), **side},
                        no_input=not concrete)
    vlib.handle_coq_failure(r, cres)
    vlib.proof_coverage(r, cres, "make -C coq theories/Properties_C12.vo && coqc theories/Properties_C12.v (Print Assumptions)",
                        ["tools/translate.py (%d kernels of kfold.cpp/random.cpp/sampling.cpp/numeric.h)" % len(cres.get("kernels", [])),
                         "extraction: ExtrOcamlBasic + ExtrOCamlFloats + ExtrOCamlInt63 (primitive floats / 63-bit integers mapped to OCaml's "
                         "native floats / Uint63 of coq-core.kernel); Z/nat/positive extracted as inductives",
                         "Flocq (standard model of binary64, IEEE754.PrimFloat bridge), FloatAxioms of Coq's primitive floats",
                         "libm pow, Eigen lpNorm<2>, libstdc++ normal/uniform_real/discrete distributions: oracle inputs of the ball twin",
                         "ocaml/c12_driver.ml, harness/c12_split.cpp (obtains the oracle answers by calling the same libstdc++ "
                         "std::shuffle / uniform_int_distribution / discrete_distribution on the same generator state)",
                         "libstdc++: std::shuffle's position permutation does not depend on the values shuffled"])
    cov = r.coverage
    grid = int(counts.get("grid", 0))
    cov["evaluations"] = nlines + max(0, grid - ops["KFOLD"] - ops["RANDOM"])
    cov["correspondence_lines_checked"] = checked
    cov["verified_checker_applications"] = propchecks
    cov["ball_twin_bit_exact_comparisons"] = ball_checked
    cov["gboost_sampler_model_comparisons"] = gb_checked
    cov["gboost_kind_histogram"] = dict(gbhist)
    cov["gboost_ratio_histogram"] = dict(rhist)
    cov["ball_dimension_histogram"] = dict(dimhist)
    cov["split_calls_checked_directly"] = grid
    cov["train_valid_pairs_checked_directly"] = int(counts.get("pairs", 0))
    cov["distinct_nontrivial"] = len(distinct)
    cov["rule"] = ("printed for the model: n in 1..40 x folds 2..min(n,12) (+ one fold count > n) x boundary+random seeds of [0,1024] x "
                   "train percentages {10,50,80,90,+random}, five kinds of duplicate-free index sets (contiguous, offset, gaps, huge sparse "
                   "unsorted, dense unsorted); random n up to 5000 with folds up to 100; samplers: every (n<=12, count 0..n) with several "
                   "generator states, weights with zeros (six patterns), chained calls on one generator, gboost::sampler_t in all five modes; "
                   "ball: dimensions 1..50, radii 1e-6..1e6. Direct-only grid: quick 96 seeds x 9 percentages, thorough all 1025 seeds x 81 "
                   "percentages for every (n<=40, folds<=min(n,12)). distinct_nontrivial = distinct printed operation lines with n >= 2 "
                   "(samplers: and count >= 1), by 64-bit hash; the direct-only grid calls are not included in it")
    cov["op_histogram"] = dict(ops)
    cov["size_histogram"] = dict(nhist)
    cov["folds_histogram"] = dict(fhist)
    cov["mismatches"] = len(mism)
    cov["verified_checker_failures"] = len(propfail)
    cov["impl_direct_failures"] = len(fails)
    cov["samples"] = samples or last
    cov["exhaustive"] = tier == "thorough"
    cov["unproved_clauses_searched"] = [
        "equal seeds give equal splits *on the implementation* (second call, clone, fresh object compared; the theorem C12_deterministic "
        "is about the model: dependence on the generator only through std::shuffle's answers)",
        "sample_from_ball: the hypotheses of C12_fl_ball_twin on the observed values -- z = pow(unif, 1/n) in [0,1] (libm), the norm "
        "returned by Eigen above sqrt(S)(1-u)sqrt(1-g_n) (proved for every reduction tree; that Eigen's redux IS such a tree is not "
        "proved; checked in long double), no underflow / all finite (ball_ok, squares_nu evaluated by the driver)",
        "the distributions of libstdc++ (normal, discrete {1,1}, uniform_real) are replayed, not modelled: the deviates are oracle inputs",
        "gboost::sampler_t: that the harness' description of a call (losses / gradient magnitudes by sample index) is what the library "
        "reads (compared per call); |gradient|_2 is an Eigen reduction (inputs chosen so that it is exact)",
        "std::shuffle permutes / uniform_int stays in [lo,hi] / discrete_distribution never draws a zero weight: premises of the "
        "theorems, checked on every observed answer (ORACLE lines), not proved about libstdc++",
        "the sampled generator stream: state after each sampler call equals the state after the replayed draws"]
    cov["excluded_inputs"] = ["weight vectors that are all zero (precondition of std::discrete_distribution; the property is unsatisfiable there)",
                              "inputs with repeated indices (the property is about distinct sample indices)"]
    r.assumptions = ["assertions are compiled out (NDEBUG) as in the library build",
                     "std::sort sorts (modelled by a verified merge sort; outputs compared exactly)",
                     "the position permutation applied by std::shuffle depends on the generator state and the length only"]
    return r.finish("proof")
