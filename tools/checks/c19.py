"""C19 -- parameters stay inside their declared domain; clones are configuration-equal
(proof + translator tie + differential correspondence + direct oracle + factory enumeration + UB probe)."""
import collections
import os
import re
import sys
import vlib

sys.path.insert(0, os.path.dirname(os.path.abspath(__file__)))
import c19_params  # noqa: E402  (the generator of coq/generated/Src_c19_params.v)
import c19_clones  # noqa: E402  (third extension: the generator of coq/generated/Src_c19_clones.v)


MANIFEST = dict(
    text=("Coq theorems about an executable model of parameter_t/configurable_t (construction checks, domain invariant over "
          "every assignment history, accepted <=> converted value in the domain and read back as converted, rejected => "
          "unchanged, UB exactly for double->int64 outside its defined range, type-mismatched reads/assignments and unknown "
          "names throw, unique names + defaults in domain for every configurable, frame, clone equality/independence, "
          "write+read round trip, split_pair and stoll on decimal text); the boolean skeletons of all domain checks, the "
          "LE/LT kernel, the serialisation flags and the lookup condition are regenerated from parameter.cpp/configurable.cpp/"
          "numeric.h on every run; the extracted model (PrimFloat, bit-exact) is compared with the real library on exhaustive "
          "1- and 2-operation histories over a finite alphabet, random 6-operation histories, configurable/clone histories, "
          "and every parameter of every id of the 11 factories; an independent oracle in the harness yields concrete inputs. "
          "Extension (factory clause as theorems): tools/checks/c19_params.py re-parses the working tree on every run -- every "
          "register_parameter(parameter_t::make_*(...)) call of src/ and include/ (117 records; literals read as strtod reads them, "
          "symbolic constants through a table the harness re-checks against the compiler), the enum_string<> tables, every "
          "constructor chain (93 classes: base classes, ::config helpers, assignments in constructor bodies, type ids of the "
          "template solvers) and every parameter(\"name\") use with its typed read (506 use x class rows) -- into "
          "coq/generated/Src_c19_params.v; proved about that table with the model's own make/cstep/cread: every declared default is "
          "inside its declared domain and no make_* argument is cast undefined, every constructor chain completes without a throw "
          "with pairwise distinct names, objects consist of source records only, every used name is registered by each most derived "
          "class the code runs on, every typed read has the declared kind / enum table / a result type containing the declared "
          "range and does not truncate, and (all histories) such a read never throws after any sequence of assignments. Stage "
          "FACTTAB compares the 285 parameters the 143 factory objects of the compiled library register (names, kinds, bounds, "
          "comparison operators, defaults bit for bit, order, type id) with the constructor chain of their dynamic class in the "
          "extracted table; failing table entries are reported with the source record as the concrete input. "
          "Third extension (clone clause as theorems): tools/checks/c19_clones.py re-parses, on every run, every class that overrides "
          "clone() (105 records: 101 out-of-class definitions, 4 in-class ones of the template classes; every textual occurrence of "
          "`clone() const` must be accounted for) with the return expression classified as CopyOfThis T / DefaultConstructed T / "
          "CopyOfOther / Unrecognised, and every class of those hierarchies (135: all bases, the classes of owned components, the "
          "classes whose user-written copy constructor deep-copies clonable objects: solver_t, gboost_model_t, gboost::result_t, "
          "ml::params_t, functional_t) with bases, data members (value / unique_ptr / vector of unique_ptr / shared_ptr / raw pointer / "
          "reference, const or not; read twice, by a statement splitter and by a line regex) and the copy constructor (implicit / "
          "defaulted / deleted / user-written with its member-initialiser list classified per item: base(other), m(other.m), "
          "m(other.m->clone()) / wlearner::clone(other.m), anything else) into coq/generated/Src_c19_clones.v; proved: every clone() "
          "is CopyOfThis of its own class, every user-written copy constructor passes `other` to every base and copies / deep-clones "
          "every data member with an empty body, no member-wise copy aliases mutable state or is ill-formed, and on a semantic model "
          "(object = class + parameter state + owned components; clone() as the table classifies it) the clone of every object over "
          "the table equals the object in every state (parameters and components recursively), every history of assignments and "
          "clones is defined, clones are appended without touching other objects, operations on other objects never change an "
          "object; refuted with witnesses for DefaultConstructed, a forgotten owning member and a base without `other`. Stage CLONETAB "
          "replays clone() of every factory object after moving every parameter (and of every line-search solver with every pair of "
          "configured line-search components: 483 objects, 1500 components) with the extracted table-driven clone and compares class, "
          "parameters and components with the library's clone."),
    note=("Coq kernel; translator (16 kernels + 4 PrimFloat twins); extraction (ExtrOcamlBasic, ExtrOCamlFloats, "
          "ExtrOCamlInt63); harness + OCaml driver; std::stod is an oracle (its outcome travels with the operation); "
          "FloatAxioms (IEEE specification of PrimFloat) used to prove that the `convertible` guard makes "
          "static_cast<int64_t>(double) defined; UB probe under -fsanitize=float-cast-overflow gates on the assignment path; "
          "construction from double constants (make_scalar_) stays outside. Extension: the source parser "
          "tools/checks/c19_params.py (regex-based, column-0 function segmentation of the clang-formatted tree; anything it cannot "
          "read is a generator error, never a silent skip) is tied by FACTTAB for everything a factory can return; the 26 table "
          "objects no factory returns (abstract bases, gboost_model_t, program::solver_t, penalty/augmented solvers, ...) and the "
          "parameter(\"name\") uses are proved about the table only; receivers the parser cannot resolve are listed in the evidence "
          "(source_table.uses_listed_not_checked); ExtrOcamlString added to the extraction. Third extension: "
          "tools/checks/c19_clones.py (regex-based; a clone() definition / copy constructor / data member it cannot read is a generator "
          "error) is tied by stage CLONETAB for the 91 clone() records whose class a factory object or a solver component has; the 14 "
          "others (lambda_function_t, linear_datasource_t, penalty / gboost / surrogate functions, penalty and augmented-lagrangian "
          "solvers: clone_table.unreached) and the copy constructors of gboost_model_t, gboost::result_t, ml::params_t, functional_t "
          "are proved about the table only; the model treats copies as values: justified by C19_copies_no_aliasing (no raw pointer / "
          "non-const reference / shared_ptr member in the hierarchies; pointers / references to const are shared read-only); copy "
          "ASSIGNMENT operators and the copy constructor of logger_t (outside the clonable hierarchies) are not in the table."),
    technique="Coq proof over a translated+extracted model, exhaustive + random differential correspondence, direct oracle",
    design="DESIGN.md section 2, C19")

VARIANTS = ["rel", "asan"]

UB_FINGERPRINT = "C19-ub-double-to-int64-accepted"
TWINS = ["src_param_check", "src_range_assign", "src_pair_assign1", "src_pair_assign2"]
PROBE_FLAGS = "-g -fsanitize=float-cast-overflow -fsanitize-recover=float-cast-overflow"


def gen_float_twin():
    """PrimFloat twins of the template kernels, derived textually from the Z text the translator just produced
    (the C++ functions are templates instantiated for int64_t and double)."""
    gen = os.path.join(vlib.COQ, "generated")
    path_z = os.path.join(gen, "Src_parameter.v")
    if not os.path.exists(path_z):
        raise vlib.CheckError("float twin: Src_parameter.v was not generated")
    src = open(path_z).read()
    parts = ["(* GENERATED by tools/checks/c19.py from Src_parameter.v -- do not edit *)\n"
             "From Coq Require Import Bool Floats.\n"]
    for name in TWINS:
        m = re.search(r"^(\(\* [^\n]*\*\)\n)Definition %s ((?:\([^)]*\) ?)*): (\w+) := (.*)\.$" % name, src, re.M)
        if not m:
            raise vlib.CheckError("float twin: kernel %s not found in Src_parameter.v" % name)
        cm, args, ty, body = m.groups()
        args = args.replace(": Z)", ": float)")
        ty = "float" if ty == "Z" else ty
        body = body.replace("Z.leb", "PrimFloat.leb").replace("Z.ltb", "PrimFloat.ltb")
        body = re.sub(r"\(Z\.geb (\w+) (\w+)\)", r"(PrimFloat.leb \2 \1)", body)
        body = re.sub(r"\(Z\.gtb (\w+) (\w+)\)", r"(PrimFloat.ltb \2 \1)", body)
        if re.search(r"\bZ\.|\b\d+\b", body):
            raise vlib.CheckError("float twin: %s has no PrimFloat reading: %s" % (name, body))
        parts.append("%sDefinition %s_f %s: %s := %s.\n" % (cm, name, args, ty, body))
    txt = "\n".join(parts)
    path = os.path.join(gen, "Src_parameter_flt.v")
    if not os.path.exists(path) or open(path).read() != txt:
        open(path, "w").write(txt)


def coq_side():
    import translate
    twin_err = None
    try:
        translate.run("C19")
    except translate.TranslateError:
        pass  # reported by coq_check below (same call, same error)
    try:
        gen_float_twin()
    except vlib.CheckError as ex:
        twin_err = str(ex)
    # extension: the parameter table (records, per-class constructor chains, parameter("name") uses) re-parsed from the tree
    scan, tab_err = None, None
    try:
        vlib.coq_setup()
        scan = c19_params.generate()
    except vlib.CheckError as ex:
        tab_err = str(ex)
    # third extension: the clone table (clone() overrides classified, class chains, copy constructors)
    clone_err = None
    if scan is not None:
        try:
            c19_clones.generate(scan)
        except vlib.CheckError as ex:
            clone_err = str(ex)
    cres = vlib.coq_check("C19", targets=["theories/Extract_C19.vo", "theories/Properties_C19.vo"])
    if twin_err and cres["ok"]:
        cres["ok"] = False
        cres["broken"] = "float-twin:" + twin_err
    if tab_err:
        cres["ok"] = False
        cres["broken"] = "param-table-generator:" + tab_err
        cres["log"] = tab_err + "\n" + cres.get("log", "")
    if clone_err:
        cres["ok"] = False
        cres["broken"] = "clone-table-generator:" + clone_err
        cres["log"] = clone_err + "\n" + cres.get("log", "")
    cres["scan"] = scan
    return cres


def build_probe():
    return vlib.build_harness("c19_ubprobe", "rel", need_lib=True, extra=PROBE_FLAGS,
                              sources=[os.path.join(vlib.ROOT, "harness", "c19_ubprobe.cpp"),
                                       os.path.join(vlib.REPO, "src", "parameter.cpp")])


def setup():
    for v in VARIANTS:
        vlib.build_harness("c19_param", v, need_lib=True)
    try:
        coq_side()
        vlib.build_ocaml("c19_driver", "c19_model.ml", "c19_driver.ml", floats=True)
    except (vlib.CheckError, OSError):
        pass
    build_probe()


def history_of(lines, text):
    """the operations of the case a protocol line belongs to (back to its MAKE / CFG NEW line)"""
    try:
        i = lines.index(text)
    except ValueError:
        return []
    j = i
    while j > 0 and not lines[j].startswith(("MAKE ", "CFG NEW")) and i - j < 60:
        j -= 1
    return lines[j:i + 1]


def sample_histories(proto):
    """a few actual cases of this run, written out: histories with accepted and rejected assignments, one
    configurable history with a clone, two factory defaults"""
    out, cur, cfg = [], [], []
    want = {"I": 1, "F": 1, "IP": 1, "FP": 1, "E": 1}
    for l in proto:
        if l.startswith("MAKE "):
            if cur and len(cur) >= 4 and any(" = OK | " in x for x in cur[1:]) and any(" = THROW | " in x for x in cur[1:]):
                k = cur[0].split(" ")[1]
                if want.get(k):
                    want[k] -= 1
                    out.append(cur[:10])
            cur = [l]
        elif l.startswith("CFG NEW"):
            if cfg and not any(x and x[0] == "CFG NEW" for x in out) and any(" CLONE " in x for x in cfg) and any(" SET " in x for x in cfg):
                out.append(cfg[:14])
            cfg = [l]
            cur = []
        elif l.startswith("CFG "):
            cfg.append(l)
        elif cur and not l.startswith(("DEFAULT", "FACT")):
            cur.append(l)
    out += [[l] for l in proto if l.startswith("DEFAULT")][:2]
    return out


def run(tier, replay=None):
    r = vlib.Run("C19", tier)
    cres = coq_side()
    # implementation run: quick = release build, thorough = ASan+UBSan build
    variant = "asan" if tier == "thorough" else "rel"
    exe = vlib.build_harness("c19_param", variant, need_lib=True)
    rc, out = vlib.sh([exe, tier], timeout=3000, env={"VERIF_SEED": str(r.seed), "ASAN_OPTIONS": "detect_leaks=0"})
    lines = [l for l in out.split("\n") if l]
    done = [l for l in lines if l.startswith("DONE ")]
    impl_fail = [l for l in lines if l.startswith("FAIL ")]
    proto = [l for l in lines if not l.startswith(("FAIL ", "DONE "))]
    replay_cmd = "VERIF_SEED=%d %s %s" % (r.seed, exe, tier)
    if rc != 0 or not done:
        r.violation("crash", {"kind": "implementation-crash (sanitizer report / signal / uncaught exception)", "exit": rc,
                              "last_operations": [l for l in lines if l.split(" ", 1)[0].isupper() and not l.startswith("==")][-8:],
                              "sanitizer": [l for l in lines if "ERROR:" in l or "SUMMARY:" in l or "runtime error" in l][:12],
                              "replay_cmd": replay_cmd}, fingerprint="crash")
    seen = set()
    n = 0
    for l in impl_fail:
        what = l.split(" :: ", 1)[0]
        if what in seen or n >= 4:
            continue
        seen.add(what)
        r.violation("impl-%d" % n, {"kind": "direct property oracle failed on the implementation", "what": what[5:],
                                    "case": l, "format": "FAIL <what> :: <section, parameter spec> :: <state before> :: <operation = outcome | state after>",
                                    "replay_cmd": replay_cmd + " | grep -F '" + what + "'"})
        n += 1
    # correspondence with the extracted model
    mism, checked, model_ub = [], 0, 0
    drv = None
    try:
        drv = vlib.build_ocaml("c19_driver", "c19_model.ml", "c19_driver.ml", floats=True)
    except (vlib.CheckError, OSError):
        if cres["ok"]:
            raise
    if drv:
        rc2, mout = vlib.sh([drv], input="\n".join(proto) + "\n", timeout=3000)
        for l in mout.split("\n"):
            if l.startswith(("MISMATCH FACTTAB", "MISMATCH CLONETAB")):
                continue                                   # handled by the FACTTAB / CLONETAB stages below
            if l.startswith(("MISMATCH", "PROPFAIL")):
                mism.append(l)
            elif l.startswith("MODEL-DONE"):
                checked = int(l.split("checked=")[1].split()[0])
                model_ub = int(l.split("ub=")[1].split()[0])
        if rc2 != 0 or not checked:
            r.violation("driver", {"kind": "model driver failed", "out": mout[-2000:]}, no_input=True)
        distinct = []
        for l in mism:
            if l not in distinct:
                distinct.append(l)
        for i, l in enumerate(distinct[:3]):
            text = l.split(" ", 1)[1].split(" // ")[0]
            # the tie is broken on a concrete operation; whether the property itself is violated there is decided by the
            # harness' own oracle (FAIL lines above) -- without one, this is reported as a model/implementation difference
            r.violation("corr-%d" % i, {"kind": "model/implementation disagreement" if l.startswith("MISMATCH") else "property oracle failed on implementation data",
                                        "case": l, "history": history_of(proto, text), "replay_cmd": replay_cmd,
                                        "meaning": "the implementation's outcome/state after this operation differs from the proved model "
                                                   "(the model is the property: accepted <=> converted value in the domain, stored as converted, "
                                                   "rejected => unchanged), so the history above is a concrete failing input"})
    # ---- extension, stage FACTTAB: the table regenerated from the source ------------------------------------------------
    scan = cres.get("scan")
    facttab = {"unreached": [], "done": ""}
    clonetab = {"unreached": [], "done": ""}
    # (a) the symbolic constants of the generator vs the compiler's values
    consts = {}
    for l in proto:
        if l.startswith("CONST "):
            _, ty, rest = l.split(" ", 2)
            key, val = rest.rsplit(" ", 1)
            consts[key] = (ty, val)
    const_bad = []
    want = dict(c19_params.CONSTANTS)
    want.update(c19_params.TYPE_FACTS)
    for key, (ty, v) in sorted(want.items()):
        if key not in consts:
            if done and not key.startswith("std::numeric_limits<scalar_t>::infinity"):
                const_bad.append("%s: not printed by the harness" % key)
            continue
        hty, hv = consts[key]
        same = (hty == ty) and ((ty == "I" and int(hv) == v) or (ty == "F" and float.fromhex(hv) == v))
        if not same:
            const_bad.append("%s: generator %s, compiled library %s" % (key, (float.hex(v) if ty == "F" else v), hv))
    if const_bad:
        r.violation("const", {"kind": "the constant table of tools/checks/c19_params.py disagrees with the compiled library",
                              "differences": const_bad}, no_input=True)
    facttab["constants_checked"] = len([k for k in want if k in consts])
    # (b) failing table entries and factory objects that differ from the table (driver lines)
    if drv:
        tabfail = [l for l in mout.split("\n") if l.startswith("TABFAIL ")]
        # stable order: the offending copy constructor first, then clone() records that are not a copy of *this, then the older
        # stages, last the clone() records that only fail through a copy constructor of their class chain (one per derived class)
        tabfail = sorted(tabfail, key=lambda l: 0 if l.split(" ")[1] == "COPYCTOR" else
                         (1 if l.split(" ")[1] == "CLONE" and "does not return" in l else (3 if l.split(" ")[1] == "CLONE" else 2)))
        factmis = [l for l in mout.split("\n") if l.startswith("MISMATCH FACTTAB")]
        facttab["unreached"] = [l.split(" ", 1)[1] for l in mout.split("\n") if l.startswith("FACTTAB-UNREACHED ")]
        facttab["done"] = next((l for l in mout.split("\n") if l.startswith("FACTTAB-DONE")), "")
        for k, l in enumerate(tabfail[:4]):
            w = l.split(" ")
            idx = int(w[2])
            pay = {"kind": "source table entry fails its theorem", "case": l}
            if scan is not None and w[1] == "PARAM" and idx < len(scan.params):
                p = scan.params[idx]
                pay.update({"kind": "a declared default is outside its declared domain (C19_factory_defaults_in_domain fails for this record)",
                            "source": "%s:%d  register_parameter(%s)" % (p["file"], p["line"], p["src"]),
                            "constructor": p["owner"], "parameter": c19_params.show_parts(p["name"]),
                            "as_compiled": l.split(" ", 4)[4] if len(w) > 4 else "",
                            "meaning": "parameter_t::make_%s(...) runs the domain check on the default (src/parameter.cpp ::update) and throws "
                                       "std::runtime_error: the constructor %s cannot complete, so no object of this class -- and no factory "
                                       "that registers it -- can be built (a harness crash at factory initialisation in this run is that "
                                       "exception)" % (p["kind"], p["owner"]),
                            "replay": "construct the object: the constructor throws; or evaluate `param_ok` on record %d of coq/generated/Src_c19_params.v" % idx})
            elif scan is not None and w[1] == "OBJECT" and idx < len(scan.objects):
                o = scan.objects[idx]
                pay.update({"kind": "the constructor chain of a class does not complete / registers a duplicate (C19_factory_objects_constructible fails)",
                            "class": o["label"], "detail": l.split(" :: ", 1)[-1],
                            "chain": [("register %s (%s:%d)" % (e[2], scan.params[e[1]]["file"], scan.params[e[1]]["line"])) if e[0] == "reg"
                                      else ("assign %s = %s (%s:%d)" % (e[1], e[2], e[4], e[3])) for e in o["ops"]],
                            "meaning": "register_parameter throws on a duplicated name, parameter(name) = v throws on an unknown name or a value "
                                       "outside the domain: the constructor of this class cannot complete"})
            elif w[1] == "USE":
                pay.update({"kind": "a parameter(\"name\") use of the library's own code does not fit the declaration (C19_factory_uses_resolve fails)",
                            "source": " ".join(w[3:]),
                            "meaning": "the name is not registered by the class the code runs on (configurable_t::parameter throws at run time), or "
                                       "the typed read next to it has another kind than the declaration (parameter_t::value<T>() throws), an integer "
                                       "result type that does not contain the declared range, or it truncates a floating-point parameter"})
                if scan is not None and idx < len(getattr(scan, "use_rows", [])):
                    info = scan.use_rows[idx]
                    pay.update({"code": info["code"], "function": info["function"], "evaluated_on_class": info["cls"],
                                "name": info["name"], "typed_read": info["read"],
                                "parameters_registered_by_that_class": info["registered"],
                                "replay": "construct a %s and run %s: %s" % (info["cls"], info["function"], info["code"])})
            elif w[1] == "CLONE":
                pay.update({"kind": "a clone() override does not return a copy of *this of its own class (C19_clones_copy_this / "
                                    "C19_clone_object_equal_independent fail for this record)", "detail": l.split(" :: ", 1)[-1]})
                recs = getattr(scan, "clones", []) if scan is not None else []
                if idx < len(recs):
                    c = recs[idx]
                    pay.update({"source": "%s:%d  %s::clone() const { %s }" % (c["file"], c["line"], c["cls"], c["src"]),
                                "classified_as": " ".join(str(x) for x in c["ret"])})
                if "does not return" not in l:
                    pay.update({"kind": "clone() copy-constructs through a copy constructor of its class chain that does not copy the whole object "
                                        "(class_clone_ok false: C19_clone_object_equal_independent fails for objects of this class); see the COPYCTOR record",
                                "meaning": "the clone loses the parameters (configurable_t base without `other`) or the state of an owned component"})
                elif idx < len(recs):
                    c = recs[idx]
                    pay.update({
                                "meaning": "the clone of an object of this class does not carry the state of the original: with "
                                           "std::make_unique<T>() every parameter is back at its default (C19_clone_default_constructed_refuted), "
                                           "with another class the clone has another dynamic type",
                                "replay": "auto o = <factory>::all().get(<id of %s>); change any parameter of *o; compare o->clone()->parameters() "
                                          "with o->parameters() (typeid for a sibling class)" % c["key"]})
            elif w[1] == "COPYCTOR":
                pay.update({"kind": "a copy constructor of the clonable hierarchies does not copy the whole object (C19_copy_ctors_complete / "
                                    "C19_copies_no_aliasing fail for this class)", "detail": l.split(" :: ", 1)[-1]})
                recs = getattr(scan, "clone_classes", []) if scan is not None else []
                if idx < len(recs):
                    c = recs[idx]
                    cc = c["copy"]
                    pay.update({"class": c["name"], "declared_at": "%s:%d" % (c["file"], c["line"]), "bases": c["bases"],
                                "data_members": ["%s %s (%s)" % (t, n, k) for n, t, k, _ in c["members"]],
                                "copy_constructor": cc[0]})
                    if cc[0] == "UserCopy":
                        named = [i[1] for i in cc[3]]
                        pay.update({"source": "%s:%d" % (cc[1], cc[2]), "initialisers": [" ".join(str(x) for x in i) for i in cc[3]],
                                    "body": cc[5] or "(empty)",
                                    "members_missing_from_the_initialiser_list": [n for n, _, _, _ in c["members"] if n not in named],
                                    "bases_missing_or_without_other": [b for b in c["bases"] if ("IBase", b, True) not in cc[3]],
                                    "meaning": "clone() of every class below copy-constructs through this constructor: a member that is not "
                                               "copied / deep-cloned from `other` (or re-created in the body) does not carry the state of the "
                                               "original (C19_clone_forgotten_member_refuted / C19_clone_base_not_passed_refuted)",
                                    "replay": "configure the component / member of an object of a class derived from %s, clone it, compare" % c["name"]})
            r.violation("table-%d" % k, pay)
        for k, l in enumerate(factmis[:3]):
            r.violation("facttab-%d" % k, {"kind": "a factory object of the compiled library registers other parameters than the table regenerated from the "
                                                   "source says (names, kinds, bounds, comparison operators, defaults: compared bit for bit, in order)",
                                           "case": l, "replay_cmd": replay_cmd + " | grep -E '^(DEFAULT|FACT) '",
                                           "meaning": "either the generator mis-reads the source (the theorems would then speak about another table than "
                                                      "the library) or the library computes the registered values differently from the declaration; "
                                                      "concrete input: <factory>::all().get(<id>)->parameters() vs the source record(s) named in `case`"})
        clonemis = [l for l in mout.split("\n") if l.startswith("MISMATCH CLONETAB")]
        for k, l in enumerate(clonemis[:3]):
            r.violation("clonetab-%d" % k, {"kind": "clone() of an object of the compiled library differs from clone() as the table regenerated from the "
                                                    "source classifies it (dynamic class, every parameter, the owned line-search components of solvers)",
                                            "case": l, "replay_cmd": replay_cmd + " | grep -E '^CLONED '",
                                            "meaning": "the object was obtained from the factory, every parameter moved to another valid value (solvers: also "
                                                       "with configured line-search components installed), then cloned: concrete input = the object printed in "
                                                       "`case`; either the table mis-reads the source or the library's clone is not a copy"})
        clonetab["unreached"] = [l.split(" ", 1)[1] for l in mout.split("\n") if l.startswith("CLONETAB-UNREACHED ")]
        clonetab["done"] = next((l for l in mout.split("\n") if l.startswith("CLONETAB-DONE")), "")
    if scan is not None:
        clonetab.update(c19_clones.summary(scan))
        facttab.update(c19_params.summary(scan))
    # UB probe (built with -fsanitize=float-cast-overflow together with the tree's src/parameter.cpp): since fix 0c6dfeb
    # every assignment of a non-convertible double must throw and src/parameter.cpp must not report any undefined
    # conversion -- both GATE.  The unguarded casts of make_scalar_ (construction from double constants,
    # include/nano/parameter.h) are outside the repaired path: reported in the evidence only.
    probe = {}
    try:
        pexe = build_probe()
        prc, pout = vlib.sh([pexe], timeout=120)
        plines = [l for l in pout.split("\n") if l]
        reports = [l for l in plines if "runtime error" in l]
        probe = {"exit": prc,
                 "ubsan_reports_in_update": [l for l in reports if "src/parameter.cpp" in l],
                 "ubsan_reports_outside_scope": [l for l in reports if "src/parameter.cpp" not in l],
                 "assignments": [l for l in plines if l.startswith("ASSIGN ")],
                 "constructions": [l for l in plines if l.startswith("CONSTRUCT ")],
                 "build_flags": PROBE_FLAGS}
        accepted = [l for l in probe["assignments"] if "-> ACCEPTED" in l]
        if prc != 0 or "DONE" not in plines:
            r.violation("probe-crash", {"kind": "UB probe crashed", "exit": prc, "out": plines[-12:]}, fingerprint="crash")
        if accepted or probe["ubsan_reports_in_update"]:
            r.violation("ub-cast", {"kind": "a double outside the int64 range (NaN/inf/|v|>=2^63) assigned to an integer parameter is accepted and/or "
                                            "reaches static_cast<int64_t> (undefined behaviour) in ::update -- the guard of fix 0c6dfeb is gone or wrong",
                                    "accepted": accepted, "ubsan": probe["ubsan_reports_in_update"],
                                    "calls": "see harness/c19_ubprobe.cpp: e.g. auto p = parameter_t::make_integer(\"wide\", INT64_MIN, LE, 0, LE, 0); p = +inf;",
                                    "replay_cmd": pexe}, fingerprint=UB_FINGERPRINT)
    except vlib.CheckError as ex:
        probe = {"error": str(ex)[-600:]}
        r.violation("probe-build", {"kind": "UB probe failed to build against the working tree", "detail": str(ex)[-1500:]}, no_input=True)
    vlib.handle_coq_failure(r, cres)
    vlib.proof_coverage(r, cres, "make -C coq theories/Properties_C19.vo && coqc theories/Properties_C19.v (Print Assumptions)",
                        ["tools/translate.py (16 kernels of parameter.cpp/configurable.cpp/numeric.h) + textual PrimFloat twins (tools/checks/c19.py)",
                         "Coq primitive floats/ints = IEEE-754 binary64 / 63-bit ints of the host (PrimFloat.*, PrimInt63.*, FloatAxioms.* in Print Assumptions)",
                         "extraction: ExtrOcamlBasic, ExtrOCamlFloats, ExtrOCamlInt63 (coq-core.kernel Float64/Uint63)",
                         "std::stod / std::stoll of libstdc++ as parsing oracles (stoll additionally modelled and compared)",
                         "ocaml/c19_driver.ml, harness/c19_param.cpp, harness/c19_ubprobe.cpp, g++ (%s build)" % variant,
                         "tools/checks/c19_params.py (source parser -> coq/generated/Src_c19_params.v; tied by stage FACTTAB for factory objects, "
                         "constants re-checked by the harness' CONST lines); extraction additionally uses ExtrOcamlString",
                         "tools/checks/c19_clones.py (source parser -> coq/generated/Src_c19_clones.v: clone() overrides, class chains, data members, "
                         "copy constructors; tied by stage CLONETAB for factory objects and solver components; abi::__cxa_demangle class names as keys)"])
    cov = r.coverage
    ops = collections.Counter(l.split(" ", 1)[0] for l in proto)
    cfgops = collections.Counter(l.split(" ")[2] for l in proto if l.startswith("CFG ") and len(l.split(" ")) > 2 and l.split(" ")[1].isdigit())
    sets = [l for l in proto if l.startswith(("SETI", "SETD", "SETIP", "SETFP", "SETS", "SETE", "WR")) or " SET " in l[:40]]
    cov["evaluations"] = len(proto)
    cov["correspondence_lines_checked"] = checked
    # distinct and non-trivial: distinct (state-before-independent) assignment lines that were either accepted or rejected
    # *for a domain reason* are approximated conservatively by distinct protocol lines of assignments / constructions /
    # registrations whose outcome is not a bare kind-mismatch THROW on an unchanged N/S state
    cov["distinct_nontrivial"] = len(set(l for l in proto if l.startswith(("SET", "WR", "MAKE", "CFG", "DEFAULT")) and not l.endswith("| N")))
    cov["rule"] = ("section 1 (exhaustive): 28 start states (7 kinds x every LE/LT combination on [0,10], two enum types) x an alphabet of "
                   "~115 assignments (ints incl. bounds+-1/INT64 limits/2^53+1, doubles incl. bounds+-ulp/NaN/inf/-0/2^63/-2^63, pairs, "
                   "numeric+garbage+pair strings, enums, write+read), every single operation followed by all 6 typed reads, and every "
                   "ordered pair of operations (quick: a seed-dependent 1/7 slice); section 2: random domains (INT64 limits, +-inf, "
                   "single-point, denormal) with random histories of 1..6 assignments + reads; section 3: configurable histories "
                   "(register incl. duplicates/invalid, assign/read by known and unknown names, clone, write+read, up to 4 objects); "
                   "section 4: every parameter of every id of the 11 factories; non-trivial = distinct construction/assignment/"
                   "registration line that is not an assignment to a kind-less parameter")
    cov["op_histogram"] = dict(ops)
    cov["cfg_op_histogram"] = dict(cfgops)
    nonconv = [int(x) for x in re.findall(r"nonconvertible=(\d+)", done[0])] if done else []
    cov["outcomes"] = {"accepted": sum(1 for l in sets if " = OK | " in l), "rejected": sum(1 for l in sets if " = THROW | " in l),
                       "nonconvertible_doubles_to_integer_kinds": nonconv[0] if nonconv else 0,
                       "skipped_undefined_reads_in_model (value<int64_t>() of a double parameter >= 2^63)": model_ub}
    kinds = collections.Counter()
    for l in proto:
        if l.startswith("MAKE ") and " = OK " in l:
            kinds[l.split(" = OK ")[1].split(" ", 1)[0]] += 1
    cov["parameter_kind_histogram"] = dict(kinds)
    cov["constructions_rejected"] = sum(1 for l in proto if l.startswith("MAKE ") and l.endswith("= THROW"))
    facts = collections.Counter(l.split(" ")[1] for l in proto if l.startswith("FACT "))
    cov["factory_ids"] = dict(facts)
    cov["factory_parameters"] = sum(1 for l in proto if l.startswith("DEFAULT "))
    cov["harness_summary"] = done[0] if done else ""
    cov["mismatches"] = len(mism)
    cov["impl_direct_failures"] = len(impl_fail)
    cov["samples"] = sample_histories(proto) or proto[:5]
    cov["exhaustive"] = False
    cov["exhaustive_part"] = "section 1 single operations: complete over the alphabet; pairs complete in the thorough tier"
    cov["unproved_clauses_searched"] = [
        "std::stod is not modelled: its outcome is taken from the run (oracle); the model's std::stoll and split_pair are compared with libstdc++/an independent tokenizer on every string",
        "int64<->double conversions i2f/f2i are executable definitions over PrimFloat (no exactness theorem): compared bit-exactly with static_cast on every numeric case",
        "factory clause: defaults in domain / unique names / constructor-body assignments are theorems about the table regenerated from the "
        "source and tied to the compiled library by stage FACTTAB; still implementation-side enumeration only: get(id) non-null, type_id == "
        "registered id (FACTTAB additionally compares the statically resolved type id), prototype untouched, clone behaves identically "
        "for losses/functions (values / gradients); clone equal + independent is now ALSO a theorem about the clone table regenerated "
        "from the source (C19_clones_copy_this, C19_copy_ctors_complete, C19_clone_object_equal_independent) tied by stage CLONETAB",
        "clone table: value members are assumed to have deep copy constructors of their own (tensors, std::vector, std::string, "
        "parameter lists: library / standard types, not parsed); the 14 clone() records no factory reaches and the copy constructors of "
        "gboost_model_t / result_t / params_t / functional_t have no run-time counterpart in this check; copy assignment operators are not read",
        "source table: the 26 objects no factory returns and all parameter(\"name\") uses are checked against the table only (no run-time "
        "counterpart); range_ok (integer result type contains the declared range) and lossy (truncating read) are boolean checks on the "
        "declared bounds, not lifted to all reachable values in Coq; receivers the parser cannot resolve are listed, not checked",
        "operator== of parameters and the byte-level stream format are exercised through write+read only (codec is C15's subject)"]
    cov["ub_probe"] = probe
    cov["source_table"] = facttab
    cov["clone_table"] = clonetab
    cov["cloned_objects_compared"] = sum(1 for l in proto if l.startswith("CLONED "))
    cov["fixed_findings"] = ["fixed: 0c6dfeb static_cast<int64_t>(double) on NaN/inf/|v|>=2^63 in ::update (was UB; on x86-64 INT64_MIN was accepted "
                             "by domains containing it): now rejected; gated by the harness oracle, the model and the UB probe"]
    r.assumptions = ["the only undefined conversions left are outside the assignment path: make_integer*/make_scalar_ called with double "
                     "constants that do not truncate into int64, and value<int64_t>() of a floating-point parameter >= 2^63 (not executed by the harness)",
                     "x86-64 SSE2 scalar double arithmetic = PrimFloat (round-to-nearest-even conversions)",
                     "quick tier runs the release build of the library, thorough the ASan+UBSan build"]
    return r.finish("proof")
