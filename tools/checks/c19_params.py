"""C19 extension -- the table of all declared parameters, REGENERATED FROM THE SOURCE on every run.

`scan()` re-parses /repo's working tree (src/**, include/**):
  * every `register_parameter(parameter_t::make_<kind>(name, min, LE|LT, default(s), LE|LT, max))` call, with the numeric
    arguments read exactly as the compiler reads them (integer literal -> Z, floating literal -> the binary64 value of strtod,
    emitted as a PrimFloat hex literal; symbolic constants through CONSTANTS, a table the harness re-checks against the
    compiled library with its CONST lines; local `static constexpr auto x = ...;` aliases are followed),
  * the enumeration name tables (`enum_string<T>()` specialisations) for make_enum,
  * the constructors (own registrations, `X::config(*this, prefix)` helper calls, `parameter(name) = constant` statements in
    constructor bodies, base-class constructor chain from the class declarations, type ids from the initialiser lists incl.
    the `T::str()` pieces of the template solvers),
  * every `parameter(<name>)` use in the library's own code together with the typed read / assignment next to it.
`generate()` writes coq/generated/Src_c19_params.v (self-contained data: records, no proofs).

What the generator itself decides (flattening the constructor chain into per-class objects, resolving receivers of
`x.parameter(...)`) is not trusted: the flattened objects are compared EXACTLY with what the compiled library registers
(harness DEFAULT/FACT lines vs the extracted table, ocaml/c19_driver.ml stage FACTTAB), and Coq re-checks that every object
entry is an instance of a raw source record (C19_Factory.objects_from_source)."""
import os
import re
import struct

import vlib


class GenError(vlib.CheckError):
    pass


# ---------------------------------------------------------------------------------------------------------------------
# symbolic constants: C++ expression (whitespace removed) -> ('F', python float) | ('I', int).
# The harness prints the very same expressions evaluated by the compiler (CONST lines); tools/checks/c19.py compares.
# ---------------------------------------------------------------------------------------------------------------------
def _roundpow10(v):
    import math
    return float("1e%d" % int(round(math.log10(v))))           # numeric.h: std::pow(10, std::round(std::log10(v))) -- checked by CONST


DBL_EPS = 2.0 ** -52
CONSTANTS = {
    "std::numeric_limits<scalar_t>::max()": ("F", float.fromhex("0x1.fffffffffffffp+1023")),
    "std::numeric_limits<scalar_t>::lowest()": ("F", -float.fromhex("0x1.fffffffffffffp+1023")),
    "std::numeric_limits<scalar_t>::min()": ("F", float.fromhex("0x1p-1022")),
    "std::numeric_limits<scalar_t>::epsilon()": ("F", DBL_EPS),
    "std::numeric_limits<double>::max()": ("F", float.fromhex("0x1.fffffffffffffp+1023")),
    "std::numeric_limits<double>::lowest()": ("F", -float.fromhex("0x1.fffffffffffffp+1023")),
    "std::numeric_limits<double>::epsilon()": ("F", DBL_EPS),
    "epsilon<scalar_t>()": ("F", DBL_EPS),
    "epsilon0<scalar_t>()": ("F", _roundpow10(10 * DBL_EPS)),
    "epsilon1<scalar_t>()": ("F", _roundpow10((DBL_EPS ** (1.0 / 3)) ** 2)),
    "epsilon2<scalar_t>()": ("F", _roundpow10(DBL_EPS ** 0.5)),
    "epsilon3<scalar_t>()": ("F", _roundpow10(DBL_EPS ** (1.0 / 3))),
    "std::numeric_limits<int64_t>::max()": ("I", 2 ** 63 - 1),
    "std::numeric_limits<int64_t>::min()": ("I", -2 ** 63),
    "std::numeric_limits<int64_t>::lowest()": ("I", -2 ** 63),
    "std::numeric_limits<int32_t>::max()": ("I", 2 ** 31 - 1),
    "std::numeric_limits<int32_t>::min()": ("I", -2 ** 31),
    "std::numeric_limits<int>::max()": ("I", 2 ** 31 - 1),
    "std::numeric_limits<int>::min()": ("I", -2 ** 31),
    "std::numeric_limits<tensor_size_t>::max()": ("I", 2 ** 63 - 1),
    "std::numeric_limits<tensor_size_t>::min()": ("I", -2 ** 63),
}

# facts about the C++ types behind READ_TYPES (bits, negative = unsigned), checked the same way
TYPE_FACTS = {"sizeof(tensor_size_t)*signed": ("I", 64), "sizeof(size_t)*signed": ("I", -64), "sizeof(int)*signed": ("I", 32),
              "sizeof(scalar_t)": ("I", 64)}

KINDS = {"scalar": "KScalar", "integer": "KInteger", "scalar_pair": "KScalarPair", "integer_pair": "KIntegerPair",
         "enum": "KEnum", "string": "KString"}

READ_TYPES = {
    "scalar_t": "RdF64", "double": "RdF64", "float": "RdF64",
    "int": "RdI32", "int32_t": "RdI32",
    "int64_t": "RdI64", "tensor_size_t": "RdI64", "long": "RdI64", "std::ptrdiff_t": "RdI64", "ptrdiff_t": "RdI64",
    "size_t": "RdU64", "std::size_t": "RdU64", "uint64_t": "RdU64", "unsigned long": "RdU64",
    "uint32_t": "RdU32", "unsigned": "RdU32", "unsigned int": "RdU32",
    "string_t": "RdStr", "std::string": "RdStr",
}


# ---------------------------------------------------------------------------------------------------------------------
# source access
# ---------------------------------------------------------------------------------------------------------------------
def strip_comments(s):
    """remove // and /* */ comments, keep string literals and the line structure"""
    out, i, n = [], 0, len(s)
    while i < n:
        c = s[i]
        if c == '"':
            j = i + 1
            while j < n and s[j] != '"':
                j += 2 if s[j] == "\\" else 1
            out.append(s[i:j + 1])
            i = j + 1
        elif c == "'" and i + 2 < n and (s[i + 2] == "'" or (s[i + 1] == "\\" and i + 3 < n and s[i + 3] == "'")):
            k = i + (3 if s[i + 2] == "'" else 4)
            out.append(s[i:k])
            i = k
        elif s.startswith("//", i):
            j = s.find("\n", i)
            i = n if j < 0 else j
        elif s.startswith("/*", i):
            j = s.find("*/", i + 2)
            seg = s[i:(n if j < 0 else j + 2)]
            out.append("\n" * seg.count("\n"))
            i = n if j < 0 else j + 2
        else:
            out.append(c)
            i += 1
    return "".join(out)


def load_tree():
    files = {}
    for top in ("src", "include"):
        for dp, _, fns in os.walk(os.path.join(vlib.REPO, top)):
            for fn in sorted(fns):
                if fn.endswith((".cpp", ".h", ".hpp")):
                    p = os.path.join(dp, fn)
                    rel = os.path.relpath(p, vlib.REPO)
                    files[rel] = strip_comments(open(p, errors="replace").read())
    return files


def balanced(s, i, open_="(", close=")"):
    """s[i] == open_: index of the matching close (string literals skipped)"""
    depth, n = 0, len(s)
    while i < n:
        c = s[i]
        if c == '"':
            i += 1
            while i < n and s[i] != '"':
                i += 2 if s[i] == "\\" else 1
        elif c == open_:
            depth += 1
        elif c == close:
            depth -= 1
            if depth == 0:
                return i
        i += 1
    raise GenError("c19_params: unbalanced parentheses")


def split_args(s):
    """split at top-level commas (parentheses, braces, angle brackets of templates, string literals respected)"""
    out, cur, depth, i, n = [], [], 0, 0, len(s)
    while i < n:
        c = s[i]
        if c == '"':
            j = i + 1
            while j < n and s[j] != '"':
                j += 2 if s[j] == "\\" else 1
            cur.append(s[i:j + 1])
            i = j + 1
            continue
        if c in "({[":
            depth += 1
        elif c in ")}]":
            depth -= 1
        elif c == "<" and re.search(r"[\w:]$", "".join(cur).rstrip()[-1:] or " ") and re.match(r"<[\w:,\s<>]*>", s[i:]):
            m = re.match(r"<[\w:,\s<>]*?>(?=\s*[({:])", s[i:])
            if m:
                cur.append(m.group(0))
                i += len(m.group(0))
                continue
        if c == "," and depth == 0:
            out.append("".join(cur).strip())
            cur = []
        else:
            cur.append(c)
        i += 1
    last = "".join(cur).strip()
    if last:
        out.append(last)
    return out


def strip_template(h):
    return re.sub(r"^\s*template\s*<.*?>\s*(?=(?:class|struct|union|enum)\b)", "", h)


class Fn:
    """a function definition at namespace level (column 0) or a class body"""
    def __init__(self, file, line, header, init, body, body_line, is_class=False, init_line=0):
        self.file, self.line, self.header, self.init, self.body, self.body_line = file, line, header, init, body, body_line
        self.init_line = init_line or line
        self.is_class = is_class
        self.cls = self.name = ""
        self.tparams = []
        self.params = []
        if is_class:
            m = re.search(r"\b(?:class|struct)\s+(?:NANO_PUBLIC\s+)?((?:\w+::)*\w+)", strip_template(header))
            self.cls = m.group(1).split("::")[-1] if m else ""
            self.name = "(class body)"
        else:
            m = re.search(r"(?:^|[\s*&])((?:\w+::)*)(\w+)(<[^>()]*>)?::(~?\w+)\s*\(", header)
            if m:
                self.cls, self.name = m.group(2), m.group(4)
                po = header.index("(", m.end() - 1)
            else:
                m = re.search(r"(?:^|[\s*&])(~?\w+)\s*\(", header)
                if m:
                    self.name = m.group(1)
                    po = header.index("(", m.end() - 1)
            if m:
                pc = balanced(header, po)
                self.params = split_args(header[po + 1:pc])
        mt = re.match(r"\s*template\s*<([^>]*)>", header)
        if mt:
            self.tparams = [re.sub(r"^\s*(class|typename)\s+", "", t).strip() for t in mt.group(1).split(",") if t.strip()]

    @property
    def is_ctor(self):
        return bool(self.cls) and self.cls == self.name

    @property
    def owner(self):
        return ("%s::%s" % (self.cls, self.name)) if self.cls else self.name

    def param_names(self):
        out = []
        for p in self.params:
            p = p.split("=")[0].strip()
            m = re.search(r"(\w+)\s*$", p)
            out.append(m.group(1) if m else "")
        return out

    def param_type(self, name):
        for p in self.params:
            p = p.split("=")[0].strip()
            m = re.match(r"(.*?)[\s&*]+(\w+)\s*$", p)
            if m and m.group(2) == name:
                return m.group(1).strip()
        return None

    def text(self):
        return self.init + "\n" + self.body


def segment(file, text):
    """functions and class bodies whose braces stand in column 0 (the clang-format style of the repository)"""
    lines = text.split("\n")
    out, i, n = [], 0, len(lines)
    ns = []
    while i < n:
        if lines[i].startswith("}") and ns:
            ns.pop()
            i += 1
            continue
        if lines[i].rstrip() == "{":
            h = i - 1
            hdr = []
            while h >= 0 and lines[h].strip() and not lines[h].startswith(("}", "#", "{")) and not lines[h].rstrip().endswith((";", ":")):
                hdr.insert(0, lines[h])
                h -= 1
            head = "\n".join(hdr)
            first = head.strip().split("\n")[0] if head.strip() else ""
            if re.match(r"\s*(inline\s+)?namespace\b", first) or re.match(r'\s*extern\s+"C"', first) or not first:
                mns = re.match(r"\s*(?:inline\s+)?namespace\s*([\w:]*)", first)
                ns.append(mns.group(1) if mns else "")
                i += 1
                continue
            h1 = strip_template(" ".join(head.split()))
            is_class = bool(re.match(r"(class|struct|union|enum)\b", h1)) and "(" not in h1.split(":")[0]
            j = i + 1
            while j < n and not re.match(r"\}", lines[j]):
                j += 1
            body = "\n".join(lines[i + 1:j])
            init, init_line = "", 0
            hl = head.split("\n")
            for k, l in enumerate(hl):
                if re.match(r"\s+:\s", l):
                    init = "\n".join(hl[k:])
                    head = "\n".join(hl[:k])
                    init_line = h + 2 + k
                    break
            f = Fn(file, h + 2, " ".join(head.split()), init, body, i + 2, is_class, init_line)
            f.ns = "::".join(x for x in ns if x)
            out.append(f)
            i = j + 1
        else:
            i += 1
    return out


# ---------------------------------------------------------------------------------------------------------------------
# expressions
# ---------------------------------------------------------------------------------------------------------------------
def hexf(v):
    if v != v or v in (float("inf"), float("-inf")):
        raise GenError("c19_params: non-finite constant")
    return float.hex(v)


def parse_num(expr, fn, what):
    """C++ arithmetic constant -> ('I', int) | ('F', float), exactly as the compiler types and reads it"""
    e = expr.strip()
    sign = 1
    while e[:1] in "+-":
        if e[0] == "-":
            sign = -sign
        e = e[1:].strip()
    e0 = e.replace("'", "")
    if re.fullmatch(r"\d+[uUlL]*", e0):
        return ("I", sign * int(re.match(r"\d+", e0).group(0)))
    if re.fullmatch(r"0[xX][0-9a-fA-F]+[uUlL]*", e0):
        return ("I", sign * int(re.match(r"0[xX][0-9a-fA-F]+", e0).group(0), 16))
    if re.fullmatch(r"(\d+\.\d*|\.\d+|\d+)([eE][+-]?\d+)?", e0) and re.search(r"[.eE]", e0):
        return ("F", sign * float(e0))                     # Python's float() = correctly rounded strtod
    if re.fullmatch(r"(\d+\.\d*|\.\d+|\d+)([eE][+-]?\d+)?[fF]", e0):
        v = struct.unpack("f", struct.pack("f", float(e0[:-1])))[0]
        return ("F", sign * v)
    key = re.sub(r"\s+", "", e)
    key2 = re.sub(r"^nano::", "", key)
    for k in (key, key2):
        if k in CONSTANTS:
            t, v = CONSTANTS[k]
            return (t, sign * v)
    if re.fullmatch(r"\w+", e):
        # local alias: static constexpr auto fmax = std::numeric_limits<scalar_t>::max();
        m = re.search(r"(?:static\s+)?(?:constexpr|const)\s+(?:static\s+)?(?:auto|scalar_t|double|int|int64_t|tensor_size_t)\s+%s\s*=\s*([^;]+);" % re.escape(e),
                      fn.text())
        if m:
            t, v = parse_num(m.group(1), fn, what)
            return (t, sign * v)
    m = re.fullmatch(r"static_cast<(\w+)>\((.*)\)", e)
    if m and m.group(1) in ("scalar_t", "double"):
        t, v = parse_num(m.group(2), fn, what)
        return ("F", sign * float(v))
    raise GenError("c19_params: cannot read the numeric argument `%s` of %s (%s:%d) -- extend CONSTANTS/parse_num" % (expr.strip(), what, fn.file, fn.line))


def unquote(lit):
    s = lit[1:-1]
    return re.sub(r"\\(.)", lambda m: {"n": "\n", "t": "\t", "0": "\0"}.get(m.group(1), m.group(1)), s)


def parse_str(expr, fn, depth=0):
    """string expression -> list of parts ('L', text) | ('T',) type_id() | ('A', parameter name of the enclosing function)"""
    e = expr.strip()
    if depth > 6:
        raise GenError("c19_params: name expression too deep: " + expr)
    parts = split_top(e, "+")
    if len(parts) > 1:
        out = []
        for p in parts:
            out += parse_str(p, fn, depth + 1)
        return norm_parts(out)
    if re.fullmatch(r'"(?:[^"\\]|\\.)*"', e):
        return [("L", unquote(e))]
    m = re.fullmatch(r"(?:nano::)?scat\((.*)\)", e, re.S)
    if m:
        out = []
        for p in split_args(m.group(1)):
            out += parse_str(p, fn, depth + 1)
        return norm_parts(out)
    m = re.fullmatch(r"(?:string_t|std::string|std::string_view)\s*[({](.*)[)}]", e, re.S)
    if m:
        return parse_str(m.group(1), fn, depth + 1)
    m = re.fullmatch(r"std::move\((.*)\)", e, re.S)
    if m:
        return parse_str(m.group(1), fn, depth + 1)
    if re.fullmatch(r"(?:this->)?type_id\(\)", e):
        return [("T",)]
    m = re.fullmatch(r"(\w+)::str\(\)", e)
    if m:
        return [("S", m.group(1))]                         # static str() of a (template parameter) class
    if re.fullmatch(r"\w+", e):
        if e in fn.param_names():
            return [("A", e)]
        m = re.search(r"(?:const\s+)?(?:auto|string_t|std::string)\s+%s\s*(?:=\s*([^;]+)|\{([^;]*)\});" % re.escape(e), fn.body)
        if m:
            return parse_str(m.group(1) or m.group(2), fn, depth + 1)
    raise GenError("c19_params: cannot resolve the name expression `%s` in %s (%s:%d)" % (expr.strip(), fn.owner, fn.file, fn.line))


def split_top(e, sep):
    out, cur, depth, i, n = [], [], 0, 0, len(e)
    while i < n:
        c = e[i]
        if c == '"':
            j = i + 1
            while j < n and e[j] != '"':
                j += 2 if e[j] == "\\" else 1
            cur.append(e[i:j + 1])
            i = j + 1
            continue
        if c in "({[":
            depth += 1
        elif c in ")}]":
            depth -= 1
        if c == sep and depth == 0 and "".join(cur).strip():
            out.append("".join(cur))
            cur = []
        else:
            cur.append(c)
        i += 1
    out.append("".join(cur))
    return out


def norm_parts(parts):
    out = []
    for p in parts:
        if p[0] == "L" and out and out[-1][0] == "L":
            out[-1] = ("L", out[-1][1] + p[1])
        elif p[0] == "L" and p[1] == "":
            continue
        else:
            out.append(p)
    return out


def subst_parts(parts, env):
    """replace ('A', x) by env[x] (a list of parts)"""
    out = []
    for p in parts:
        if p[0] == "A" and p[1] in env:
            out += env[p[1]]
        else:
            out.append(p)
    return norm_parts(out)


def show_parts(parts):
    return "".join(p[1] if p[0] == "L" else ("<type_id>" if p[0] == "T" else "<%s>" % p[1]) for p in parts)


# ---------------------------------------------------------------------------------------------------------------------
# the scan
# ---------------------------------------------------------------------------------------------------------------------
class Scan:
    pass


def line_of(fn, pos_in_text):
    """1-based source line of an offset inside fn.text() (= init + newline + body)"""
    k = len(fn.init) + 1
    if pos_in_text < k:
        return fn.init_line + fn.init[:pos_in_text].count("\n")
    return fn.body_line + fn.body[:pos_in_text - k].count("\n")


def scan():
    sc = Scan()
    files = load_tree()
    sc.files = files
    fns = []
    for f, t in files.items():
        fns += segment(f, t)
    sc.fns = fns
    disambiguate(fns)

    # ---- enumerations -------------------------------------------------------------------------------------------
    enums = {}
    for f, t in files.items():
        for m in re.finditer(r"enum_map_t<([\w:]+)>\s+(?:nano::)?enum_string(?:<[\w:]+>)?\(\)\s*\{\s*return\s*\{(.*?)\};\s*\}", t, re.S):
            ty = m.group(1).split("::")[-1]
            ent = re.findall(r"\{\s*([\w:]+)::(\w+)\s*,\s*(\"(?:[^\"\\]|\\.)*\")\s*\}", m.group(2))
            if not ent:
                raise GenError("c19_params: empty enum_string<%s> in %s" % (ty, f))
            enums[ty] = [(v, unquote(s)) for _, v, s in ent]
    sc.enums = enums

    # ---- classes: bases, bodies, aliases ---------------------------------------------------------------------------
    classes = {}
    for fn in fns:
        if fn.is_class and fn.cls:
            m = re.search(r"\b(?:class|struct)\s+(?:NANO_PUBLIC\s+)?(?:\w+::)*\w+\s*(?:final\s*)?(?::(?!:)\s*(.*))?$", strip_template(fn.header))
            bases = []
            if m and m.group(1):
                for b in split_args(m.group(1)):
                    b = re.sub(r"\b(public|protected|private|virtual)\b", "", b).strip()
                    b = re.sub(r"<.*", "", b).split("::")[-1]
                    if b:
                        bases.append(b)
            if fn.cls not in classes or not classes[fn.cls]["bases"]:
                classes[fn.cls] = {"bases": bases, "body": fn.body, "file": fn.file, "tparams": fn.tparams}
    aliases = {}
    for f, t in files.items():
        for m in re.finditer(r"^using\s+(\w+)\s*=\s*(\w+)<([^;]*)>;", t, re.M):
            args = [a.strip().split("::")[-1] for a in split_args(m.group(3))]
            aliases[m.group(1)] = (m.group(2), args)
    sc.classes, sc.aliases = classes, aliases

    def static_str(cls):
        c = classes.get(cls)
        if not c:
            return None
        m = re.search(r"static\s+(?:constexpr\s+)?(?:auto|const\s+char\s*\*|string_t|std::string)\s+str\(\)\s*(?:noexcept\s*)?\{\s*return\s+(\"(?:[^\"\\]|\\.)*\")\s*;", c["body"])
        return unquote(m.group(1)) if m else None

    # ---- registrations -----------------------------------------------------------------------------------------------
    params = []                  # raw records
    ops_of = {}                  # owner function -> ordered ops
    for fn in fns:
        if fn.is_class and "register_parameter" not in fn.body:
            continue
        text = fn.text()
        ops = []
        for m in re.finditer(r"(?:(\w+)\s*(?:\.|->)\s*)?register_parameter\s*\(", text):
            po = m.end() - 1
            pc = balanced(text, po)
            arg = text[po + 1:pc].strip()
            mm = re.match(r"parameter_t::make_(\w+)\s*\(", arg)
            ln = line_of(fn, m.start())
            if fn.file.endswith(("configurable.cpp", "configurable.h")):
                continue
            if not mm or mm.group(1) not in KINDS:
                raise GenError("c19_params: register_parameter with an argument that is not parameter_t::make_<kind>(...): `%s` (%s:%d)" % (arg[:80], fn.file, ln))
            kind = mm.group(1)
            a0 = arg.index("(", mm.end() - 1)
            args = split_args(arg[a0 + 1:balanced(arg, a0)])
            rec = {"file": fn.file, "line": ln, "owner": fn.owner, "kind": kind, "receiver": m.group(1) or "this",
                   "name": parse_str(args[0], fn), "le": [], "nums": [], "strs": [], "src": " ".join(arg.split())}
            what = "make_%s(%s)" % (kind, show_parts(rec["name"]))
            if kind in ("scalar", "integer"):
                if len(args) != 6:
                    raise GenError("c19_params: %s: expected 6 arguments (%s:%d)" % (what, fn.file, ln))
                rec["nums"] = [parse_num(args[1], fn, what), parse_num(args[3], fn, what), parse_num(args[5], fn, what)]
                rec["le"] = [lelt(args[2], what), lelt(args[4], what)]
            elif kind in ("scalar_pair", "integer_pair"):
                if len(args) != 8:
                    raise GenError("c19_params: %s: expected 8 arguments (%s:%d)" % (what, fn.file, ln))
                rec["nums"] = [parse_num(args[1], fn, what), parse_num(args[3], fn, what), parse_num(args[5], fn, what), parse_num(args[7], fn, what)]
                rec["le"] = [lelt(args[2], what), lelt(args[4], what), lelt(args[6], what)]
            elif kind == "enum":
                mv = re.fullmatch(r"((?:\w+::)*)(\w+)::(\w+)", args[1].strip())
                if not mv or mv.group(2) not in enums:
                    raise GenError("c19_params: %s: cannot find enum_string<> of `%s` (%s:%d)" % (what, args[1], fn.file, ln))
                tab = enums[mv.group(2)]
                dv = [s for v, s in tab if v == mv.group(3)]
                if not dv:
                    raise GenError("c19_params: %s: `%s` has no name in enum_string<%s> (scat() would throw) (%s:%d)" % (what, args[1], mv.group(2), fn.file, ln))
                rec["strs"] = [dv[0]] + [s for _, s in tab]
                rec["enum"] = mv.group(2)
            else:
                rec["strs"] = ["".join(p[1] for p in parse_str(args[1], fn) if p[0] == "L")]
            rec["index"] = len(params)
            params.append(rec)
            ops.append((m.start(), ("reg", rec["index"])))
        if not fn.is_class:
            for m in re.finditer(r"\b(\w+)::config\s*\(\s*\*this\s*,", text):
                po = text.index("(", m.start())
                args = split_args(text[po + 1:balanced(text, po)])
                ops.append((m.start(), ("call", m.group(1) + "::config", [None] + [parse_str(a, fn) for a in args[1:]])))
            if fn.is_ctor:
                for m in re.finditer(r"(?<![\w.>])parameter\s*\(", text):
                    po = m.end() - 1
                    pc = balanced(text, po)
                    ma = re.match(r"\s*=(?!=)\s*([^;]+);", text[pc + 1:])
                    if ma:
                        ops.append((m.start(), ("set", parse_str(text[po + 1:pc], fn), parse_rhs(ma.group(1), fn, enums), line_of(fn, m.start()), fn.file)))
        if ops:
            ops.sort(key=lambda x: x[0])
            key = fn.owner
            if key in ops_of and fn.is_ctor:
                raise GenError("c19_params: two constructors of %s register parameters -- per-constructor objects are not implemented" % fn.cls)
            ops_of.setdefault(key, [])
            ops_of[key] += [o for _, o in ops]
    sc.params, sc.ops_of = params, ops_of

    ctors = {}
    for fn in fns:
        if fn.is_ctor and not fn.is_class:
            # skip copy / move constructors
            if len(fn.params) == 1 and re.search(r"\b%s\b" % re.escape(fn.cls), fn.params[0]):
                continue
            if fn.cls not in ctors or fn.owner in ops_of:
                ctors[fn.cls] = fn
    sc.ctors = ctors
    fn_by_owner = {}
    for fn in fns:
        if not fn.is_class:
            fn_by_owner.setdefault(fn.owner, fn)
    sc.fn_by_owner = fn_by_owner

    def own_ops(cls):
        """ops of the class's own constructor, helper calls inlined (names still may contain ('T',) and ('S', x))"""
        c = ctors.get(cls)
        if not c or c.owner not in ops_of:
            return []
        out = []
        for op in ops_of[c.owner]:
            if op[0] == "call":
                callee = fn_by_owner.get(op[1])
                if callee is None:
                    raise GenError("c19_params: helper %s called by %s not found" % (op[1], c.owner))
                env = {}
                for pn, a in zip(callee.param_names(), op[2]):
                    if a is not None:
                        env[pn] = a
                for o2 in ops_of.get(op[1], []):
                    if o2[0] == "reg":
                        out.append(("reg", o2[1], subst_parts(params[o2[1]]["name"], env)))
                    else:
                        raise GenError("c19_params: nested helper in %s" % op[1])
            elif op[0] == "reg":
                out.append(("reg", op[1], params[op[1]]["name"]))
            else:
                out.append(op)
        return out

    def chain(cls, seen=()):
        if cls in seen:
            return []
        out = []
        for b in classes.get(cls, {"bases": []})["bases"]:
            out += chain(b, seen + (cls,))
        return out + own_ops(cls)

    def ancestors(cls, seen=()):
        out = [cls]
        for b in classes.get(cls, {"bases": []})["bases"]:
            if b not in seen:
                out += ancestors(b, seen + (cls,))
        return out
    sc.ancestors = ancestors

    def type_id(cls, tenv):
        """the string the most derived constructor passes down to typed_t, as far as the initialiser lists tell"""
        c = ctors.get(cls)
        if not c or not c.init:
            return None
        for m in re.finditer(r"[:,]\s*(\w+)(?:<[^>()]*>)?\s*[({]", c.init):
            if m.group(1) in ancestors(cls)[1:]:
                po = m.end() - 1
                args = split_args(c.init[po + 1:balanced(c.init, po, c.init[po], ")" if c.init[po] == "(" else "}")])
                if not args:
                    return None
                try:
                    parts = parse_str(args[0], c)
                except GenError:
                    return None
                out = ""
                for p in parts:
                    if p[0] == "L":
                        out += p[1]
                    elif p[0] == "S":
                        s = static_str(tenv.get(p[1], p[1]))
                        if s is None:
                            return None
                        out += s
                    else:
                        return None
                return out
        return None

    # ---- objects: one per class with a non-empty chain (template classes: one per alias instance) ----------------------
    objects = []
    cands = []
    for cls in sorted(classes):
        if classes[cls]["tparams"] and any(a[0] == cls for a in aliases.values()):
            for al, (tm, targs) in sorted(aliases.items()):
                if tm == cls:
                    cands.append((al, cls, dict(zip(classes[cls]["tparams"], targs)), "%s<%s>" % (cls, ",".join(targs))))
        else:
            cands.append((cls, cls, {}, cls))
    unresolved = []
    for label, cls, tenv, key in cands:
        ops = chain(cls)
        if not ops:
            continue
        tid = type_id(cls, tenv)
        entries, bad = [], None
        for op in ops:
            nm = op[2] if op[0] == "reg" else op[1]
            s = ""
            for p in nm:
                if p[0] == "L":
                    s += p[1]
                elif p[0] == "T" and tid is not None:
                    s += tid
                elif p[0] == "S" and static_str(tenv.get(p[1], p[1])) is not None:
                    s += static_str(tenv.get(p[1], p[1]))
                else:
                    bad = show_parts(nm)
            if op[0] == "reg":
                entries.append(("reg", op[1], s))
            else:
                entries.append(("set", s, op[2], op[3], op[4]))
        if bad:
            unresolved.append("%s: parameter name `%s` needs a type id / prefix the generator cannot resolve statically" % (label, bad))
            continue
        objects.append({"label": label, "cls": cls, "key": key, "type_id": tid or "", "ops": entries, "index": len(objects)})
    sc.objects, sc.unresolved = objects, unresolved
    obj_of_cls = {}
    for o in objects:
        obj_of_cls.setdefault(o["cls"], []).append(o)
    sc.obj_of_cls = obj_of_cls

    # ---- uses ---------------------------------------------------------------------------------------------------------
    sc.uses, sc.uses_unresolved = find_uses(sc)
    return sc


def stem(path):
    p = re.sub(r"^(src|include/nano)/", "", path)
    return re.sub(r"\.(cpp|h|hpp)$", "", p)


def disambiguate(fns):
    """a class name declared in two namespaces (nano::solver_t, nano::program::solver_t) is keyed `<inner namespace>::<name>`
    for the declaration outside namespace nano; member definitions in a .cpp go to the declaration whose header has the
    same path stem"""
    decl = {}
    for f in fns:
        if f.is_class and f.cls:
            decl.setdefault(f.cls, [])
            if (f.ns, f.file) not in [(d.ns, d.file) for d in decl[f.cls]]:
                decl[f.cls].append(f)
    amb = {c: ds for c, ds in decl.items() if len(set(d.ns for d in ds)) > 1}
    for c, ds in amb.items():
        def key(d):
            inner = re.sub(r"^nano(::)?", "", d.ns)
            return (inner + "::" + c) if inner else c
        stems = {stem(d.file): key(d) for d in ds}
        for f in fns:
            if f.cls != c:
                continue
            if f.is_class:
                f.cls = key(f)
            else:
                k = stems.get(stem(f.file))
                if k is None:
                    inner = re.sub(r"^nano(::)?", "", f.ns)
                    k = (inner + "::" + c) if inner and (inner + "::" + c) in stems.values() else c
                f.cls = k
                if f.name == c:
                    f.name = k


def lelt(tok, what):
    t = tok.strip()
    if t in ("LE", "nano::LE", "LE_t{}"):
        return True
    if t in ("LT", "nano::LT", "LT_t{}"):
        return False
    raise GenError("c19_params: %s: comparison `%s` is neither LE nor LT" % (what, t))


def parse_rhs(rhs, fn, enums):
    """constant right-hand side of `parameter(name) = ...;` -> ('num', n) | ('pair', a, b) | ('str', s) | None"""
    r = rhs.strip()
    m = re.fullmatch(r"std::make_tuple\((.*)\)", r, re.S)
    try:
        if m:
            a = split_args(m.group(1))
            if len(a) == 2:
                return ("pair", parse_num(a[0], fn, "assignment"), parse_num(a[1], fn, "assignment"))
            return None
        mv = re.fullmatch(r"((?:\w+::)*)(\w+)::(\w+)", r)
        if mv and mv.group(2) in enums:
            dv = [s for v, s in enums[mv.group(2)] if v == mv.group(3)]
            return ("str", dv[0]) if dv else None
        if re.fullmatch(r'"(?:[^"\\]|\\.)*"', r):
            return ("str", unquote(r))
        return ("num", parse_num(r, fn, "assignment"))
    except GenError:
        return None


def receiver_class(sc, fn, var):
    """static class of a local / parameter / member variable used as `var.parameter(...)` / `var->parameter(...)`"""
    def norm(t):
        t = re.sub(r"\b(const|volatile|typename|struct|class)\b", "", t or "").replace("&", "").replace("*", "").strip()
        m = re.fullmatch(r"std::unique_ptr<\s*([\w:]+)\s*>", t)
        if m:
            t = m.group(1)
        t = t.split("::")[-1]
        if t in sc.classes or t in sc.aliases:
            return t
        m = re.fullmatch(r"r(\w+_t)", t)
        if m and m.group(1) in sc.classes:
            return m.group(1)
        return None
    t = fn.param_type(var)
    if t:
        return norm(t), t
    m = re.search(r"(?:^|[;{}(\n])\s*((?:const\s+)?[\w:<>]+)\s*[&*]?\s+%s\s*(?:=\s*([^;]+)|[({][^;]*[)}])?;" % re.escape(var), fn.body)
    if m:
        t = m.group(1)
        if re.fullmatch(r"(const\s+)?auto", t) and m.group(2):
            rhs = m.group(2)
            mc = re.match(r"\s*(\w+)\s*(?:->|\.)\s*clone\(\)\s*$", rhs)
            if mc and mc.group(1) != var:
                return receiver_class(sc, fn, mc.group(1))
            mm = re.search(r"(\w+)::all\(\)\.get\(", rhs) or re.search(r"make_unique<\s*([\w:]+)\s*>", rhs) or re.match(r"\s*([\w:]+)\s*[({]", rhs)
            if mm:
                return norm(mm.group(1)), mm.group(1)
            return None, rhs
        return norm(t), t
    if fn.cls and fn.cls in sc.classes:
        m = re.search(r"([\w:<>]+)\s+%s\s*(?:\{[^;]*\})?;" % re.escape(var), sc.classes[fn.cls]["body"])
        if m:
            return norm(m.group(1)), m.group(1)
    return None, None


def call_sites(sc, fn):
    """(caller fn, argument list) of the calls of `fn` that pass *this"""
    out = []
    if fn.is_class or fn.is_ctor:
        pat = r"\b(?:\w+::)*%s\s*[({]" % re.escape(fn.cls)
    elif fn.cls:
        pat = r"\b(?:\w+::)*%s::%s\s*\(|(?<![\w:.>])%s\s*\(" % (re.escape(fn.cls), re.escape(fn.name), re.escape(fn.name))
    else:
        pat = r"(?<![\w.>])(?:::)?%s\s*\(" % re.escape(fn.name)
    local = not fn.cls and not fn.is_class          # a free function (anonymous namespace): callers are in the same file
    for g in sc.fns:
        if g.is_class or g is fn or (local and g.file != fn.file):
            continue
        t = g.text()
        for m in re.finditer(pat, t):
            po = m.end() - 1
            try:
                pc = balanced(t, po, t[po], ")" if t[po] == "(" else "}")
            except GenError:
                continue
            args = split_args(t[po + 1:pc])
            if any(a.strip() == "*this" for a in args):
                out.append((g, args))
    return out


def in_string(text, pos):
    ls = text.rfind("\n", 0, pos) + 1
    return len(re.findall(r'(?<!\\)"', text[ls:pos])) % 2 == 1


def find_uses(sc):
    uses, unresolved = [], []
    for fn in sc.fns:
        if fn.file.endswith(("configurable.cpp", "configurable.h", "parameter.cpp", "parameter.h")):
            continue
        text = fn.text() if not fn.is_class else fn.body
        for m in re.finditer(r"(?:(\w+)\s*(\.|->)\s*)?(?<!register_)(?<!\w)parameter\s*\(", text):
            po = m.end() - 1
            if in_string(text, m.start()):
                continue
            pc = balanced(text, po)
            inner = text[po + 1:pc].strip()
            if not inner or re.match(r"(const\s+)?(std::string_view|string_t|std::string)\b", inner):
                continue                                                     # a declaration
            if fn.is_class:
                ln = fn.body_line + text[:m.start()].count("\n")
            else:
                ln = line_of(fn, m.start())
            # inline member functions of a class body are looked at with the class body as scope
            tail = text[pc + 1:pc + 200]
            rd = None
            mt = re.match(r"\s*\.\s*(?:template\s+)?(value|value_pair)\s*<\s*([\w:\s]+?)\s*>\s*\(\s*\)", tail)
            ma = re.match(r"\s*=(?!=)\s*([^;]+);", tail)
            if mt:
                rd = ("pair" if mt.group(1) == "value_pair" else "value", mt.group(2))
            elif ma:
                rd = ("assign", ma.group(1).strip())
            use = {"file": fn.file, "line": ln, "owner": fn.owner if not fn.is_class else fn.cls + " (class body)",
                   "recv": m.group(1) or "this", "expr": inner, "rd": rd, "src": " ".join(text[m.start():pc + 1 + (len(mt.group(0)) if mt else 0)].split())}
            try:
                scope = fn
                if fn.is_class:
                    # the enclosing inline member: take its parameter list from the nearest preceding `name(` at member level
                    pre = text[:m.start()]
                    mm = None
                    for mm in re.finditer(r"^ {4}(?![:,\s])(?:explicit\s+)?(?:[\w:<>&*\s]+\s)?(~?\w+)\(([^;{}]*?)\)\s*(?:const\s*)?(?:noexcept\s*)?(?:override\s*)?$", pre, re.M):
                        pass
                    if mm:
                        scope = Fn(fn.file, fn.line, "%s::%s(%s)" % (fn.cls, mm.group(1), mm.group(2)), "", text, fn.body_line)
                        scope.cls = fn.cls
                        if mm.group(1) == fn.cls.split("::")[-1]:
                            scope.name = fn.cls
                name = parse_str(inner, scope)
            except GenError as ex:
                use["why"] = "name is not a compile-time expression"
                unresolved.append(use)
                continue
            use["name"] = name
            use["scope"] = scope
            uses.append(use)
    # receivers -> target objects
    for u in uses:
        fn = u.pop("scope")
        targets, envs = [], [{}]
        if u["recv"] == "this":
            rcls = fn.cls
            how = "this"
        else:
            rcls, how = receiver_class(sc, fn, u["recv"])
        if rcls == "configurable_t" or (rcls is None and how and "configurable_t" in how):
            # the dynamic class is whoever passes *this: one level of call sites
            sites = call_sites(sc, fn)
            pn = fn.param_names()
            rcls = None
            tl = []
            for g, args in sites:
                if not g.cls:
                    continue
                env = {}
                for k, a in enumerate(args):
                    if k < len(pn) and a.strip() != "*this":
                        try:
                            env[pn[k]] = parse_str(a, g)
                        except GenError:
                            pass
                tl.append((g.cls, env))
            if tl:
                u["targets_cls"] = tl
                how = "call sites passing *this: " + ", ".join(sorted(set(c for c, _ in tl)))
            else:
                u["why"] = "receiver is a configurable_t& and no call site passing *this was found"
        elif rcls:
            if rcls in sc.aliases:
                rcls = sc.aliases[rcls][0]
            u["targets_cls"] = [(rcls, {})]
        else:
            u["why"] = "static class of the receiver `%s` not found (%s)" % (u["recv"], how)
        u["how"] = how
    return uses, unresolved


def resolve_use_targets(sc, u):
    """[(object, resolved name)] or None when the receiver is unresolved"""
    if "targets_cls" not in u:
        return None
    out = []
    for cls, env in u["targets_cls"]:
        # the objects the code can run on: the most derived classes below (or equal to) the receiver's class -- an
        # abstract base may read a parameter that each of its concrete classes registers (solver_penalty_t::minimize)
        below = [o for o in sc.objects if cls in sc.ancestors(o["cls"])]
        objs = [o for o in below if not any(o["cls"] in sc.ancestors(x["cls"])[1:] for x in sc.objects)]
        if not objs:
            # a class without any registration of its own or inherited: the read can only throw
            out.append((None, cls, show_parts(u["name"])))
            continue
        for o in objs:
            s, ok = "", True
            for p in subst_parts(u["name"], env):
                if p[0] == "L":
                    s += p[1]
                elif p[0] == "T" and o["type_id"]:
                    s += o["type_id"]
                else:
                    ok = False
            out.append((o, cls, s if ok else None))
    return out


# ---------------------------------------------------------------------------------------------------------------------
# Coq output
# ---------------------------------------------------------------------------------------------------------------------
def q(s):
    if any(ord(c) > 126 or ord(c) < 32 for c in s):
        raise GenError("c19_params: non-printable character in a string of the table: %r" % s)
    return '"%s"' % s.replace('"', '""')


def coq_num(n):
    if n[0] == "I":
        return "NI (%d)" % n[1]
    return "NF (%s)" % coq_float(n[1])


def coq_float(v):
    if v == 0:
        return "(-0x0p+0)%float" if str(v).startswith("-") else "0x0p+0%float"
    h = hexf(abs(v))
    return ("(-%s)%%float" % h) if v < 0 else ("%s%%float" % h)


def coq_bools(l):
    return "[" + "; ".join("true" if b else "false" for b in l) + "]"


def coq_parts(parts):
    def one(p):
        if p[0] == "L":
            return "PLit %s" % q(p[1])
        if p[0] == "T":
            return "PTypeId"
        return "PArg %s" % q(p[1])
    return "[" + "; ".join(one(p) for p in parts) + "]"


PREAMBLE = """(* GENERATED by tools/checks/c19_params.py from /repo's working tree on every run -- do not edit.
   src_c19_params : every register_parameter(parameter_t::make_<kind>(...)) call of src/ and include/, arguments exactly as the
                    compiler reads them (NI = integer literal, NF = floating literal / constant as binary64);
   src_c19_objects: per class the flattened constructor chain (base classes first; helper ::config calls inlined; the
                    `parameter(name) = constant` statements of constructor bodies) -- compared with the compiled library on
                    every run (FACTTAB stage), and re-derived from src_c19_params inside Coq (objects_from_source);
   src_c19_uses   : every parameter(<name>) use with the typed read / constant assignment next to it, resolved to the
                    object(s) of the receiver's class. *)
From Coq Require Import ZArith List String Floats.
Import ListNotations.
Local Open Scope string_scope.
Local Open Scope Z_scope.

Inductive snum := NI (z : Z) | NF (f : float).
Inductive skind := KScalar | KInteger | KScalarPair | KIntegerPair | KEnum | KString.
Inductive spart := PLit (s : string) | PTypeId | PArg (a : string).

Record sparam := mkSParam {
  sp_file : string; sp_line : Z; sp_owner : string; sp_name : list spart; sp_kind : skind;
  sp_le : list bool;          (* comparison operators in source order, true = LE *)
  sp_nums : list snum;        (* min, default(s), max in source order *)
  sp_strs : list string }.    (* enum: default :: domain; string: [default] *)

Inductive sval := VNum (n : snum) | VPair (a b : snum) | VStr (s : string).
Inductive sentry :=
| EReg (src : nat) (name : string)                  (* index into src_c19_params, name with prefix / type id substituted *)
| ESet (name : string) (v : sval) (file : string) (line : Z).
Record sobject := mkSObject { so_label : string; so_key : string; so_type_id : string; so_entries : list sentry }.

Inductive sread :=
| RdF64 | RdI32 | RdI64 | RdU32 | RdU64 | RdStr | RdPairF | RdPairI
| RdEnum (ty : string) (names : list string)      (* value<tenum>() with the name table of tenum *)
| RdName                                         (* only the name is checked (non-constant assignment, reference taken) *)
| WrVal (v : sval).                               (* parameter(name) = constant *)
Record suse := mkSUse { su_file : string; su_line : Z; su_owner : string; su_obj : nat; su_name : string; su_read : sread }.
"""


def coq_val(v):
    if v[0] == "num":
        return "VNum (%s)" % coq_num(v[1])
    if v[0] == "pair":
        return "VPair (%s) (%s)" % (coq_num(v[1]), coq_num(v[2]))
    return "VStr %s" % q(v[1])


def use_read(sc, u):
    rd = u["rd"]
    if rd is None:
        return "RdName", None
    if rd[0] == "assign":
        fnx = Fn(u["file"], u["line"], "", "", "", u["line"])
        v = parse_rhs(rd[1], fnx, sc.enums)
        return ("WrVal (%s)" % coq_val(v), None) if v else ("RdName", None)
    ty = " ".join(rd[1].split())
    if rd[0] == "pair":
        k = READ_TYPES.get(ty)
        if k == "RdF64":
            return "RdPairF", None
        if k in ("RdI32", "RdI64", "RdU64", "RdU32"):
            return "RdPairI", None
        return None, "value_pair<%s>: unknown scalar type" % ty
    if ty in READ_TYPES:
        return READ_TYPES[ty], None
    t = ty.split("::")[-1]
    if t in sc.enums:
        return "RdEnum %s [%s]" % (q(t), "; ".join(q(s) for _, s in sc.enums[t])), None
    return None, "value<%s>: type is neither arithmetic, string_t nor an enumeration with enum_string<>" % ty


def render(sc):
    out = [PREAMBLE]
    rows = []
    for p in sc.params:
        rows.append("  mkSParam %s %d %s %s %s %s [%s] [%s]" % (
            q(p["file"]), p["line"], q(p["owner"]), coq_parts(p["name"]), KINDS[p["kind"]], coq_bools(p["le"]),
            "; ".join(coq_num(n) for n in p["nums"]), "; ".join(q(s) for s in p["strs"])))
    out.append("Definition src_c19_params : list sparam := [\n" + ";\n".join(rows) + "].\n")
    rows = []
    for o in sc.objects:
        es = []
        for e in o["ops"]:
            if e[0] == "reg":
                es.append("EReg %d %s" % (e[1], q(e[2])))
            else:
                if e[2] is None:
                    raise GenError("c19_params: constructor of %s assigns a non-constant value to parameter `%s` (%s:%d)" % (o["label"], e[1], e[4], e[3]))
                es.append("ESet %s (%s) %s %d" % (q(e[1]), coq_val(e[2]), q(e[4]), e[3]))
        rows.append("  mkSObject %s %s %s\n    [%s]" % (q(o["label"]), q(o["key"]), q(o["type_id"]), ";\n     ".join(es)))
    out.append("Definition src_c19_objects : list sobject := [\n" + ";\n".join(rows) + "].\n")
    rows, listed, infos = [], [], []
    for u in sc.uses:
        rd, why = use_read(sc, u)
        tg = resolve_use_targets(sc, u)
        if tg is None or rd is None:
            listed.append(dict(file=u["file"], line=u["line"], owner=u["owner"], src=u["src"], why=u.get("why") or why))
            continue
        for o, cls, name in tg:
            if o is None:
                raise GenError("c19_params: %s:%d: `%s` is read on an object of class %s, which registers no parameter at all (the read throws)" % (u["file"], u["line"], u["src"], cls))
            if name is None:
                listed.append(dict(file=u["file"], line=u["line"], owner=u["owner"], src=u["src"], why="name needs the type id of %s, not resolvable statically" % o["label"]))
                continue
            row = "  mkSUse %s %d %s %d %s (%s)" % (q(u["file"]), u["line"], q(u["owner"]), o["index"], q(name), rd)
            if row not in rows:
                rows.append(row)
                infos.append(dict(file=u["file"], line=u["line"], function=u["owner"], code=u["src"], cls=o["label"], name=name, read=rd,
                                  registered=[e[2] for e in o["ops"] if e[0] == "reg"]))
    for u in sc.uses_unresolved:
        listed.append(dict(file=u["file"], line=u["line"], owner=u["owner"], src=u["src"], why=u["why"]))
    sc.listed_uses = listed
    sc.use_rows = infos
    sc.n_use_rows = len(rows)
    out.append("Definition src_c19_uses : list suse := [\n" + ";\n".join(rows) + "].\n")
    return "\n".join(out)


def generate():
    """re-parse the working tree and (re)write coq/generated/Src_c19_params.v; returns the scan"""
    sc = scan()
    txt = render(sc)
    gen = os.path.join(vlib.COQ, "generated")
    os.makedirs(gen, exist_ok=True)
    path = os.path.join(gen, "Src_c19_params.v")
    if not os.path.exists(path) or open(path).read() != txt:
        open(path, "w").write(txt)
    return sc


def summary(sc):
    return {"source_records": len(sc.params), "objects": len(sc.objects), "use_rows": sc.n_use_rows,
            "uses_listed_not_checked": sc.listed_uses, "classes_unresolved": sc.unresolved,
            "records_by_kind": {k: sum(1 for p in sc.params if p["kind"] == k) for k in KINDS}}


if __name__ == "__main__":
    import json
    import sys
    s = scan()
    t = render(s)
    if len(sys.argv) > 1 and sys.argv[1] == "-v":
        print(t)
    print(json.dumps(summary(s), indent=1))
    for o in s.objects:
        print(o["index"], o["label"], o["key"], repr(o["type_id"]), len(o["ops"]))
