"""C18 -- shared const objects are thread-safe with schedule-independent results
(proof of the access discipline + ThreadSanitizer / differential validation that the code follows it; partial)."""
import collections
import glob
import os
import re
import vlib

MANIFEST = dict(
    text=("Coq theorems about an access-discipline model (footprints over abstract locations: shared-const state, per-call "
          "clones, buffer[tnum], rows, result slots, per-function counters; every index / size / slot / fast-path expression "
          "is translated from the source on every run): calls with pairwise conflict-free footprints return, under EVERY "
          "interleaving of their single reads and writes, exactly what they return alone (small-step machine, induction over "
          "schedules); on every reachable state of the C17 pool protocol two running tasks have conflict-free footprints "
          "(worker ids index distinct per-thread buffers, chunks tile the rows); the tasks of every ml::tune batch of every "
          "tuner run store to / warm-start from disjoint slots (on top of C13's first-batch-single theorem); const-interface "
          "calls with private function objects / buffers are conflict-free provided minimize() works on per-call line-search "
          "clones; sum_reduce over per-thread accumulators = plain sum in exact arithmetic; the weak-learner selection is "
          "independent of the assignment of features to workers when no two scores tie (refuted with ties; also stated for the selection "
          "computed with the source's own comparisons, which are translated and proved to be one strict order inside a worker and "
          "across workers; an epsilon-improvement rule is refuted). PARTIAL: that the "
          "C++ memory accesses follow the discipline (data-race freedom) is NOT proved; it is validated on every run, in both "
          "tiers, by ThreadSanitizer on sampled schedules (2..16 threads, seeded delays at the pool's synchronisation points) "
          "and by comparing every concurrent call bit for bit with the same call alone (fits with pools of 1, 2, 4, 16 "
          "workers: bit-identical when only the fold/trial tasks run in parallel; with parallel reductions linear models within "
          "1e-5 relative, gboost differences are recorded as candidate findings: its greedy discrete choices amplify "
          "re-association noise); the observed footprints (which tnum indexed "
          "which buffer, which slot was stored / read back, fast-path decisions, chunk lists) are fed to the extracted model."),
    note=("Coq kernel; the footprints are a hand abstraction of the code (validated, not proved); data-race freedom of the "
          "C++ accesses is validated by ThreadSanitizer + differential runs on SAMPLED schedules only (partial); translator "
          "(68 kernels, group c18); theorems of C17 (pool protocol) and C13 (first batch single) are re-used; atomicity "
          "reduction of C17; extraction ExtrOcamlBasic; ocaml/c18_driver.ml; harness/c18_shared.cpp + NANO_VERIF hooks "
          "(g_max_threads, g_rng_seed, schedule points, pool events); floating-point re-association across thread counts is "
          "outside the exact-arithmetic reduction theorem (compared within the property's 1e-5)."),
    technique=("Coq proof of schedule independence for conflict-free footprints + disjointness invariants over the C17/C13 "
               "models with translated index kernels; ThreadSanitizer and concurrent-vs-alone differential runs of the real "
               "library; footprint observations checked against the extracted model"),
    design="DESIGN.md section 2, C18",
    category="proof")

VARIANTS = ["rel", "tsan"]

# candidate findings of the unchanged code (see notes/C18.md): reported in the evidence, gating only once listed in
# known_findings.json (the integrator decides)
DTREE_FP = "fit-dtree-tie"
TABLE_FP = "fit-table-tie"
FLIP_FP = "fit-gboost-flip"
CANDIDATES = {
    FLIP_FP: ("gboost (no trees, at most one table learner in the pool) fits a different model with a dataset pool of several "
              "workers than with one, and from run to run: the greedy discrete choices of boosting amplify the ulp-level "
              "re-association noise of the per-thread accumulators (observed with stumps on a uniform subsample: 14 / 16 / 17 weak "
              "learners, predictions 30 % apart); bit-identical with a dataset pool of one worker and no ThreadSanitizer report in "
              "the very runs that differ: not a data race, but `predictions within 1e-5 whatever the number of threads` fails"),
    TABLE_FP: ("gboost with two look-up-table weak learners in its pool (kbest / ksplit / dense / dstep) fits a different model "
               "depending on the number of dataset-pool workers and even from run to run with the same number: on a categorical "
               "feature the prototypes fit the same table with mathematically equal scores, the ulp-level re-association noise of "
               "the per-thread accumulators decides which prototype wins a round and the boosting diverges from there (predictions "
               "differ by tens of percent; bit-identical with a dataset pool of one worker, TSan clean: not a data race)"),
    DTREE_FP: ("gboost with decision-tree weak learners (depth > 1) fits a different model depending on the number of pool "
               "workers / the schedule: in small tree nodes several (feature, threshold) pairs have exactly the same score and "
               "the one kept is the one of the worker with the smallest id that saw a minimal score (min_reduce over "
               "per-thread caches) -- not a data race (TSan clean), but `same selected features / predictions within 1e-5 "
               "whatever the number of threads` does not hold"),
}

TSAN_ENV = {"TSAN_OPTIONS": "halt_on_error=0 second_deadlock_stack=1 report_signal_unsafe=0 history_size=4 exitcode=66 suppressions=%s"
            % os.path.join(vlib.ROOT, "harness", "tsan.supp")}


def setup():
    vlib.build_harness("c18_shared", "rel")
    vlib.build_harness("c18_shared", "tsan")
    vlib.build_ocaml("c18_driver", "c18_model.ml", "c18_driver.ml")


def _ctx_of(line):
    """`seed=<s> scenario=<family>:<k>` of a FAIL / CAND line"""
    m = re.search(r"seed=(\d+) scenario=(\w+):(\d+)", line)
    return (m.group(2), int(m.group(3))) if m else (None, None)


def _tsan_reports(out):
    """split the ThreadSanitizer reports out of a harness output"""
    reps, cur = [], None
    for l in out.split("\n"):
        if l.startswith("WARNING: ThreadSanitizer") or l.startswith("ThreadSanitizer:") or "ERROR: ThreadSanitizer" in l:
            if cur:
                reps.append(cur)
            cur = [l]
        elif cur is not None:
            cur.append(l)
            if l.startswith("SUMMARY: ThreadSanitizer") or len(cur) > 1500:
                reps.append(cur)
                cur = None
    if cur:
        reps.append(cur)
    return reps


def analyse(r, exe, mode, out, rc, tag, drv, cands):
    """one harness run: direct oracle failures, crashes, sanitizer reports, correspondence with the extracted model"""
    lines = out.split("\n")
    done = [l for l in lines if l.startswith("DONE ")]
    fails = [l for l in lines if l.startswith("FAIL ")]
    stats = {"scenarios": 0, "fails": len(fails), "loops": 0, "users": 0, "tunes": 0, "fits": 0, "cands": 0,
             "wfits": 0, "wfit_exact_ties": 0, "model_checked": 0, "mismatches": 0, "tsan_reports": 0, "exit": rc}
    m = re.search(r"DONE scenarios=(\d+) fails=(\d+) cands=(\d+) loops=(\d+) users=(\d+) tunes=(\d+) fits=(\d+) wfits=(\d+) wties=(\d+)", "\n".join(done))
    if m:
        stats.update(scenarios=int(m.group(1)), fails=int(m.group(2)), cands=int(m.group(3)), loops=int(m.group(4)),
                     users=int(m.group(5)), tunes=int(m.group(6)), fits=int(m.group(7)), wfits=int(m.group(8)),
                     wfit_exact_ties=int(m.group(9)))

    def replay_cmd(fam, k):
        pre = "VERIF_SEED=%d " % r.seed
        if tag == "tsan":
            pre += "TSAN_OPTIONS='%s' " % TSAN_ENV["TSAN_OPTIONS"]
        return "%s%s %s %s" % (pre, exe, mode, ("%s:%d" % (fam, k)) if fam else "")

    # ThreadSanitizer reports: each one is a concrete failing schedule (scenario = the last scenario line printed before it)
    reps = _tsan_reports(out) if tag == "tsan" else []
    stats["tsan_reports"] = len(reps)
    for i, rep in enumerate(reps[:3]):
        pos = out.find(rep[0])
        before = [l for l in out[:pos].split("\n") if l.startswith(("LOOP", "USER", "TUNET", "TUNEB", "FIT", "WFIT"))]
        frames = [l.strip() for l in rep if re.match(r"\s+#\d+ ", l)]
        # the report without the deep std::future / pthread frames of each stack
        short = [l[:300] for l in rep if not (re.match(r"\s+#(\d+) ", l) and int(re.match(r"\s+#(\d+) ", l).group(1)) > 7)]
        innano = [f for f in frames if "nano::" in f and "c18_shared.cpp" not in f]
        r.violation("%s-race-%d" % (tag, i), {
            "kind": "ThreadSanitizer report while shared const objects were used concurrently",
            "summary": [l for l in rep if l.startswith("SUMMARY")][:1], "report": short[:90],
            "frames_in_libnano": innano[:12],
            "last_completed_scenario_line": (before[-1][:300] if before else "(none: first scenario of the run)"),
            "replay_cmd": replay_cmd(None, 0) + "   # the report names the racing accesses; scenarios run in a fixed order"})
    for i, l in enumerate(fails[:3]):
        fam, k = _ctx_of(l)
        r.violation("%s-impl-%d" % (tag, i), {"kind": "direct property check failed on the implementation "
                                                       "(concurrent result differs from the same call alone / oracle of the scenario)",
                                               "what": l[:3000], "replay_cmd": replay_cmd(fam, k if k is not None else 0)})
    for l in lines:
        if l.startswith("CAND "):
            kind = l.split()[1]
            cands[kind].append((tag, l))
    bad_exit = rc not in (0,) and not (tag == "tsan" and rc == 66 and reps)
    if bad_exit or not done:
        r.violation(tag + "-crash", {"kind": "implementation crashed / hung / sanitizer abort", "exit": rc,
                                     "tail": [l[:400] for l in lines[-40:]],
                                     "sanitizer": [l[:300] for l in lines if "ERROR:" in l or "SUMMARY:" in l or "ThreadSanitizer" in l][:10],
                                     "replay_cmd": replay_cmd(None, 0)})
    if drv:
        feed = "\n".join(l for l in lines if l.startswith(("LOOP ", "USER ", "TUNEB ", "TUNET ", "FIT ", "WFIT "))) + "\n"
        rc2, mout = vlib.sh([drv], input=feed, timeout=3000)
        mm = [l for l in mout.split("\n") if l.startswith("MISMATCH")]
        md = re.search(r"MODEL-DONE checked=(\d+) mismatches=(\d+) loops=(\d+) groups=(\d+) pairs=(\d+) tunebatches=(\d+) "
                       r"tunetables=(\d+) users=(\d+) fits=(\d+)", mout)
        if md:
            stats.update(model_checked=int(md.group(1)), mismatches=int(md.group(2)), model_groups=int(md.group(4)),
                         model_pairs=int(md.group(5)), model_tunebatches=int(md.group(6)))
        else:
            r.violation(tag + "-driver", {"kind": "model driver failed", "out": mout[-2000:]}, no_input=True)
        for i, l in enumerate(mm[:3]):
            # an observed footprint / index / slot / fast-path decision that the discipline model does not allow
            r.violation("%s-corr-%d" % (tag, i), {"kind": "observation of the implementation contradicts the access-discipline model",
                                                  "what": l[:3000], "replay_cmd": replay_cmd(None, 0)})
    return stats, lines


def do_replay(path):
    """re-run the scenario recorded in a replay file alone (same seed, same build variant); exit 1 if it fails again.
    NB: schedules are not reproducible exactly -- the scenario re-draws the same inputs and delays, the OS the interleaving."""
    import json
    d = json.load(open(path))
    txt = json.dumps(d)
    m = re.search(r"seed=(\d+) scenario=(\w+):(\d+)", txt)
    variant = "tsan" if "-tsan-" in os.path.basename(path) else "rel"
    mode = "quick"
    mm = re.search(r"c18_shared (quick|thorough|tsan)", txt)
    if mm:
        mode = mm.group(1)
    exe = vlib.build_harness("c18_shared", variant)
    env = dict(TSAN_ENV, VERIF_SEED=str(d.get("seed", m.group(1) if m else 20260926)))
    args = [exe, mode] + (["%s:%s" % (m.group(2), m.group(3))] if m else [])
    bad = 0
    for attempt in range(5):
        rc, out = vlib.sh(args, timeout=3000, env=env)
        fails = [l for l in out.split("\n") if l.startswith("FAIL ") or "WARNING: ThreadSanitizer" in l or l.startswith("SUMMARY: ThreadSanitizer")]
        print("replay attempt %d: exit %d, %d failing lines" % (attempt, rc, len(fails)))
        for l in fails[:6]:
            print("  " + l[:600])
        if fails or rc != 0:
            bad += 1
            break
    if bad:
        print("VIOLATION property=C18 replay=%s" % path)
    return 1 if bad else 0


def run(tier, replay=None):
    if replay:
        return do_replay(replay)
    r = vlib.Run("C18", tier)
    for old in glob.glob(os.path.join(vlib.OUTDIR, "replays", "C18-%d-*.json" % r.seed)):  # replays of an earlier run with this seed
        os.remove(old)
    cres = vlib.coq_check("C18", targets=["theories/Extract_C18.vo", "theories/Properties_C18.vo"])
    exe = vlib.build_harness("c18_shared", "rel")
    texe = vlib.build_harness("c18_shared", "tsan")
    drv = None
    try:
        drv = vlib.build_ocaml("c18_driver", "c18_model.ml", "c18_driver.ml")
    except (vlib.CheckError, OSError):
        if cres["ok"]:
            raise
    cands = collections.defaultdict(list)
    # release build: the full scenario set of the tier
    rc, out = vlib.sh([exe, tier], timeout=3400, env={"VERIF_SEED": str(r.seed)})
    stats, lines = analyse(r, exe, tier, out, rc, "rel", drv, cands)
    # ThreadSanitizer build: quick = reduced scenario set, thorough = the quick set (data races are the heart of the property)
    tmode = "tsan" if tier == "quick" else "quick"
    env = dict(TSAN_ENV, VERIF_SEED=str(r.seed))
    rc3, out3 = vlib.sh([texe, tmode], timeout=3400, env=env)
    tstats, tlines = analyse(r, texe, tmode, out3, rc3, "tsan", drv, cands)

    candidates = []
    for fp, sel in cands.items():
        what = CANDIDATES.get(fp, "unclassified candidate")
        fam, k = _ctx_of(sel[0][1])
        payload = {"kind": what, "count": len(sel), "cases": [l[:1200] for _, l in sel[:4]],
                   "replay_cmd": "VERIF_SEED=%d %s %s %s:%s" % (r.seed, exe if sel[0][0] == "rel" else texe,
                                                              tier if sel[0][0] == "rel" else tmode, fam, k)}
        if fp not in CANDIDATES:
            r.violation("cand-" + fp, payload)
        elif any(f.get("fingerprint") == fp for f in r.kf):
            r.violation(fp, payload, fingerprint=fp)
        else:
            candidates.append(dict(payload, fingerprint=fp))

    vlib.handle_coq_failure(r, cres)
    vlib.proof_coverage(r, cres, "make -C coq theories/Properties_C18.vo && coqc theories/Properties_C18.v (Print Assumptions)",
                        ["tools/translate.py (68 kernels of group c18: per-thread indices and sizes, the `better than the best so far` tests of the weak-learner caches and of min_reduce, tune slots, pool fast paths, sum_reduce loop)",
                         "theorems of C17 (pool protocol invariants) and C13 (first batch is a single trial) are imported",
                         "extraction: ExtrOcamlBasic only", "ocaml/c18_driver.ml (parsing of the observation lines)",
                         "harness/c18_shared.cpp + NANO_VERIF hooks in parallel.h/.cpp, random.cpp (add-only)",
                         "g++ -fsanitize=thread (happens-before race detector: reports only races of the schedules that ran)",
                         "the footprints of C18_Defs are a hand abstraction of the C++ accesses: validated by TSan + differential runs, not proved"])
    cov = r.coverage
    kinds = collections.Counter()
    distinct = set()
    threads_hist = collections.Counter()
    pools_hist = collections.Counter()
    for l in lines + tlines:
        t = l.split(" ", 2)
        if t[0] in ("LOOP", "USER", "TUNEB", "TUNET", "FIT", "WFIT"):
            kv = dict(x.split("=", 1) for x in l.split(" | ")[0].split()[2:] if "=" in x)
            kinds[t[0] + ":" + kv.get("kind", kv.get("model", kv.get("learner", "")))] += 1
            if "threads" in kv:
                threads_hist[kv["threads"]] += 1
            if "pool" in kv:
                pools_hist[kv["pool"]] += 1
            # non-trivial: really concurrent -- a LOOP / TUNEB line whose tasks ran on at least two OS threads, a USER / FIT line (>= 2 threads by construction)
            if t[0] in ("LOOP", "TUNEB"):
                parts = l.split(" | ")
                tids = set(x.split(":")[3 if t[0] == "LOOP" else 4] for x in parts[1].split() if x.count(":") >= 5) if len(parts) > 1 else set()
                if len(tids) >= 2:
                    distinct.add(re.sub(r"^\w+ \d+ ", "", l))
            elif t[0] in ("USER", "FIT", "WFIT") and kv.get("threads", "1") != "1":
                distinct.add(re.sub(r"^\w+ \d+ ", "", l))
    cov["evaluations"] = stats["scenarios"] + tstats["scenarios"]
    cov["distinct_nontrivial"] = len(distinct)
    cov["rule"] = ("scenarios derived from VERIF_SEED: LOOP = 1..4 user threads with their own iterator (flatten / flatten+targets / "
                   "targets / select / cached variants) on ONE dataset with a pool of 1..16 workers, 1..3 loop() calls each, busy tasks; "
                   "USER = 2..16 threads x 1..3 repetitions on ONE shared solver (every solver id, random line-search pairs) / loss "
                   "(every loss id) / dataset (flatten, targets, select) / fitted linear or gboost model (predict), private function "
                   "objects and buffers, compared bit for bit with the same calls made alone; TUNE = ml::tune with an exact dyadic "
                   "callback under tune pools of 1, 2, 16 workers (local-search / surrogate, 2..6 folds); FIT = full fit() of "
                   "linear (4 regularisers) and gboost (7 weak-learner pools, 5 sub-sampling modes with fixed seed, 3 shrinkage modes) "
                   "with pools of 1, 2, 4, 16 workers (thorough: also under 1-2 CPU affinity); WFIT = fits of every weak learner with per-thread "
                   "caches (affine, stump, hinge, 4 tables, depth-1 tree) on datasets with near-duplicate features (copies scaled by 1 +- 2^-30 / "
                   "perturbed by 1e-9 / exact / 1e-6, at arbitrary positions; near-duplicate categorical features) with dataset pools of "
                   "2, 3, 4, 8, 16 workers, selected features + score + predictions bit-identical to the one-worker fit (an exactly equal "
                   "score on another feature = the known tie case, counted as wfit_exact_ties); seeded yields / sleeps at the 6 schedule "
                   "points of the pool (level 0..2 per scenario). Every scenario runs on the release build and (a subset in quick) on "
                   "the ThreadSanitizer build. distinct_nontrivial = distinct observation lines that were really concurrent (tasks "
                   "of a LOOP / TUNEB line ran on >= 2 OS threads; USER / FIT lines with >= 2 threads)")
    cov["scenario_histogram"] = dict(kinds)
    cov["user_threads_histogram"] = dict(threads_hist)
    cov["pool_size_histogram"] = dict(pools_hist)
    cov["run_stats"] = stats
    cov["tsan_stats"] = tstats
    cov["tsan_mode"] = tmode
    cov["mismatches"] = stats["mismatches"] + tstats["mismatches"]
    cov["impl_direct_failures"] = stats["fails"] + tstats["fails"]
    cov["footprint_observations_checked"] = stats["model_checked"] + tstats["model_checked"]
    cov["candidate_findings"] = candidates
    smp = [l[:400] for l in lines if l.startswith(("LOOP 3 ", "USER 5 ", "TUNEB 2 ", "TUNET 2 ", "FIT 5 ", "WFIT 16 "))][:7]
    cov["samples"] = smp or [l[:300] for l in lines[:4]] or ["(no scenario output)"]
    cov["unproved_clauses_searched"] = [
        "data-race freedom of the C++ memory accesses (ThreadSanitizer on the sampled schedules of both tiers; the theorems are about the "
        "footprint discipline, which the code is only OBSERVED to follow)",
        "every concurrent call returns bit-identical results to the same call alone (implementation-side: all solver ids, all loss ids, "
        "dataset flatten/targets/select, predict of fitted linear and gboost models; model-side: C18_deterministic for conflict-free footprints)",
        "fits are independent of the number of pool workers up to re-association: same selected features, same tuning, predictions "
        "within 1e-5 relative (floating point; the model statement is exact arithmetic: C18_reduction_order, C18_fit_select_schedule_independent)",
        "weak-learner selection with exactly tied scores is schedule dependent (C18_fit_select_tie_refuted): searched with the tieprobe "
        "scenario on request, and visible as candidate finding `fit-dtree-tie`"]
    cov["excluded_inputs"] = ["gboost fits with a dataset pool of several workers: differences to the one-worker fit are recorded as candidate "
                              "findings (`fit-dtree-tie`, `fit-table-tie`, `fit-gboost-flip`: discrete choices amplifying re-association noise), "
                              "not as violations; a different exception still fails, and the same fits with a dataset pool of ONE worker and fold/trial "
                              "tasks on 2/4/16 workers must be bit-identical; linear models stay strict (1e-5); TSan and all other oracles apply to all of them",
                              "non-const use (dataset_t::drop/undrop are const but mutate the generators: not part of the const interface of the property)"]
    r.assumptions = ["the abstract footprints of C18_Defs describe the C++ accesses (validated by TSan + differential runs on sampled schedules, not proved)",
                     "ThreadSanitizer's happens-before analysis is sound for the synchronisation used (std::mutex, condition_variable, futures, atomics)",
                     "assumptions of C17 (atomicity reduction of the mutex-protected blocks, contracts of mutex / condition_variable / packaged_task)",
                     "each user thread has its own function object / buffers (premise of the property); no enqueue() without waiting",
                     "verif::g_rng_seed makes the library's unseeded RNGs deterministic (gradient-sampling solvers)"]
    return r.finish("proof")
