"""C01 -- L-BFGS/BFGS solve well-conditioned smooth convex problems, truthfully.
Shares the model (coq/theories/C02_Defs.v), the harness (harness/c02_solver.cpp, mode c01), the driver and the
machinery of tools/checks/c02.py."""
import c02

MANIFEST = dict(
    text=("Coq theorems: (1) truthfulness of `converged` for every done()-event trace of a line-search solver accepted by "
          "the extracted acceptor -- the returned state is the exit snapshot of a done() call whose converged flag was true, "
          "and that flag equals gradient_test(snapshot) < epsilon recomputed bit-exactly in binary64, whatever direction, "
          "step initialisation and line-search rule did (oracles); the done() decision is translated from solver.cpp on "
          "every run; (2) over R, the error bound |x-x*|_2 <= sqrt(n) eps max(1,|f|)/lambda_min for every strongly convex "
          "quadratic from the gradient criterion (Cauchy-Schwarz proved). Tie: all 17 line-search solvers x lsearch0 x "
          "lsearchk x tolerances x epsilon run on the registered smooth functions and generated quadratics with the "
          "NANO_VERIF done() hooks; every trace must be accepted. Direct oracle with a recording wrapper function: the "
          "criterion recomputed at the returned point (recorded and fresh evaluation); L-BFGS/BFGS on random quadratics "
          "s*Q*diag*Q' (kappa<=1e3, n<=16) must converge within 1500 evaluations with the error bound -- that clause is "
          "searched, not proved."),
    note=("Coq kernel; Flocq + FloatAxioms, Coq reals; translator; extraction (ExtrOcamlBasic + ExtrOCamlFloats); harness + "
          "OCaml driver; NANO_VERIF hooks in solver.cpp (add-only); Eigen linear algebra of lbfgs/quasi not modelled; NDEBUG build."),
    technique="Coq proof over an extracted trace acceptor + real-analysis bound, trace acceptance of the instrumented solvers, direct oracle",
    design="DESIGN.md section 2, C01")

VARIANTS = ["rel"]


def setup():
    c02.setup()


def run(tier, replay=None):
    return c02.run_shared(
        "C01", "c01", tier,
        ["Coq standard-library reals (classical axioms) for the error bound"],
        ["L-BFGS / BFGS return `converged` after at most 1500 function+gradient evaluations on every quadratic of the class "
         "(kappa <= 1e3, n <= 16, scale in [1e-3,1e3], |x0|_inf <= 10) at epsilon = 1e-8: searched on random members incl. the "
         "boundary values of kappa and scale; no theorem (floating-point convergence rate of lbfgs.cpp/quasi.cpp)",
         "the error bound on the implementation's returned point (the theorem is over R; rounding of the gradient evaluation is "
         "not modelled): measured against the known minimiser",
         "that every line-search solver body produces an accepted trace (checked on every run, not proved about the C++)",
         "the criterion at the returned point recomputed by a fresh evaluation of the user function (recording wrapper)"],
        ["NDEBUG build: assertions compiled out as in the library build",
         "snapshots whose gradient contains a NaN are excluded from the bit-exact recomputation of the flag "
         "(Eigen's lpNorm<Infinity> is unspecified there)",
         "generated quadratics evaluate with plain scalar loops (bit-reproducible); registered functions use Eigen"])
