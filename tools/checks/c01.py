"""C01 -- L-BFGS/BFGS solve well-conditioned smooth convex problems, truthfully.
Stage 1 shares the model (coq/theories/C02_Defs.v), the harness (harness/c02_solver.cpp, mode c01), the driver and the
machinery of tools/checks/c02.py.
Stage 2 (C01Q, "quasi-Newton algebra"): the inverse-Hessian updates of src/solver/quasi.cpp and the two-loop recursion of
src/solver/lbfgs.cpp as an exact-rational Coq model (coq/theories/C01Q_*.v, Properties_C01Q.v) tied to the
ev_quasi_update / ev_lbfgs_direction hook events of the real solvers (harness/c01_quasi.cpp, ocaml/c01q_driver.ml).
Stage 3 (C01CG, "conjugate-gradient direction"): the ten beta formulas, the formula-per-solver-id table, the candidate
direction, the restart test and the loop book-keeping of src/solver/cgd.cpp as a Coq model over ordered fields
(coq/theories/C01CG_*.v, Properties_C01CG.v) tied to the ev_cgd_direction hook events of the ten real cgd solvers
(harness/c01_cgd.cpp incl. scripted gradient oracles that hit the case splits exactly, ocaml/c01cg_driver.ml).
Stage 4 (C01F, "finite termination"): the exact-arithmetic core of the convergence clause -- the direction blocks of cgd.cpp,
quasi.cpp (BFGS) and lbfgs.cpp with their loop decisions (translated on every run) iterated with EXACT line searches on a
strictly convex quadratic terminate in at most n iterations (coq/theories/C01_Finite_Defs.v, C01_Finite.v,
Properties_C01F.v), tied to the real solvers run with a nearly exact line search on small-integer quadratics
(harness/c01_finite.cpp, ocaml/c01f_driver.ml)."""
import collections
import json
import os
import re
import shlex
import time
import c02
import vlib

MANIFEST = dict(
    text=("Coq theorems: (1) truthfulness of `converged` for every done()-event trace of a line-search solver accepted by "
          "the extracted acceptor -- the returned state is the exit snapshot of a done() call whose converged flag was true, "
          "and that flag equals gradient_test(snapshot) < epsilon recomputed bit-exactly in binary64, whatever direction, "
          "step initialisation and line-search rule did (oracles); the done() decision is translated from solver.cpp on "
          "every run; (2) over R, the error bound |x-x*|_2 <= sqrt(n) eps max(1,|f|)/lambda_min for every strongly convex "
          "quadratic from the gradient criterion (Cauchy-Schwarz proved); (3) the quasi-Newton algebra, over every ordered "
          "field (instances: canonical rationals, R), all dimensions: the SR1 / DFP / BFGS / Hoshino / Fletcher updates of "
          "quasi.cpp as written satisfy the secant equation and preserve symmetry; BFGS, DFP, their convex combinations "
          "(Hoshino; Fletcher's switch) preserve positive definiteness when s'y > 0, hence -H g is a descent direction; the "
          "two-loop recursion of lbfgs.cpp equals H_k g with H_k the BFGS updates of (s'y/y'y) I over the stored pairs, "
          "oldest to newest, hence a descent direction when every stored pair has s'y > 0. Tie: all 17 line-search solvers "
          "x lsearch0 x lsearchk x tolerances x epsilon run on the registered smooth functions and generated quadratics with "
          "the NANO_VERIF done() hooks; every trace must be accepted; every ev_quasi_update / ev_lbfgs_direction event of "
          "bfgs/dfp/sr1/hoshino/fletcher (both initialisations) and lbfgs (history 1..30) is recomputed by the extracted "
          "exact model (1e-9 relative to the running error bound of the summed terms) and the proved properties (secant, "
          "symmetry, positive definiteness by exact LDL', descent, history bound) are evaluated on the implementation's own "
          "numbers. Direct oracle with a recording wrapper function: the criterion recomputed at the returned point; "
          "L-BFGS/BFGS on random quadratics s*Q*diag*Q' (kappa<=1e3, n<=16) must converge within 1500 evaluations with the "
          "error bound -- that clause is searched, not proved. (4) the conjugate-gradient direction of cgd.cpp, over every "
          "ordered field, all dimensions, any previous gradient/direction: the ten beta formulas as written, the formula each "
          "solver id returns, the candidate -g + beta pd, the restart test !has_descent(d) || |g.pg| >= orthotest g.g "
          "(translated from the source on every run), first-iteration branch and book-keeping; theorems: the CHOSEN direction "
          "of every iteration of every run is a descent direction (the line search's refusal of non-descent directions is "
          "unreachable from cgd); restarted => d = -g, else d = -g + beta pd and |g.pg| < orthotest g.g; FR = CD = DY and PR = "
          "HS = LS after an exact line search; HS conjugacy d.y = 0; Dai-Yuan g.d = beta (pd.pg); |FRPR| <= FR; 0 <= DYHS <= "
          "max(0, DY); 0 <= DYCD <= CD; N >= its clamp and Hager-Zhang's g.d <= -(7/8) g.g for the unclamped and the clamped "
          "formula; on a strictly convex quadratic with exact line searches cg_step itself never restarts, all ten ids return "
          "FR and consecutive directions are A-conjugate (induction over the run); refuted with witnesses: PR / FR / DY "
          "candidates without the restart can be ascent directions. Tie: every ev_cgd_direction event of the ten cgd solvers "
          "(natural runs + scripted small-integer gradient oracles that hit ties of the restart test and of every clamp "
          "exactly) is recomputed by the extracted exact model (beta within 1e-9 of the running error bound, restart decision "
          "exactly where binary64 is exact, direction within 2 ulp, loop book-keeping bitwise) and the proved clauses are "
          "evaluated on the implementation's own numbers. (5) the exact-arithmetic core of the convergence clause (finite "
          "termination), over every ordered field, all n, every symmetric positive definite A, exact line searches t = -(g.d)/(d'Ad) "
          "(proved to be the minimiser along d, to decrease f strictly, and to cost two evaluations via the secant formula): the "
          "cgd loop (cg_step, any of the ten ids) keeps ALL gradients mutually orthogonal, ALL directions mutually A-conjugate and "
          "every gradient orthogonal to every earlier direction (induction over the run), hence reaches a zero gradient after at "
          "most n iterations -- through a linear-algebra lemma proved directly on lists (a triangular bi-orthogonal family of "
          "vectors of length n has at most n members); the quasi.cpp loop with BFGS_ (restart test and scaled initialisation "
          "translated from the source) from any spd H0 keeps the hereditary secant equations H_{k+1} y_j = s_j for all j <= k and "
          "mutually conjugate steps, never restarts, stops after at most n iterations and then H_n = A^{-1}; the lbfgs.cpp loop "
          "(forced -g, store / clear, bounded history, any bound >= 1) runs in lock step with conjugate gradients -- same points, "
          "direction a positive multiple of the cg direction. Tie: the extracted exact-rational runs against the ten cgd ids, bfgs "
          "x {identity, scaled}, lbfgs x history {1,2,3,20} with More-Thuente at tolerance (1e-12, 1e-9) on integer quadratics: "
          "iterates, gradients, directions, steps and H within 1e-8 of the exact run, the iteration at which |g| <= 1e-10 |g0| "
          "equals the model's K <= n; direct oracles: converged within n + 2 iterations, orthogonality / conjugacy / hereditary "
          "secant residuals, L-BFGS history = the newest h pairs bitwise. The 1500-evaluation clause itself stays searched: "
          "inexact line searches and rounding are outside these theorems."),
    note=("Coq kernel; Flocq + FloatAxioms, Coq reals; translator; extraction (ExtrOcamlBasic + ExtrOCamlFloats; stage 2: "
          "ExtrOcamlZBigInt + Z.ggcd mapped to Zarith's gcd); harness + OCaml drivers; NANO_VERIF hooks in solver.cpp, "
          "quasi.cpp, lbfgs.cpp, cgd.cpp (add-only); floating-point rounding of the Eigen linear algebra is outside the theorems "
          "(compared within 1e-9 of the running error bound); the curvature condition s'y > 0 is a property of the line "
          "search, not of lbfgs.cpp/quasi.cpp (counted on every run); the Euclidean norms read by cgd's N formula are inputs of "
          "the model; cgd events with a non-finite beta (division by a zero inner product) are skipped and counted; NDEBUG build; "
          "stage C01F: theorems in exact arithmetic with exact line searches (closed under the global context: no axiom); the "
          "real runs use the tightest line search that never fails on the instance class and are compared within calibrated "
          "tolerances; hook ev_solver_done supplies the per-iteration states."),
    technique="Coq proof over an extracted trace acceptor + real-analysis bound + exact-rational linear algebra of the "
              "quasi-Newton updates and of the conjugate-gradient direction, finite-termination theorems (induction over runs + "
              "a dimension bound by Gaussian elimination on lists), trace acceptance of the instrumented solvers, "
              "differential correspondence, direct oracle",
    design="DESIGN.md section 2, C01")

VARIANTS = ["rel"]

QHARNESS = "c01_quasi"
CGHARNESS = "c01_cgd"
FHARNESS = "c01_finite"


def _build_zdriver(name, modname):
    """the extracted model uses Zarith (ExtrOcamlZBigInt): private variant of vlib.build_ocaml (as C09/C14); the extracted
    module shadows Zarith's Z, which the driver reaches as ZZ"""
    odir = os.path.join(vlib.WORK, "ocaml")
    os.makedirs(odir, exist_ok=True)
    exe = os.path.join(odir, "%s_driver" % name)
    model = os.path.join(vlib.COQ, "extracted", "%s_model.ml" % name)
    driver = os.path.join(vlib.ROOT, "ocaml", "%s_driver.ml" % name)
    with vlib.Lock("ocaml-%s_driver" % name):
        srcs = [model, model + "i", driver]
        for s in srcs:
            if not os.path.exists(s):
                raise vlib.CheckError("missing %s (extraction failed?)" % s)
        if os.path.exists(exe) and all(os.path.getmtime(s) <= os.path.getmtime(exe) for s in srcs):
            return exe
        bd = os.path.join(odir, "%s_driver.build" % name)
        vlib.sh("rm -rf %s && mkdir -p %s" % (shlex.quote(bd), shlex.quote(bd)))
        for s in (model, model + "i"):
            vlib.sh("cp %s %s/" % (shlex.quote(s), shlex.quote(bd)))
        with open(os.path.join(bd, "driver_main.ml"), "w") as f:
            f.write("module ZZ = Z\nopen %s\n# 1 \"%s_driver.ml\"\n" % (modname, name))
            f.write(open(driver).read())
        cmd = "ocamlfind ocamlopt -O3 -w -a -package zarith -linkpkg %s_model.mli %s_model.ml driver_main.ml -o %s" % (
            name, name, shlex.quote(exe))
        rc, out = vlib.sh(cmd, cwd=bd, timeout=600)
        if rc != 0:
            raise vlib.CheckError("ocaml build of %s_driver failed:\n%s" % (name, out[-3000:]))
    return exe


def _build_qdriver():
    return _build_zdriver("c01q", "C01q_model")


def _build_cgdriver():
    return _build_zdriver("c01cg", "C01cg_model")


def _build_fdriver():
    return _build_zdriver("c01f", "C01f_model")


def setup():
    c02.setup()
    vlib.build_harness(QHARNESS, "rel")
    vlib.build_harness(CGHARNESS, "rel")
    vlib.build_harness(FHARNESS, "rel")
    for build in (_build_qdriver, _build_cgdriver, _build_fdriver):
        try:
            build()
        except vlib.CheckError:
            pass  # extraction not built yet: the stage builds it after coq_check


def _event(lines, rid, k):
    """the QRUN header and the k-th hook event of run rid (the replay of a quasi-Newton violation)"""
    hdr = [l for l in lines if l.startswith("QRUN %s " % rid)]
    ev = [l for l in lines if l.startswith(("QU %s %s " % (rid, k), "LD %s %s " % (rid, k)))]
    return [l[:400] for l in hdr[:1]] + [l[:40000] for l in ev[:1]]


def quasi_stage(tier):
    """stage 2: Coq development C01Q + correspondence of the hook events + the proved properties on the implementation"""
    r = vlib.Run("C01", tier)
    cres = vlib.coq_check("C01Q", targets=["theories/Extract_C01Q.vo", "theories/Properties_C01Q.vo"])
    exe = vlib.build_harness(QHARNESS, "rel")
    drv = None
    try:
        drv = _build_qdriver()
    except (vlib.CheckError, OSError):
        if cres["ok"]:
            raise
    rc, out = vlib.sh([exe, tier], timeout=3000, env={"VERIF_SEED": str(r.seed)})
    lines = [l for l in out.split("\n") if l]
    done = [l for l in lines if l.startswith("DONE ")]
    fails = [l for l in lines if l.startswith("FAIL ")]
    replay_cmd = "VERIF_SEED=%d %s %s" % (r.seed, exe, tier)
    if rc != 0 or not done:
        last = [l[:300] for l in lines if l.startswith("QRUN ")][-1:]
        r.violation("quasi-crash", {"kind": "implementation crashed / did not terminate (exit %s)" % rc, "last_run": last,
                                    "tail": [l[:400] for l in lines[-6:]], "replay_cmd": replay_cmd}, fingerprint="quasi-crash")
    for i, l in enumerate(fails[:3]):
        r.violation("quasi-impl-%d" % i, {"kind": "hook event layout / storage order check failed", "what": l[:1000],
                                          "replay_cmd": replay_cmd})
    stats = {}
    mism, pf = [], []
    if drv:
        feed = "\n".join(l for l in lines if l.startswith(("QRUN ", "QU ", "LD "))) + "\n"
        rc2, mout = vlib.sh([drv], input=feed, timeout=3000)
        for l in mout.split("\n"):
            if l.startswith("MISMATCH"):
                mism.append(l)
            elif l.startswith("PROPFAIL"):
                pf.append(l)
            elif l.startswith("MODEL-DONE"):
                stats = {k: int(v) for k, v in re.findall(r"(\w+)=(\d+)", l)}
        if rc2 != 0 or not stats.get("checked"):
            r.violation("quasi-driver", {"kind": "model driver failed", "out": mout[-2000:]}, no_input=True)

        def report(tag, kind, group):
            seen = set()
            for l in group:
                what = l.split(" ", 2)[1]
                if what in seen or len(seen) >= 3:
                    continue
                seen.add(what)
                m = re.search(r"RUN (\d+) EV (\d+)", l)
                rid, k = (m.group(1), m.group(2)) if m else ("?", "?")
                same = [x for x in group if x.split(" ", 2)[1] == what]
                r.violation("quasi-%s-%s" % (tag, what[:30]),
                            {"kind": kind, "what": l[:3000], "cases_of_this_kind": len(same), "event": _event(lines, rid, k),
                             "replay_cmd": "%s %s | %s" % (replay_cmd, rid, drv)})
        # a proved property that fails on the implementation's own numbers: concrete failing input
        report("prop", "a proved property of the quasi-Newton update / L-BFGS direction fails on the numbers the "
                       "implementation produced (exact arithmetic on the recorded doubles)", pf)
        # the exact model of the update this solver id applies disagrees with the recorded result beyond 1e-9 of the
        # running error bound: the implementation left the modelled (proved) algebra on this very input
        report("corr", "the implementation's H_after / two-loop result differs from the exact model beyond 1e-9 relative "
                       "to the running error bound of the summed terms", mism)
    vlib.handle_coq_failure(r, cres)
    return r, cres, stats, lines, mism, pf, fails


def _merge(r, cres, stats, lines, mism, pf, fails, rc1, t0):
    """fold stage 2 into evidence/C01.json written by stage 1"""
    path = os.path.join(vlib.OUTDIR, "evidence", "C01.json")
    try:
        ev = json.load(open(path))
    except (OSError, ValueError):
        ev = {"property_id": "C01", "tier": r.tier, "seed": r.seed, "level": "proof", "coverage": {}, "assumptions": [],
              "wall_s": 0, "violations": 0}
    cov = ev.setdefault("coverage", {})
    nk = len(cres.get("kernels", []))
    cov["obligations"] = cov.get("obligations", 0) + len(cres["theorems"]) + nk
    cov["discharged"] = cov.get("discharged", 0) + cres["discharged"] + (nk if not cres.get("translator_failed") else 0)
    cov["theorems"] = list(cov.get("theorems", [])) + list(cres["theorems"])
    cov["translated_kernels"] = list(cov.get("translated_kernels", [])) + list(cres.get("kernels", []))
    cov["checker_cmd"] = (cov.get("checker_cmd", "") + " ; make -C coq theories/Properties_C01Q.vo && coqc theories/Properties_C01Q.v "
                          "(Print Assumptions)").strip(" ;")
    tb = list(cov.get("trusted_base", []))
    for a in ["axiom: " + a for a in cres["axioms"]] + [
            "tools/translate.py (8 kernels of quasi.cpp / lbfgs.cpp: Fletcher's branch tests, the SR1 safeguard test, the "
            "L-BFGS history bound and loop indices)",
            "extraction of the quasi-Newton model: ExtrOcamlBasic + ExtrOcamlZBigInt, Z.ggcd mapped to Zarith's gcd "
            "(Qred of the canonical rationals)",
            "ocaml/c01q_driver.ml (exact double->Q conversion, running-error tolerance, exact LDL'), harness/c01_quasi.cpp",
            "NANO_VERIF hooks ev_quasi_update (quasi.cpp) and ev_lbfgs_direction (lbfgs.cpp) (add-only)"]:
        if a not in tb:
            tb.append(a)
    cov["trusted_base"] = tb
    cov["coq_files"] = sorted(set(list(cov.get("coq_files", [])) + list(cres.get("files", []))))
    if r.tier == "thorough" and cres.get("ok"):
        r.pid = "C01Q"
        try:
            vlib.coqchk_recheck(r)
        finally:
            r.pid = "C01"
        cov["coqchk_C01Q"] = r.coverage.pop("coqchk", None)
    solvers = collections.Counter()
    funcs = collections.Counter()
    dims = collections.Counter()
    for l in lines:
        if l.startswith("QRUN "):
            solvers[re.search(r"solver=(\S+)", l).group(1) + "/" + re.search(r"init=(\S+)", l).group(1)] += 1
            funcs[re.search(r"func=([^\[ ]+)", l).group(1)] += 1
            dims[re.search(r" n=(\d+)", l).group(1)] += 1
    q = {k: v for k, v in stats.items() if k not in ("checked", "mismatches", "propfails")}
    cov["quasi_updates_checked"] = stats.get("quasi_updates_checked", 0)
    cov["lbfgs_directions_checked"] = stats.get("lbfgs_directions_checked", 0)
    cov["quasi_model_stats"] = q
    cov["quasi_mismatches"] = len(mism)
    cov["quasi_property_failures"] = len(pf)
    cov["quasi_impl_direct_failures"] = len(fails)
    cov["quasi_solver_histogram"] = dict(solvers)
    cov["quasi_function_histogram"] = dict(funcs.most_common(40))
    cov["quasi_dims_histogram"] = dict(dims)
    cov["quasi_rule"] = ("bfgs/dfp/sr1/hoshino/fletcher x {identity, scaled} initialisation x (2 of 3 runs: quadratic class "
                         "s*Q*diag*Q' with kappa in {1, 1e3} u log-uniform, s in {1e-3, 1e3} u log-uniform; 1 of 3: a registered "
                         "smooth function) x n in {1,2,3,4,5,6,8,12,16} x epsilon x 1 of 4 a random lsearchk; sr1::r in {1e-8} u "
                         "[1e-12, 0.9]; lbfgs with history 1..30; the first 24 (thorough: 40; +24 for lbfgs with history > 6) hook events of every run; all from "
                         "VERIF_SEED. evaluations below = hook events recomputed by the model")
    cov["evaluations"] = cov.get("evaluations", 0) + stats.get("checked", 0)
    cov["quasi_samples"] = [l[:300] for l in lines if l.startswith(("QRUN 0 ", "QU 0 0 ", "QRUN 50 ", "LD 50 1 "))][:4]
    cov["unproved_clauses_searched"] = list(cov.get("unproved_clauses_searched", [])) + [
        "floating point: |implementation - exact update / two-loop result| <= 1e-9 * running error bound, entry by entry",
        "the stored pairs satisfy s'y > 0 (curvature condition of the line search; neither lbfgs.cpp nor quasi.cpp tests it): "
        "counted per run (updates_nonpositive_curvature, lbfgs_events_with_nonpositive_curvature_pair)",
        "H_before of every update is the initialisation, the previous H_after, or the identity after a restart; the L-BFGS "
        "history is the previous one plus the newest pair, truncated from the front at solver::lbfgs::history (or cleared)"]
    ev["assumptions"] = list(ev.get("assumptions", [])) + [
        "quasi-Newton stage: exact arithmetic (the theorems are over ordered fields; rounding is compared, not proved)",
        "non-finite hook events (division by a zero curvature) are skipped and counted"]
    ev["violations"] = ev.get("violations", 0) + len(r.violations)
    ev["wall_s"] = round(time.time() - t0, 2)
    json.dump(ev, open(path, "w"), indent=1, default=str)
    for fp, what in r.known_hits:
        print("KNOWN-FINDING: property=C01 %s" % what)
    for p, note in r.violations[:5]:
        print(("VIOLATION property=C01 replay=%s %s" % (p, note)).rstrip())
    return 1 if (rc1 or r.violations) else 0


def _cg_event(lines, rid, k):
    """the CRUN header and the k-th hook event of run rid (the replay of a conjugate-gradient violation)"""
    hdr = [l for l in lines if l.startswith("CRUN %s " % rid)]
    ev = [l for l in lines if l.startswith("CD %s %s " % (rid, k))]
    return [l[:400] for l in hdr[:1]] + [l[:20000] for l in ev[:1]]


def cgd_stage(tier):
    """stage 3: Coq development C01CG + correspondence of the ev_cgd_direction events + the proved properties on the
    implementation's own numbers"""
    r = vlib.Run("C01", tier)
    cres = vlib.coq_check("C01CG", targets=["theories/Extract_C01CG.vo", "theories/Properties_C01CG.vo"])
    exe = vlib.build_harness(CGHARNESS, "rel")
    drv = None
    try:
        drv = _build_cgdriver()
    except (vlib.CheckError, OSError):
        if cres["ok"]:
            raise
    rc, out = vlib.sh([exe, tier], timeout=3000, env={"VERIF_SEED": str(r.seed)})
    lines = [l for l in out.split("\n") if l]
    done = [l for l in lines if l.startswith("DONE ")]
    fails = [l for l in lines if l.startswith("FAIL ")]
    replay_cmd = "VERIF_SEED=%d %s %s" % (r.seed, exe, tier)
    if rc != 0 or not done:
        last = [l[:300] for l in lines if l.startswith("CRUN ")][-1:]
        r.violation("cgd-crash", {"kind": "implementation crashed / did not terminate (exit %s)" % rc, "last_run": last,
                                  "tail": [l[:400] for l in lines[-6:]], "replay_cmd": replay_cmd}, fingerprint="cgd-crash")
    for i, l in enumerate(fails[:3]):
        r.violation("cgd-impl-%d" % i, {"kind": "hook event layout check failed / solver id missing", "what": l[:1000],
                                        "replay_cmd": replay_cmd})
    stats = {}
    mism, pf = [], []
    if drv:
        feed = "\n".join(l for l in lines if l.startswith(("CRUN ", "CD "))) + "\n"
        rc2, mout = vlib.sh([drv], input=feed, timeout=3000)
        for l in mout.split("\n"):
            if l.startswith("MISMATCH"):
                mism.append(l)
            elif l.startswith("PROPFAIL"):
                pf.append(l)
            elif l.startswith("MODEL-DONE"):
                stats = {k: int(v) for k, v in re.findall(r"(\w+)=(\d+)", l)}
        if rc2 != 0 or not stats.get("checked"):
            r.violation("cgd-driver", {"kind": "model driver failed", "out": mout[-2000:]}, no_input=True)

        def report(tag, kind, group):
            seen = set()
            for l in group:
                what = l.split(" ", 2)[1]
                if what in seen or len(seen) >= 3:
                    continue
                seen.add(what)
                m = re.search(r"RUN (\d+) EV (\d+)", l)
                rid, k = (m.group(1), m.group(2)) if m else ("?", "?")
                same = [x for x in group if x.split(" ", 2)[1] == what]
                r.violation("cgd-%s-%s" % (tag, what[:30]),
                            {"kind": kind, "what": l[:3000], "cases_of_this_kind": len(same), "event": _cg_event(lines, rid, k),
                             "replay_cmd": "%s %s | grep -E '^(CRUN|CD) ' | %s" % (replay_cmd, rid, drv)})
        # a proved property of the direction that fails on the implementation's own numbers: concrete failing input
        report("prop", "a proved property of the conjugate-gradient direction (descent, restart => -g, no restart => gradients "
                       "nearly orthogonal, clamps, identities) fails on the numbers the implementation produced (exact "
                       "arithmetic on the recorded doubles)", pf)
        # the recorded beta / restart decision / direction / loop book-keeping leaves the modelled (proved) computation
        report("corr", "the implementation's beta / restart decision / direction / previous-state book-keeping differs from "
                       "the extracted model of cgd.cpp on this very input", mism)
    if not cres["ok"] and not r.violations:
        r.violation("cgd-proof", {"kind": "broken-proof-obligation", "obligation": cres["broken"],
                                  "log_tail": cres["log"][-3000:]}, no_input=True)
    return r, cres, stats, lines, mism, pf, fails


def _merge_cg(r, cres, stats, lines, mism, pf, fails, rc1, t0):
    """fold stage 3 into evidence/C01.json"""
    path = os.path.join(vlib.OUTDIR, "evidence", "C01.json")
    try:
        ev = json.load(open(path))
    except (OSError, ValueError):
        ev = {"property_id": "C01", "tier": r.tier, "seed": r.seed, "level": "proof", "coverage": {}, "assumptions": [],
              "wall_s": 0, "violations": 0}
    cov = ev.setdefault("coverage", {})
    nk = len(cres.get("kernels", []))
    cov["obligations"] = cov.get("obligations", 0) + len(cres["theorems"]) + nk
    cov["discharged"] = cov.get("discharged", 0) + cres["discharged"] + (nk if not cres.get("translator_failed") else 0)
    cov["theorems"] = list(cov.get("theorems", [])) + list(cres["theorems"])
    cov["translated_kernels"] = list(cov.get("translated_kernels", [])) + list(cres.get("kernels", []))
    cov["checker_cmd"] = (cov.get("checker_cmd", "") + " ; make -C coq theories/Properties_C01CG.vo && coqc theories/Properties_C01CG.v "
                          "(Print Assumptions)").strip(" ;")
    tb = list(cov.get("trusted_base", []))
    for a in ["axiom: " + a for a in cres["axioms"]] + [
            "tools/translate.py (35 kernels of cgd.cpp / state.h: the restart test, has_descent / dg, the first-iteration test, "
            "the two FRPR tests; the shape of every beta formula, clamp, the candidate direction, the formula each solver id "
            "returns)",
            "extraction of the conjugate-gradient model: ExtrOcamlBasic + ExtrOcamlZBigInt, Z.ggcd mapped to Zarith's gcd",
            "ocaml/c01cg_driver.ml (exact double->Q conversion, running-error tolerance, exactness test of binary64 inner "
            "products), harness/c01_cgd.cpp (scripted gradient oracle)",
            "NANO_VERIF hook ev_cgd_direction (cgd.cpp, /repo b097245, add-only)"]:
        if a not in tb:
            tb.append(a)
    cov["trusted_base"] = tb
    cov["coq_files"] = sorted(set(list(cov.get("coq_files", [])) + list(cres.get("files", []))))
    if r.tier == "thorough" and cres.get("ok"):
        r.pid = "C01CG"
        try:
            vlib.coqchk_recheck(r)
        finally:
            r.pid = "C01"
        cov["coqchk_C01CG"] = r.coverage.pop("coqchk", None)
    solvers = collections.Counter()
    funcs = collections.Counter()
    dims = collections.Counter()
    pairs = collections.Counter()
    for l in lines:
        if l.startswith("CRUN "):
            kind = re.search(r"kind=(\S+)", l).group(1)
            solvers[re.search(r"solver=(\S+)", l).group(1) + "/" + kind] += 1
            funcs[re.search(r"func=([^\[ ]+)", l).group(1)] += 1
            dims[re.search(r" n=(\d+)", l).group(1)] += 1
            pairs[re.search(r"ls0=(\S+)", l).group(1) + "+" + re.search(r"lsk=(\S+)", l).group(1)] += 1
    q = {k: v for k, v in stats.items() if k not in ("checked", "mismatches", "propfails")}
    cov["cgd_events_checked"] = stats.get("checked", 0)
    cov["cgd_model_stats"] = q
    cov["cgd_mismatches"] = len(mism)
    cov["cgd_property_failures"] = len(pf)
    cov["cgd_impl_direct_failures"] = len(fails)
    cov["cgd_solver_histogram"] = dict(solvers)
    cov["cgd_function_histogram"] = dict(funcs.most_common(40))
    cov["cgd_dims_histogram"] = dict(dims)
    cov["cgd_lsearch_histogram"] = dict(pairs)
    cov["cgd_rule"] = ("the ten cgd solvers x (natural: 2 of 3 the quadratic class s*Q*diag*Q', 1 of 3 a registered smooth function; "
                       "n in {1,..,32}; orthotest in {0.1} u log-uniform [1e-6,1e-1] u 1-log-uniform[1e-9,0.5] u uniform(0,1); "
                       "cgdN::eta in {0.01} u log-uniform [1e-6,1e5]; every second run a random lsearch0 x lsearchk pair; first 30 "
                       "(thorough: 60) events of a run) + (scripted: gradients of small integers -2..2 / -3..3 / -6..6, n = 1..4, "
                       "4..14 iterations, dyadic orthotest, eta in {2^-7, 64}, Armijo backtracking accepting every first trial: "
                       "all inner products exact in binary64); all from VERIF_SEED. evaluations below = hook events recomputed")
    cov["evaluations"] = cov.get("evaluations", 0) + stats.get("checked", 0)
    cov["cgd_samples"] = [l[:300] for l in lines if l.startswith(("CRUN 0 ", "CD 0 0 ", "CRUN 60 ", "CD 60 1 "))][:4]
    cov["unproved_clauses_searched"] = list(cov.get("unproved_clauses_searched", [])) + [
        "floating point: |recorded beta - exact beta of the solver's formula| and |recorded d - direction of the exact model| "
        "<= 1e-9 * running error bound; d = -g + beta * pd elementwise within 2 ulp of binary64 evaluation (bit-exact so far)",
        "the restart decision of the implementation equals the model's on every event whose compared quantities are outside "
        "the rounding band of the two thresholds (exactly compared, ties included, when every operation behind the decision "
        "is exact in binary64); events inside the band are counted (restart_ambiguous)",
        "previous g / previous d of every event are g / chosen d of the previous event; the first direction is -g"]
    ev["assumptions"] = list(ev.get("assumptions", [])) + [
        "conjugate-gradient stage: exact arithmetic (the theorems are over ordered fields; rounding is compared, not proved); "
        "the two Euclidean norms of the N formula are inputs of the model",
        "hook events with a non-finite beta (division by a zero inner product) are skipped and counted, except "
        "`restarted => d == -g`"]
    ev["violations"] = ev.get("violations", 0) + len(r.violations)
    ev["wall_s"] = round(time.time() - t0, 2)
    json.dump(ev, open(path, "w"), indent=1, default=str)
    for fp, what in r.known_hits:
        print("KNOWN-FINDING: property=C01 %s" % what)
    for p, note in r.violations[:5]:
        print(("VIOLATION property=C01 replay=%s %s" % (p, note)).rstrip())
    return 1 if (rc1 or r.violations) else 0


def _f_run_lines(lines, rid, cap=40):
    """the FRUN header, the done() records and the hook events of run rid (the replay of a finite-termination violation)"""
    hdr = [l for l in lines if l.startswith("FRUN %s " % rid)]
    fi = [l for l in lines if l.startswith(("FI %s " % rid, "FEND %s " % rid))]
    ev = [l for l in lines if l.startswith(("CD %s " % rid, "QU %s " % rid, "LD %s " % rid))]
    return [l[:2000] for l in hdr[:1]] + [l[:2000] for l in fi[:cap]] + [l[:6000] for l in ev[:cap]]


def finite_stage(tier):
    """stage 4 (C01F): Coq development on finite termination with exact line searches + the extracted exact-rational runs of
    the cgd / bfgs / lbfgs loops against the real solvers forced to (nearly) exact line searches on small-integer quadratics +
    the classical consequences (finite termination, orthogonal gradients, conjugate steps, hereditary secant equations)
    evaluated on the implementation's own numbers"""
    r = vlib.Run("C01", tier)
    cres = vlib.coq_check("C01F", targets=["theories/Extract_C01F.vo", "theories/Properties_C01F.vo"])
    exe = vlib.build_harness(FHARNESS, "rel")
    drv = None
    try:
        drv = _build_fdriver()
    except (vlib.CheckError, OSError):
        if cres["ok"]:
            raise
    t1 = time.time()
    rc, out = vlib.sh([exe, tier], timeout=3000, env={"VERIF_SEED": str(r.seed)})
    lines = [l for l in out.split("\n") if l]
    done = [l for l in lines if l.startswith("DONE ")]
    fails = [l for l in lines if l.startswith("FAIL ")]
    replay_cmd = "VERIF_SEED=%d %s %s" % (r.seed, exe, tier)
    if rc != 0 or not done:
        last = [l[:300] for l in lines if l.startswith("FRUN ")][-1:]
        r.violation("finite-crash", {"kind": "implementation crashed / did not terminate (exit %s)" % rc, "last_run": last,
                                     "tail": [l[:400] for l in lines[-6:]], "replay_cmd": replay_cmd}, fingerprint="finite-crash")
    # direct oracle of the harness (independent of any model): not converged / more than n + 2 iterations
    seen = set()
    for l in fails:
        t = l.split(" ", 3)
        rid, tag = (t[1], t[2]) if len(t) > 2 else ("?", "?")
        if tag in seen or len(seen) >= 3:
            continue
        seen.add(tag)
        same = [x for x in fails if x.split(" ", 3)[2:3] == [tag]]
        r.violation("finite-impl-%s" % tag[:30],
                    {"kind": "the real solver with (nearly) exact line searches on a strictly convex quadratic with small-integer "
                             "data did not return `converged` / did not reach |g_k|_2 <= 1e-10 |g_0|_2 within n + 2 iterations "
                             "(or the hook event layout check failed)",
                     "what": l[:1000], "cases_of_this_kind": len(same), "run": _f_run_lines(lines, rid),
                     "replay_cmd": "%s %s" % (replay_cmd, rid)})
    stats, hists, maxdev = {}, {}, {}
    tols = {}
    mism, pf = [], []
    if drv:
        feed = "\n".join(l for l in lines if l.startswith(("FRUN ", "FI ", "CD ", "QU ", "LD "))) + "\n"
        rc2, mout = vlib.sh([drv], input=feed, timeout=3000)
        for l in mout.split("\n"):
            if l.startswith("MISMATCH"):
                mism.append(l)
            elif l.startswith("PROPFAIL"):
                pf.append(l)
            elif l.startswith("HIST "):
                t = l.split(" ")
                if len(t) >= 4:
                    hists["%s_%s" % (t[1], t[2])] = {k: int(v) for k, v in re.findall(r"(-?\d+):(\d+)", t[3])}
            elif l.startswith(("MAXDEV ", "TOL ")):
                t = l.split(" ")
                try:
                    (maxdev if t[0] == "MAXDEV" else tols)[t[1]] = float(t[2])
                except (IndexError, ValueError):
                    pass
            elif l.startswith("MODEL-DONE"):
                stats = {k: int(v) for k, v in re.findall(r"(\w+)=(\d+)", l)}
        if rc2 != 0 or not stats.get("checked"):
            r.violation("finite-driver", {"kind": "model driver failed", "out": mout[-2000:]}, no_input=True)

        def report(tag, kind, group):
            seen = set()
            for l in group:
                what = l.split(" ", 2)[1]
                if what in seen or len(seen) >= 3:
                    continue
                seen.add(what)
                m = re.search(r"RUN (\d+) EV (-?\d+)", l)
                rid, k = (m.group(1), m.group(2)) if m else ("?", "?")
                same = [x for x in group if x.split(" ", 2)[1] == what]
                r.violation("finite-%s-%s" % (tag, what[:30]),
                            {"kind": kind, "what": l[:3000], "cases_of_this_kind": len(same), "event": k,
                             "run": _f_run_lines(lines, rid),
                             "replay_cmd": "%s %s | grep -E '^(FRUN|FI|CD|QU|LD) ' | %s" % (replay_cmd, rid, drv)})
        # a classical consequence of exact line searches on a quadratic fails on the implementation's own numbers
        report("prop", "a consequence of exact line searches on a strictly convex quadratic (termination within n + 2 iterations, "
                       "mutually orthogonal gradients, A-conjugate steps, gradient orthogonal to the earlier steps, decreasing f, "
                       "hereditary secant equations of BFGS, L-BFGS direction = conjugate-gradient direction) fails on the numbers "
                       "the implementation produced (exact arithmetic on the recorded doubles, no model function)", pf)
        # the real run leaves the exact-rational run of the extracted model of the same loop
        report("corr", "the iterates / directions / inverse-Hessian approximations of the real solver differ from the exact-"
                       "rational run of the extracted model (the solver's own direction block + exact line-search step) beyond "
                       "the calibrated tolerance, or the model does not terminate within n iterations", mism)
    vlib.handle_coq_failure(r, cres)
    maxdev["__tolerances__"] = tols
    return r, cres, stats, lines, mism, pf, fails, hists, maxdev, round(time.time() - t1, 2)


def _merge_f(r, cres, stats, lines, mism, pf, fails, hists, maxdev, tie_s, rc1, t0):
    """fold stage 4 (C01F) into evidence/C01.json"""
    path = os.path.join(vlib.OUTDIR, "evidence", "C01.json")
    try:
        ev = json.load(open(path))
    except (OSError, ValueError):
        ev = {"property_id": "C01", "tier": r.tier, "seed": r.seed, "level": "proof", "coverage": {}, "assumptions": [],
              "wall_s": 0, "violations": 0}
    cov = ev.setdefault("coverage", {})
    nk = len(cres.get("kernels", []))
    cov["obligations"] = cov.get("obligations", 0) + len(cres["theorems"]) + nk
    cov["discharged"] = cov.get("discharged", 0) + cres["discharged"] + (nk if not cres.get("translator_failed") else 0)
    cov["theorems"] = list(cov.get("theorems", [])) + list(cres["theorems"])
    cov["translated_kernels"] = list(cov.get("translated_kernels", [])) + list(cres.get("kernels", []))
    cov["checker_cmd"] = (cov.get("checker_cmd", "") + " ; make -C coq theories/Properties_C01F.vo && coqc theories/Properties_C01F.v "
                          "(Print Assumptions)").strip(" ;")
    tb = list(cov.get("trusted_base", []))
    for a in ["axiom: " + a for a in cres["axioms"]] + [
            "tools/translate.py (4 kernels of quasi.cpp / lbfgs.cpp: the quasi-Newton restart test, the scaled-initialisation "
            "test, L-BFGS's forced -g and store / clear tests)",
            "extraction of the finite-termination model: ExtrOcamlBasic + ExtrOcamlZBigInt, Z.ggcd mapped to Zarith's gcd",
            "ocaml/c01f_driver.ml (exact double->Q conversion; the instance is rebuilt from the integers of the FRUN line; the "
            "Euclidean norms read by cgd-n are a float square root converted exactly), harness/c01_finite.cpp (integer quadratics "
            "evaluated with scalar loops; line search forced to More-Thuente with tolerance (1e-12, 1e-9))",
            "NANO_VERIF hook ev_solver_done (solver.cpp; object = the solver state) in addition to the hooks of stages 2 and 3"]:
        if a not in tb:
            tb.append(a)
    cov["trusted_base"] = tb
    cov["coq_files"] = sorted(set(list(cov.get("coq_files", [])) + list(cres.get("files", []))))
    if r.tier == "thorough" and cres.get("ok"):
        r.pid = "C01F"
        try:
            vlib.coqchk_recheck(r)
        finally:
            r.pid = "C01"
        cov["coqchk_C01F"] = r.coverage.pop("coqchk", None)
    solvers = collections.Counter()
    fams = collections.Counter()
    dims = collections.Counter()
    ls0s = collections.Counter()
    iters = collections.Counter()
    instances = set()
    for l in lines:
        if l.startswith("FRUN "):
            hd = l.split(" | ", 1)
            sid = re.search(r"solver=(\S+)", l).group(1)
            init = re.search(r"init=(\S+)", l).group(1)
            hist = re.search(r"history=(\S+)", l).group(1)
            solvers[sid + ("/" + init if init != "-" else "") + ("/h=" + hist if hist != "-" else "")] += 1
            fams[re.search(r"fam=(\S+)", l).group(1)] += 1
            dims[re.search(r" n=(\d+)", l).group(1)] += 1
            ls0s[re.search(r"ls0=(\S+)", l).group(1) + "+" + re.search(r"lsk=(\S+)", l).group(1)] += 1
            if len(hd) > 1 and int(re.search(r" n=(\d+)", l).group(1)) > 1:
                instances.add(hd[1])
        elif l.startswith("FEND "):
            iters[re.search(r"iters=(\d+)", l).group(1)] += 1
    q = {k: v for k, v in stats.items() if k not in ("checked", "mismatches", "propfails", "events")}
    cov["finite_runs_checked"] = stats.get("checked", 0)
    cov["finite_hook_events_compared"] = stats.get("events", 0)
    cov["finite_states_compared"] = stats.get("states_compared", 0)
    cov["finite_distinct_instances_n_ge_2"] = len(instances)
    cov["finite_model_stats"] = q
    cov["finite_mismatches"] = max(len(mism), stats.get("mismatches", 0))
    cov["finite_property_failures"] = max(len(pf), stats.get("propfails", 0))
    cov["finite_impl_direct_failures"] = len(fails)
    cov["finite_solver_histogram"] = dict(solvers)
    cov["finite_family_histogram"] = dict(fams)
    cov["finite_dims_histogram"] = dict(dims)
    cov["finite_lsearch_histogram"] = dict(ls0s)
    cov["finite_iterations_histogram"] = dict(iters)
    for name, h in sorted(hists.items()):
        cov["finite_hist_" + name] = {str(k): v for k, v in h.items()}
    maxdev = dict(maxdev)
    cov["finite_tolerances"] = maxdev.pop("__tolerances__", {})
    cov["finite_max_deviation"] = dict(sorted(maxdev.items()))
    cov["finite_tie_seconds"] = tie_s
    cov["finite_rule"] = ("f(x) = x'Ax/2 + a'x with small-integer data: n in 1..6 (thorough: 1..8); A symmetric strictly diagonally dominant "
                          "with off-diagonal entries in {-1,0,1} (2 of 4 runs) or {-2..2} (1 of 4) and diagonal = row sum of |.| + (1..4), "
                          "or A = c I + u u' with c in 1..4, u in {-2..2}^n (1 of 4: two distinct eigenvalues); a in {-5..5}^n, x0 in "
                          "{-10..10}^n; solvers: the ten cgd ids (orthotest 0.1 in half of the runs, else 0.01 / 0.5 / 0.9 / 0.001; "
                          "cgdN::eta default), bfgs x {identity, scaled} (double weight), lbfgs with history 1, 2, 3, 20; lsearchk = "
                          "morethuente with solver::tolerance = (1e-12, 1e-9) (cgdescent / lemarechal / backtrack accept overshooting "
                          "steps and fletcher fails line searches at this tolerance: excluded after measurement, see the harness header), "
                          "lsearch0 in {quadratic, constant, cgdescent, linear}, solver::epsilon = 1e-10, max_evals = 2000; 16 (thorough: "
                          "160) runs per solver configuration; all from VERIF_SEED. evaluations below = runs + hook events compared")
    cov["evaluations"] = cov.get("evaluations", 0) + stats.get("checked", 0) + stats.get("events", 0)
    # samples: the first run, and the first bfgs / lbfgs runs with n >= 3 (header, one state / hook event, end)
    picks = ["0"]
    for sid in ("bfgs", "lbfgs"):
        m = [re.match(r"FRUN (\d+) ", l).group(1) for l in lines
             if l.startswith("FRUN ") and (" solver=%s " % sid) in l and int(re.search(r" n=(\d+)", l).group(1)) >= 3]
        picks += m[:1]
    cov["finite_samples"] = [l[:400] for l in lines
                             if l.startswith(tuple(p % rid for rid in picks for p in ("FRUN %s ", "FI %s 1 ", "QU %s 0 ", "LD %s 1 ", "FEND %s ")))][:12]
    cov["unproved_clauses_searched"] = list(cov.get("unproved_clauses_searched", [])) + [
        "finite termination of the REAL solvers (floating point, More-Thuente line search at tolerance (1e-12, 1e-9) instead of an "
        "exact one): `converged` and |g_k|_2 <= 1e-10 |g_0|_2 within n + 2 iterations on every generated instance (observed: "
        "always within n, and at exactly the iteration K at which the exact-rational model reaches g_K = 0)",
        "the iterates, gradients, function values, directions (CD / LD events), steps and inverse-Hessian approximations (QU events) "
        "of the real runs agree with the exact-rational run of the extracted model within 1e-8 (measured maxima ~2e-11), i.e. "
        "the deviation caused by the inexact line search and rounding stays at the level of the line-search tolerance",
        "on the implementation's own numbers, for indices with |g_k|_2 > 1e-7 |g_0|_2: gradients mutually orthogonal, steps "
        "mutually A-conjugate, g_j orthogonal to the earlier steps (cosines <= 1e-4; measured maxima ~7e-7), f decreasing, "
        "BFGS hereditary secant equations H_{k+1} dg_j = dx_j for j <= k (1e-6; measured ~2e-9), L-BFGS direction conjugate to "
        "the previous step and a descent direction; the L-BFGS history at every iteration is bitwise the newest h pairs "
        "(x_{i+1} - x_i, g_{i+1} - g_i), oldest first",
        "the exact model terminates: a zero gradient at some K <= n (checked exactly on every instance; this is the statement "
        "of the stage's theorems, re-checked here on the extracted code)"]
    ev["assumptions"] = list(ev.get("assumptions", [])) + [
        "finite-termination stage: exact arithmetic and exact line searches in the theorems; the real solvers are run with the "
        "tightest line-search setting that never fails on the instance class (More-Thuente, c2 = 1e-9) and compared within "
        "calibrated tolerances; nothing is claimed for the other lsearchk ids (they do not produce exact steps)",
        "finite-termination stage: well-conditioned small-integer quadratics only (diagonally dominant / identity plus rank one), "
        "n <= 8"]
    ev["violations"] = ev.get("violations", 0) + len(r.violations)
    ev["wall_s"] = round(time.time() - t0, 2)
    json.dump(ev, open(path, "w"), indent=1, default=str)
    for fp, what in r.known_hits:
        print("KNOWN-FINDING: property=C01 %s" % what)
    for p, note in r.violations[:5]:
        print(("VIOLATION property=C01 replay=%s %s" % (p, note)).rstrip())
    return 1 if (rc1 or r.violations) else 0


def run(tier, replay=None):
    t0 = time.time()
    rc1 = c02.run_shared(
        "C01", "c01", tier,
        ["Coq standard-library reals (classical axioms) for the error bound"],
        ["L-BFGS / BFGS return `converged` after at most 1500 function+gradient evaluations on every quadratic of the class "
         "(kappa <= 1e3, n <= 16, scale in [1e-3,1e3], |x0|_inf <= 10) at epsilon = 1e-8: searched on random members incl. the "
         "boundary values of kappa and scale; no theorem (floating-point convergence rate of lbfgs.cpp/quasi.cpp)",
         "the error bound on the implementation's returned point (the theorem is over R; rounding of the gradient evaluation is "
         "not modelled): measured against the known minimiser",
         "that every line-search solver body produces an accepted trace (checked on every run, not proved about the C++)",
         "the criterion at the returned point recomputed by a fresh evaluation of the user function (recording wrapper)"],
        ["NDEBUG build: assertions compiled out as in the library build",
         "snapshots whose gradient contains a NaN are excluded from the bit-exact recomputation of the flag "
         "(Eigen's lpNorm<Infinity> is unspecified there)",
         "generated quadratics evaluate with plain scalar loops (bit-reproducible); registered functions use Eigen"])
    try:
        res = quasi_stage(tier)
    except vlib.CheckError as ex:
        # the quasi-Newton machinery could not be rebuilt against the working tree: the tie is broken
        r = vlib.Run("C01", tier)
        r.violation("quasi-build", {"kind": "build-failure", "detail": str(ex)[-4000:]}, no_input=True)
        res = (r, {"theorems": [], "discharged": 0, "axioms": [], "kernels": [], "ok": False}, {}, [], [], [], [])
    rc2 = _merge(*res, rc1, t0)
    try:
        res3 = cgd_stage(tier)
    except vlib.CheckError as ex:
        # the conjugate-gradient machinery could not be rebuilt against the working tree: the tie is broken
        r = vlib.Run("C01", tier)
        r.violation("cgd-build", {"kind": "build-failure", "detail": str(ex)[-4000:]}, no_input=True)
        res3 = (r, {"theorems": [], "discharged": 0, "axioms": [], "kernels": [], "ok": False}, {}, [], [], [], [])
    rc3 = _merge_cg(*res3, rc2, t0)
    try:
        res4 = finite_stage(tier)
    except vlib.CheckError as ex:
        # the finite-termination machinery could not be rebuilt against the working tree: the tie is broken
        r = vlib.Run("C01", tier)
        r.violation("finite-build", {"kind": "build-failure", "detail": str(ex)[-4000:]}, no_input=True)
        res4 = (r, {"theorems": [], "discharged": 0, "axioms": [], "kernels": [], "ok": False}, {}, [], [], [], [], {}, {}, 0.0)
    return _merge_f(*res4, rc3, t0)
