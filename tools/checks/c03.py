"""C03 -- bundle / ellipsoid solvers: reported convergence certifies eps-optimality
(proof over Q + translated decisions + differential correspondence on real bundle_t objects and on mirrored RQB/FPBA
loops + the property's own oracle on the real solvers)."""
import collections
import json
import os
import re
import shlex
import vlib


MANIFEST = dict(
    text=("Coq theorems over exact rationals about an executable model of bundle_t (src/solver/bundle.cpp): the cutting "
          "plane model stays a global lower bound of a convex objective through every history of solve / serious step "
          "(re-centring formula) / null step / inactive-row deletion / aggregation + deletion of any set of rows; the "
          "stopping test of the curve search (smeared error <= t, |smeared sub-gradient| <= t) certifies "
          "f(x) - f(z) <= t + t|x - z| for all z; under sharpness RQB/FPBA's `converged` gives f_ret - f* <= 2 eps sqrt(n) "
          "(1 + |x_ret - x*|); the two-row closed form of solve() is the simplex minimiser; the 1-D ellipsoid loop (any "
          "budget) returns within 10 eps when it reports converged; the n-D ellipsoid certificate f(c) - f* <= sqrt(g'Hg). "
          "Extension LOOP: csearch_t::search as written (trial loop, tL/tR bracket, interpolation / extrapolation, the m1..m4 tests, "
          "budget guard, every assigned status and the reset to max_iters of repo 31bf93f), proximity_t and the Nesterov sequences, and the "
          "outer loops of RQB / FPBA are in the model over an ARBITRARY oracle (QP, function, bundle operations): theorems for every "
          "history -- termination and evaluation overshoot (< 1 evaluation for RQB, < 2 for FPBA beyond max_evals), status soundness "
          "(an assigned status is the verdict of the tests on the last trial; a budget exit hands over max_iters and leaves state, bundle "
          "and miu untouched; the pre-repair stale-status behaviour is a refuted statement with its witness history), RQB monotonicity "
          "under the m1 test, FPBA = best seen, the bracket invariant (new trial strictly inside), miu0 in its range / miu positive (range "
          "not kept: refuted), lambda >= 1 and momentum coefficients in [0,1). The real csearch_t / proximity_t / nesterov objects of the "
          "mirrored loops are observed at every evaluation and replayed by the extracted model. "
          "Extension WHOLE: ONE composed model of a whole RQB / FPBA run (the abstract oracles instantiated with the bundle operations, a "
          "first-order oracle of a convex objective, proximal / delta / smeared_e/s / econverged / sconverged, proximity_t and the Nesterov "
          "sequence; remaining oracles: QP answer, rows surviving delete_largest, the function, the square root): for every convex objective, "
          "every QP answer in the simplex, every deletion answer, every parameter set and budget the bundle invariant holds throughout, no "
          "bundle operation is ever rejected (solve precedes every append), RQB's centre value never increases (delta >= 0 derived, not "
          "assumed), and `converged` certifies f(centre) - f(z) <= tol + tol|centre - z| for all z, hence the property's first clause for the "
          "returned point (RQB: the centre; FPBA: the best evaluated point, f(x_ret) <= f(centre)) as ONE theorem per solver; under keep_ok "
          "the capacity is never reached, and keep_ok cannot be dropped (witness). Stage WHOLE: the extracted composed model replays complete "
          "mirrored runs from their recorded oracle answers and must reproduce exit, status, iterations, evaluations, state value, centre, "
          "returned point and all serious-step centres exactly. "
          "The integer / boolean decisions (aggregation trigger, capacities, csearch convergence, status hand-over, "
          "solver_t::done) are regenerated from the source on every run. The extracted model replays every operation of "
          "random op sequences on real bundle_t objects and of RQB/FPBA loops mirrored on the public classes (which must "
          "reproduce the real solvers bit for bit); the real solvers are searched with the property's inequalities against "
          "analytically known minimisers. The n-D deep-cut update and `ellipsoid always converges for n <= 6` are "
          "searched, not proved."),
    note=("Coq kernel (no axioms); translator (47 kernels, 23 of them the control flow of csearch.cpp / rqb.cpp / fpba.cpp: float comparisons are "
          "atomised into named booleans, so a changed operand breaks the anchor); stage LOOP observes the operands of the curve-search tests "
          "from the real bundle inside the function-evaluation callback (private members of csearch_t / proximity_t / nesterov_sequence_t "
          "through `#define private public`), gy.(y-x) and s.(y-x) are recomputed by the harness; the outer loops are the harness' mirror "
          "(bit-identical to the real solvers on every run); the square root of the Nesterov update is a witness checked to 1e-15; "
          "extraction with ExtrOcamlZBigInt (Zarith); harness against the "
          "library built from the working tree (private members of bundle_t read through `#define private public`); "
          "float rounding is outside the theorems (compared within 1e-9 of the summed terms); the QP solver and "
          "nth_element are oracles of the model (their answers are taken from the run and checked: simplex, subsequence). "
          "WHOLE: the theorems need max_size >= 3 (with 2 the aggregate would use the closed-form multipliers, which are not clean) and the "
          "oracle conditions qp_ok / ev_ok (keep_ok for the capacity clause only); the replay runs on Qplus / Qmult extracted to their "
          "lowest-terms versions (compared through Qeq_bool = cross-multiplication); every recorded run is also replayed pass by pass, decisions are compared one by one and only those within 1e-9 of the summed magnitudes of their terms follow the library (counted in the evidence), everything else is a reported mismatch."),
    technique="Coq proof over Q of a translated+extracted model, differential correspondence per operation, "
              "mirrored solver loops, direct property oracle on the real solvers",
    design="DESIGN.md section 2, C03")

VARIANTS = ["rel"]

# the genuine defect of the unchanged tree (see notes/C03.md): delete_largest reads its threshold at index `count`
FP_DELETE_LARGEST = "bundle_t::delete_largest threshold index (size reaches capacity, heap overflow)"
# second genuine defect (known finding): a far curve-search trial point (|f| ~ 2^56) rounds the null-step linearisation error by
# ulp(f) >> tolerance; the harness prints such certificate / converged-not-optimal failures as KFAIL (narrow rule, see the harness)
FP_FAR_TRIAL = "C03-false-convergence-by-cancellation-at-far-trial-point"
DRIVER_PREFIXES = ("B ", "E1 ", "D ", "CS ", "ELL ", "LI ", "PX ", "PX0 ", "NS ", "W ")


def _build_driver():
    """the extracted model uses Zarith (ExtrOcamlZBigInt): private variant of vlib.build_ocaml without zutil.ml.inc"""
    odir = os.path.join(vlib.WORK, "ocaml")
    os.makedirs(odir, exist_ok=True)
    exe = os.path.join(odir, "c03_driver")
    model = os.path.join(vlib.COQ, "extracted", "c03_model.ml")
    driver = os.path.join(vlib.ROOT, "ocaml", "c03_driver.ml")
    with vlib.Lock("ocaml-c03_driver"):
        model_e = os.path.join(vlib.COQ, "extracted", "c03e_model.ml")
        srcs = [model, model + "i", model_e, model_e + "i", driver]
        for s in srcs:
            if not os.path.exists(s):
                raise vlib.CheckError("missing %s (extraction failed?)" % s)
        if os.path.exists(exe) and all(os.path.getmtime(s) <= os.path.getmtime(exe) for s in srcs):
            return exe
        bd = os.path.join(odir, "c03_driver.build")
        vlib.sh("rm -rf %s && mkdir -p %s" % (shlex.quote(bd), shlex.quote(bd)))
        for s in (model, model + "i", model_e, model_e + "i"):
            vlib.sh("cp %s %s/" % (shlex.quote(s), shlex.quote(bd)))
        with open(os.path.join(bd, "driver_main.ml"), "w") as f:
            f.write("open C03_model\n# 1 \"c03_driver.ml\"\n")
            f.write(open(driver).read())
        cmd = "ocamlfind ocamlopt -O3 -w -a -package zarith,unix -linkpkg c03_model.mli c03_model.ml c03e_model.mli c03e_model.ml driver_main.ml -o %s" % shlex.quote(exe)
        rc, out = vlib.sh(cmd.replace("-O3 ", ""), cwd=bd, timeout=600)
        if rc != 0:
            raise vlib.CheckError("ocaml build of c03_driver failed:\n%s" % out[-3000:])
    return exe


def setup():
    vlib.build_harness("c03_bundle", "rel", need_lib=True)
    try:
        _build_driver()
    except vlib.CheckError:
        pass  # extraction not built yet: run() builds it after coq_check


def _small_bundles_safe():
    """bundle sizes 2..4 are drawn only when delete_largest reads its threshold at the nth_element position
    (the unchanged tree reads index `count`: with max_size 3 or 4 every run then writes behind the buffers)"""
    try:
        src = open(os.path.join(vlib.REPO, "src", "solver", "bundle.cpp")).read()
    except OSError:
        return False
    m = re.search(r"thres = m_alphas\((.*?)\) - epsilon0", src)
    return bool(m) and "size()" in m.group(1)


def _kv(line):
    out = {}
    for tok in line.split():
        if "=" in tok:
            k, v = tok.split("=", 1)
            out[k] = v
    return out


def _replay_cmd(exe, cid, small):
    return "%s replay %s %s%s" % (exe, cid[0], cid[1:], " small" if small else "")


def _replay(path):
    d = json.load(open(path))
    cmd = d.get("replay_cmd")
    if not cmd:
        print("nothing to replay in %s" % path)
        return 0
    exe = vlib.build_harness("c03_bundle", "rel", need_lib=True)
    cmd = re.sub(r"^\S+", exe, cmd)
    rc, out = vlib.sh(cmd, timeout=3000)
    drv = _build_driver()
    rc2, mout = vlib.sh([drv], input="\n".join(l for l in out.split("\n") if l.startswith(DRIVER_PREFIXES)) + "\n", timeout=3000)
    bad = [l for l in out.split("\n") if l.startswith(("FAIL ", "MIRROR-DIFF"))] + [l for l in mout.split("\n") if l.startswith(("MISMATCH", "PROPFAIL"))]
    known = [l for l in out.split("\n") if l.startswith("KFAIL ")]
    if known and not bad:
        print("replay: only the known finding %s:\n%s" % (FP_FAR_TRIAL, "\n".join(l[:600] for l in known[:3])))
    if rc != 0:
        bad.append("harness exit %d: %s" % (rc, out[-400:]))
    print("\n".join(l[:600] for l in bad[:10]) or "replay: no failure")
    if bad:
        print("VIOLATION property=C03 replay=%s" % path)
    return 1 if bad else 0


def run(tier, replay=None):
    if replay:
        return _replay(replay)
    r = vlib.Run("C03", tier)
    cres = vlib.coq_check("C03", targets=["theories/Extract_C03.vo", "theories/Properties_C03.vo"])
    exe = vlib.build_harness("c03_bundle", "rel", need_lib=True)
    small = _small_bundles_safe()
    args = [exe, tier] + (["small"] if small else [])
    rc, out = vlib.sh(args, timeout=3300, env={"VERIF_SEED": str(r.seed)})
    lines = [l for l in out.split("\n") if l]
    done = [l for l in lines if l.startswith("DONE ")]
    impl_fail = [l for l in lines if l.startswith("FAIL ")]
    kfail = [l for l in lines if l.startswith("KFAIL ")]
    mirror_diff = [l for l in lines if l.startswith("MIRROR-DIFF")]
    hbug = [l for l in lines if l.startswith("HARNESS-BUG")]
    guards = [l for l in lines if " GUARD " in l and l.startswith("B ")]
    skips = [l for l in lines if l.startswith("SKIP ")]
    ops = collections.Counter((l.split(" ", 3)[2] if l.startswith("B ") and l.count(" ") >= 2 else l.split(" ", 1)[0]) for l in lines)
    if rc != 0 or not done:
        starts = [l for l in lines if l.startswith("START ")]
        last = starts[-1].split()[1] if starts else None
        r.violation("crash", {"kind": "implementation crash (signal / exception) in a solver run or bundle operation",
                              "exit": rc, "mode": tier, "last_case": starts[-1] if starts else None,
                              "last_lines": [l[:300] for l in lines[-4:]],
                              "replay_cmd": _replay_cmd(exe, last, small) if last else "VERIF_SEED=%d %s" % (r.seed, " ".join(args))},
                    fingerprint="crash")
    # known finding C03-delete-largest-leaves-bundle-full: directed probe (bundle::max_size 3 and 4) + every guard hit of the run
    prc, pout = vlib.sh([exe, "probe-small"], timeout=600, env={"VERIF_SEED": str(r.seed)})
    plines = [l for l in pout.split("\n") if l]
    pguards = [l for l in plines if " GUARD " in l and l.startswith("B ")]
    pdone = [l for l in plines if l.startswith("PROBE-SMALL ")]
    if prc != 0 or not pdone:
        r.violation("probe-crash", {"kind": "the small-bundle probe crashed (bundle::max_size in {3,4})", "exit": prc,
                                    "tail": [l[:300] for l in plines[-5:]], "replay_cmd": "%s probe-small" % exe}, fingerprint="crash")
    for l in (pguards + guards)[:1]:
        cid = l.split()[1]
        skip = [x for x in plines + skips if x.startswith("SKIP " + cid)]
        r.violation("bundle-full", {"kind": "after delete_largest(2) fewer than 2 rows were removed: size() == capacity(), the next append "
                                            "writes behind m_bundleS/m_bundleE/m_alphas (detected on a copy of the bundle; the operation is not applied)",
                                    "case": l[:600], "configuration": skip[0][:600] if skip else None,
                                    "replay_cmd": "%s probe-small" % exe if l in pguards else _replay_cmd(exe, cid, small)},
                    fingerprint="C03-delete-largest-leaves-bundle-full")
    impl_fail += [l for l in plines if l.startswith("FAIL ")]
    # known finding C03-false-convergence-by-cancellation-at-far-trial-point: directed probe (the case id determines the run) + every
    # KFAIL of the run (one violation per run id; KFAIL is printed only under the narrow rule ulp(max|f|) * 4 >= eps sqrt(n))
    frc, fout = vlib.sh([exe, "probe-far"], timeout=600, env={"VERIF_SEED": str(r.seed)})
    flines = [l for l in fout.split("\n") if l]
    fdone = [l for l in flines if l.startswith("PROBE-FAR ")]
    if frc != 0 or not fdone:
        r.violation("probe-far-crash", {"kind": "the far-trial-point probe crashed", "exit": frc, "tail": [l[:300] for l in flines[-5:]],
                                        "replay_cmd": "%s probe-far" % exe}, fingerprint="crash")
    impl_fail += [l for l in flines if l.startswith("FAIL ")]
    kfail_probe = [l for l in flines if l.startswith("KFAIL ")]
    seen_k = set()
    for l in kfail_probe + kfail:
        cid = l.split()[1]
        if cid in seen_k:
            continue
        seen_k.add(cid)
        r.violation("far-trial-point-%d" % len(seen_k),
                    {"kind": "a certificate / converged-not-optimal failure in a run whose largest evaluated |f| has ulp * 4 >= eps*sqrt(n): "
                             "the null-step linearisation error is rounded by more than the tolerance being certified",
                     "case": l[:1500], "all_lines_of_the_run": [x[:600] for x in kfail_probe + kfail if x.split()[1] == cid][:4],
                     "replay_cmd": _replay_cmd(exe, cid, small and l in kfail)}, fingerprint=FP_FAR_TRIAL)
    for l in hbug[:1]:
        r.violation("harness", {"kind": "harness self-check failed (objective not sharp)", "case": l}, no_input=True)
    seen_f, first_f = set(), []
    for l in impl_fail:   # at most one replay per (case, clause)
        key = tuple(l.split()[1:3])
        if key not in seen_f:
            seen_f.add(key)
            first_f.append(l)
    for i, l in enumerate(first_f[:3]):
        cid = l.split()[1]
        r.violation("impl-%d" % i, {"kind": "direct property check failed on the implementation", "clause": l.split()[2], "case": l[:1500],
                                    "replay_cmd": _replay_cmd(exe, cid, small)})
    for i, l in enumerate(mirror_diff[:2]):
        cid = l.split()[1]
        r.violation("mirror-%d" % i, {"kind": "the real solver and the RQB/FPBA loop mirrored on bundle_t/csearch_t/proximity_t differ "
                                              "(the per-operation correspondence no longer covers what the solver does)", "case": l[:1500],
                                      "replay_cmd": _replay_cmd(exe, cid, small)},
                    no_input=not any(cid in f for f in impl_fail))
    # correspondence with the extracted model
    mism, checked, mdone = [], 0, ""
    drv = None
    try:
        drv = _build_driver()
    except (vlib.CheckError, OSError):
        if cres["ok"]:
            raise
    if drv:
        rc2, mout = vlib.sh([drv], input="\n".join(l for l in lines if l.startswith(DRIVER_PREFIXES)) + "\n", timeout=3300)
        for l in mout.split("\n"):
            if l.startswith(("MISMATCH", "PROPFAIL")):
                mism.append(l)
            elif l.startswith("MODEL-DONE"):
                mdone = l
                checked = int(l.split("checked=")[1].split()[0])
        if rc2 != 0 or not checked:
            r.violation("driver", {"kind": "model driver failed", "out": mout[-2000:]}, no_input=True)
        seen_ids, first = set(), []
        for l in mism:   # at most one replay per case
            cid = (l.split() + ["", "", ""])[2]
            if cid not in seen_ids:
                seen_ids.add(cid)
                first.append(l)
        for i, l in enumerate(first[:3]):
            toks = l.split()
            cid = toks[2] if len(toks) > 2 else ""
            ok_id = bool(re.match(r"^[SMREL]\d+$", cid))
            # a disagreement on the linearisation errors / rows / stopping decisions is a concrete operation on which the
            # implementation leaves the behaviour the theorems are about
            pf = l.startswith("PROPFAIL")
            r.violation("corr-%d" % i, {"kind": "the minimiser left the ellipsoid of the real solver (direct oracle, exact arithmetic on the recorded doubles)"
                                                if pf else "model/implementation disagreement", "case": l[:1500],
                                        "meaning": ("the invariant of C03_ellipsoid_nd_invariant fails on the implementation's own numbers at this iteration" if pf else
                                                    "the bundle operation / stopping decision / ellipsoid step of the library differs from the proved model on this input"),
                                        "replay_cmd": _replay_cmd(exe, cid, small) if ok_id else None},
                        no_input=not ok_id)
    vlib.handle_coq_failure(r, cres)
    vlib.proof_coverage(r, cres, "make -C coq theories/Properties_C03.vo && coqc theories/Properties_C03.v (Print Assumptions)",
                        ["tools/translate.py (47 kernels of bundle.cpp/csearch.cpp/rqb.cpp/fpba.cpp/ellipsoid.cpp/solver.cpp)",
                         "extraction: ExtrOcamlBasic + ExtrOcamlZBigInt (Z, positive -> Zarith)",
                         "ocaml/c03_driver.ml, harness/c03_bundle.cpp (reads bundle_t's private members), g++ -O2",
                         "the harness' mirrored RQB/FPBA loops (checked bit-for-bit against the real solvers on every run)",
                         "stage LOOP: the evaluation callback that reads t / miu / the operands of the m1..m4 tests from the real csearch_t, bundle_t and "
                         "proximity_t objects; decisions within 1e-12 (relative) of their threshold are not compared (loop_ambiguous_calls)",
                         "stage WHOLE: Qplus / Qmult extracted to versions returning the same rational in lowest terms (Extract_C03.v); the recording of "
                         "every solve's multipliers / every evaluation / the surviving rows in the mirrored loops"])
    cov = r.coverage
    dk = _kv(done[0]) if done else {}
    hist = {}
    if done and "|" in done[0]:
        for tok in done[0].split("|", 1)[1].split():
            k, v = tok.rsplit(":", 1)
            hist[k] = int(v)
    mk = _kv(mdone)
    cov["evaluations"] = len(lines)
    cov["correspondence_items_checked"] = checked
    st = set()
    for l in lines:
        if l.startswith("B ") and " STATE " in l:
            st.add(vlib.sha(l.split(" ", 2)[2]))
        elif l.startswith(("RUN ", "E1 ")):
            st.add(vlib.sha(l.split(" ", 2)[2]))
    cov["distinct_nontrivial"] = len(st)
    cov["rule"] = ("distinct = different bundle state after an operation (size, centre, errors, rows) or different solver run / "
                   "1-D ellipsoid trace; every counted item is non-trivial (a state with >= 1 row, a full solver run)")
    cov["bundle_sessions"] = int(dk.get("sessions", 0))
    cov["bundle_ops_total_incl_quiet_mirrors"] = int(dk.get("ops", 0))
    cov["serious_steps"] = int(dk.get("serious", 0))
    cov["null_steps"] = int(dk.get("nulls", 0))
    cov["aggregations"] = int(dk.get("aggregations", 0))
    cov["inactive_rows_deleted"] = int(dk.get("inactive_deleted", 0))
    cov["stopping_tests"] = int(dk.get("convs", 0))
    cov["stopping_tests_true"] = int(dk.get("conv_true", 0))
    cov["lower_bound_oracle_checks"] = int(dk.get("oracle_checks", 0))
    cov["mirrored_solver_runs_bit_identical"] = int(dk.get("mirrors", 0)) - len(mirror_diff) - len(skips)
    cov["solver_runs"] = int(dk.get("runs", 0))
    cov["solver_runs_converged"] = int(dk.get("converged", 0))
    cov["ellipsoid_1d_traces"] = int(dk.get("e1", 0))
    cov["ellipsoid_update_events"] = int(dk.get("ell_events", 0))
    cov["ellipsoid_update_events_membership_checked_in_harness"] = int(dk.get("ell_events", 0))
    cov["ellipsoid_steps_checked"] = int(mk.get("ellipsoid_steps_checked", 0))
    cov["ellipsoid_membership_checked_exactly"] = int(mk.get("ellipsoid_membership_checked", 0))
    cov["ellipsoid_membership_worst"] = {"harness_long_double_all_events": dk.get("ell_max_membership"), "driver_exact_sampled": mk.get("ellipsoid_membership_worst")}
    cov["ellipsoid_steps_ill_conditioned_skipped"] = int(mk.get("amb_elln", 0))
    # stage LOOP
    cov["loop_outer_iterations_observed"] = int(dk.get("loop_iters", 0))
    cov["loop_search_passes_observed"] = int(dk.get("loop_passes", 0))
    cov["loop_direct_oracle_checks"] = int(dk.get("loop_oracles", 0))
    cov["loop_budget_exits_inside_search"] = int(dk.get("stale_exits", 0))
    cov["loop_search_calls_replayed"] = int(mk.get("loop_calls", 0))
    cov["loop_search_passes_replayed"] = int(mk.get("loop_passes", 0))
    cov["loop_outer_iterations_replayed"] = int(mk.get("loop_iters", 0))
    cov["loop_budget_exits_replayed"] = int(mk.get("loop_budget_exits", 0))
    cov["loop_long_calls_replayed_pass_by_pass_only"] = int(mk.get("loop_long_calls_pass_only", 0))
    cov["loop_ambiguous_calls"] = int(mk.get("loop_amb", 0))
    cov["loop_returned_status_histogram"] = mk.get("loop_status_hist")
    # stage WHOLE
    cov["whole_runs_recorded"] = len([l for l in lines if l.startswith("W ")])
    cov["whole_runs_fully_replayed_in_one_call_of_the_composed_model"] = int(mk.get("whole_runs", 0))
    cov["whole_runs_replayed_only_after_following_the_library_at_ambiguous_decisions"] = int(mk.get("whole_followed", 0))
    cov["whole_ambiguous_decisions_followed"] = int(mk.get("whole_decisions_followed", 0))
    cov["whole_ill_conditioned_miu_updates_followed"] = int(mk.get("whole_miu_followed", 0))
    cov["whole_passes_compared_decision_by_decision"] = int(mk.get("whole_passes", 0))
    cov["whole_fraction_fully_replayed"] = (round(int(mk.get("whole_runs", 0)) / max(1, int(mk.get("whole_recorded", 0))), 4))
    cov["whole_runs_skipped_over_the_cpu_budget_of_8s"] = int(mk.get("whole_skipped_expensive", 0))
    cov["whole_runs_converged"] = int(mk.get("whole_converged", 0))
    cov["whole_runs_budget_exit"] = int(mk.get("whole_budget_exits", 0))
    cov["whole_appends_replayed"] = int(mk.get("whole_appends", 0))
    cov["whole_aggregations_replayed"] = int(mk.get("whole_aggregations", 0))
    cov["whole_ambiguity_rule"] = ("per decision: econverged / sconverged / m1..m4 / delete_inactive's alpha_i < eps0 / the branches of the two-row closed form are "
                                   "ambiguous only within 1e-9 of the summed magnitudes of their terms; the library's branch is followed there, any other "
                                   "differing decision or a differing end of the run is a reported mismatch; no run is skipped")
    cov["proximity_updates_replayed"] = int(mk.get("px_checked", 0))
    cov["proximity_updates_ill_conditioned_skipped"] = int(mk.get("px_amb", 0))
    cov["nesterov_updates_replayed"] = int(mk.get("ns_checked", 0))
    cov["low_budget_runs"] = len([l for l in lines if l.startswith("RUN L")])
    cov["known_finding_hits"] = {FP_FAR_TRIAL: len(seen_k), "C03-delete-largest-leaves-bundle-full": len(pguards) + len(guards)}
    cov["far_trial_point_probe"] = fdone[0] if fdone else None
    cov["histogram"] = hist
    cov["op_histogram"] = dict(ops)
    cov["mismatches"] = len(mism)
    cov["impl_direct_failures"] = len(impl_fail)
    cov["ambiguous_skipped"] = int(mk.get("ambiguous_skipped", 0))
    cov["multistep_states_checked"] = int(mk.get("multistep_states", 0))
    cov["multistep_stopped_at_ambiguous_decision"] = int(mk.get("multistep_stopped_at_ambiguous_decision", 0))
    cov["qp_answer_max_simplex_deviation"] = mk.get("simplex_worst")
    cov["aggregate_max_abs_sum_alpha_minus_1"] = mk.get("sigma_worst")
    cov["samples"] = ([l[:400] for l in lines if l.startswith("RUN ")][:3] + [l[:400] for l in lines if l.startswith("B ") and " APP " in l][:2]
                      + [l[:300] for l in lines if l.startswith("E1 ")][:1])
    cov["unproved_clauses_searched"] = [
        "n-D ellipsoid: the theorems are about exact arithmetic with an exact square root; the real solver's updates are compared with the model "
        "(1e-9 of the summed terms) and its ellipsoids are searched for the minimiser leaving them (every iteration in long double, sampled "
        "iterations exactly); converged => f - f* <= 10 eps searched on the real solver",
        "ellipsoid reports converged within 20000 evaluations for n <= 6 (searched)",
        "floating-point rounding of all formulas (compared within 1e-9 of the summed terms)",
        "the interior-point QP answer is in the simplex (measured on every solve: qp_answer_max_simplex_deviation)",
        "multipliers below epsilon0 are exactly zero when the aggregate is formed (measured: aggregate_max_abs_sum_alpha_minus_1)",
        "curve search / RQB / FPBA: termination within the budget, statuses, monotonicity, bracket are theorems over exact rationals for every "
        "oracle; that the floating-point decisions follow them is searched (replay of every observed pass, direct oracles), as is progress "
        "(number of passes of one search call: no bound other than the budget exists)",
        "proximity / Nesterov: rounding of the updates (compared within 1e-6 / 1e-12 relative), the square root as a witness",
        "WHOLE: C03_whole_rqb / C03_whole_fpba are about the composed exact-rational model with the QP answer, the surviving rows, the "
        "first-order oracle and the square root as oracles; that binary64 runs follow it is searched (stage WHOLE: complete mirrored runs "
        "replayed from their recorded oracle answers -- same exit, iterations, evaluations, state value, centre, returned point, serious "
        "centres exactly); the oracle conditions qp_ok (simplex, clean multipliers) and keep_ok (false of the unchanged code: known finding) "
        "are measured / guarded, not proved"]
    cov["excluded_inputs"] = ([] if small else ["bundle::max_size in 2..4: delete_largest reads its threshold at index `count` instead of size()-count; "
                                                "with max_size 3 or 4 the bundle reaches its capacity and append writes behind the buffers "
                                                "(heap-buffer-overflow under ASan, see notes/C03.md)"]) + \
        ["operations that would leave size() == capacity() (same defect with ties among large errors): detected on a copy of the bundle, "
         "counted in capacity_guard_hits, the real solver is not run on such a case"]
    cov["capacity_guard_hits"] = len(guards)
    cov["small_bundle_probe"] = pdone[0] if pdone else None
    cov["capacity_guard_samples"] = [l[:400] for l in guards[:2]] + [l[:300] for l in skips[:2]]
    cov["small_bundle_sizes_included"] = small
    r.assumptions = ["assertions are compiled out (NDEBUG) as in the library build",
                     "objectives are the sharp piecewise linear (+ quadratic) functions of the property's quantifier, built with integer "
                     "matrices (row-diagonally dominant, margin >= 3) so that values and sub-gradients are exact doubles",
                     "the theorems are about exact rational arithmetic; `tol` = epsilon*sqrt(n) is taken from the run"]
    return r.finish("proof")
