"""C09 -- ML objectives equal their definitions for any thread count / batch size / cache setting
(proof over Q + translated kernels + differential correspondence + direct search on the implementation)."""
import collections
import json
import os
import shlex
import vlib
import c09_real


MANIFEST = dict(
    text=("Coq theorems about an executable exact-rational model of linear::function_t and gboost::{bias,scale,grads}_function_t as "
          "the code evaluates them: the chunks of pool_t::map partition [0,n) (kernels of parallel.h, shared with C17); for EVERY number "
          "of workers, batch size, assignment chunk->worker and completion order, per-thread accumulation + sum_reduce (loop bounds "
          "translated from reduce.h) + division by #samples is the plain mean (commutative-monoid argument, generic and over Q); the "
          "linear objective and the three gboost objectives equal their naive definitions (mean of per-sample losses, l1*mean|W| + "
          "l2/2*mean W^2, unassigned samples unscaled, matching per-coordinate gradients, parameter layout translated from the source), "
          "with the loss as a section parameter and mse/mae/hinge/squared-hinge instances whose gradients are proved to be "
          "subgradients; per-sample buffers and the flatten/targets caches written range by range over stale content equal the direct "
          "computation. The extracted model and the naive definition are compared with the real library (1..16 threads x batch sizes "
          "around n x cached/uncached/refused caches x 4 scaling modes x warm-up call) within 1e-9 relative to the summed magnitudes; "
          "all 17 losses go through an independent per-sample C++ oracle and a configuration-independence oracle. "
          "EXTENSION (C09_Real_Defs.v / C09_Real.v, 22 more theorems): every registered loss is inside the model over R -- the 17 ids of "
          "loss_t::all() are mapped to the real specifications of their kernels owned by C06 (polynomial kernels at Rops, cauchy / "
          "logistic / exponential / savage / tangent / class-NLL); the objectives are restated over R (real sqrt(l2), divisors of the means "
          "translated from reduce.h and gboost/function.cpp) and equal their definitions for EVERY valid schedule (the monoid theorem at "
          "(R,+)); the gradient formulas of the source are proved to be the derivatives of the value (Coquelicot is_derive of the whole "
          "objective: linear data term along every direction (dW,db) and along the coordinates W(c,j), b(c); l2 term; bias, scale -- chain "
          "rule through s_i + x[cluster_i] w_i -- and grads objectives), composing C06's per-kernel is_derive theorems (class-NLL proved "
          "here, with |code - ideal| <= 2^-52) with the affine maps; for the convex losses and the l1 term the gradient is a sub-gradient, "
          "kinks included. The floating-point re-association clause is a theorem with an explicit constant: for ANY two reduction trees "
          "over the same n terms in binary64 (Flocq FLT_exp(-1074,53), round to nearest even, standard model derived from Flocq for sums of "
          "representable numbers) the results differ by at most 2 gamma_{n-1} sum|terms|, and the mean the code returns is within gamma_k "
          "mean|terms| + 2^-1075 of the exact mean (k = #terms + #cleared accumulators); the driver evaluates exactly this bound (extracted "
          "fp_mean_okb, exact rationals, proved sound) on the measured per-sample terms of the three boosting objectives for every "
          "evaluation and every pair of configurations (it is ~1e-14, five orders below the property's 1e-9). Tie of the real model: per "
          "run, small datasets x all 17 losses; for every transcendental loss the value and a gradient coordinate of all four objectives "
          "are enclosed by kernel-checked CoqInterval lemmas within 1e-11 (1 + sum|terms|) of the real specification at the exact inputs; "
          "an independent closed-form long-double oracle and a finite-difference oracle (gradient = derivative of the value) produce "
          "concrete replays."),
    note=("Coq kernel; translator (17 kernels of reduce.h, linear/function.{h,cpp}, gboost/function.cpp, dataset/iterator.cpp + 9 of "
          "parallel.h); extraction with ExtrOcamlZBigInt (Zarith); harness against the library built from the working tree + OCaml "
          "driver; floating-point re-association is outside the theorems (compared within the property's 1e-9); sqrt(l2) is an "
          "argument of the Q model (the R model uses the real sqrt); data races are C18. Extension: + 2 translated divisor kernels; C06_Defs / "
          "C06_Proofs / C06_Deriv (specifications and is_derive theorems of the loss kernels, committed files, read-only) and "
          "generated/Src_c06_flags.v are dependencies; Coquelicot, Flocq (Relative, Plus_error), CoqInterval; tools/checks/c09_real.py "
          "(lemma generator, 60-digit decimal evaluation for the reported error ratio only); the transcendental losses agree with their "
          "real specification at the sampled points of each run (interval lemmas), not for all inputs; no overflow is assumed by the "
          "floating-point theorem (unbounded-exponent FLT format); the linear objective's terms go through Eigen's GEMM and are not "
          "measured: its floating-point distance stays at the property's 1e-9."),
    technique="Coq proof over Q of a translated+extracted model, differential correspondence within the property's tolerance, "
              "direct property oracles on the implementation; extension: Coq proof over R (Coquelicot derivatives, Flocq rounding-error "
              "analysis of arbitrary reduction trees), per-run kernel-checked interval enclosures, proved bound evaluated by extracted code",
    design="DESIGN.md section 2, C09")

VARIANTS = ["rel"]

CASES = {"quick": (1, 400), "thorough": (12, 500)}   # (chunks, cases per chunk)
REAL_CASES = {"quick": 34, "thorough": 340}          # (extension) small cases of the stage "realspec": 2 / 20 per registered loss id
COUNTERS = ("cases", "configs", "evals", "model_lines", "ambiguous", "exact_cases", "missing_cells")
HISTS = ("threads", "modes", "rows", "cached", "losses", "batch", "subset")


def _build_driver():
    """the extracted model uses Zarith (ExtrOcamlZBigInt), so the shared zutil.ml.inc (helpers for the inductive Z)
    cannot be prefixed: private variant of vlib.build_ocaml (same as C14)"""
    odir = os.path.join(vlib.WORK, "ocaml")
    os.makedirs(odir, exist_ok=True)
    exe = os.path.join(odir, "c09_driver")
    model = os.path.join(vlib.COQ, "extracted", "c09_model.ml")
    driver = os.path.join(vlib.ROOT, "ocaml", "c09_driver.ml")
    with vlib.Lock("ocaml-c09_driver"):
        srcs = [model, model + "i", driver]
        for s in srcs:
            if not os.path.exists(s):
                raise vlib.CheckError("missing %s (extraction failed?)" % s)
        if os.path.exists(exe) and all(os.path.getmtime(s) <= os.path.getmtime(exe) for s in srcs):
            return exe
        bd = os.path.join(odir, "c09_driver.build")
        vlib.sh("rm -rf %s && mkdir -p %s" % (shlex.quote(bd), shlex.quote(bd)))
        for s in (model, model + "i"):
            vlib.sh("cp %s %s/" % (shlex.quote(s), shlex.quote(bd)))
        with open(os.path.join(bd, "driver_main.ml"), "w") as f:
            f.write("open C09_model\n# 1 \"c09_driver.ml\"\n")
            f.write(open(driver).read())
        cmd = "ocamlfind ocamlopt -O3 -w -a -package zarith -linkpkg c09_model.mli c09_model.ml driver_main.ml -o %s" % shlex.quote(exe)
        rc, out = vlib.sh(cmd, cwd=bd, timeout=600)
        if rc != 0:
            raise vlib.CheckError("ocaml build of c09_driver failed:\n%s" % out[-3000:])
    return exe


def _ensure_c06_deps():
    """C09_Real.v imports C06's specifications and is_derive theorems; C06_Proofs.v needs coq/generated/Src_c06_flags.v, which
    tools/checks/c06.py generates. An alternate tree (VERIF_REPO) starts without it: take the main tree's last good file (the flags
    are C06's business; a change of them is reported by ./check C06)."""
    gen = os.path.join(vlib.COQ, "generated")
    path = os.path.join(gen, "Src_c06_flags.v")
    if os.path.exists(path):
        return
    os.makedirs(gen, exist_ok=True)
    main = os.path.join(vlib.ROOT, "coq", "generated", "Src_c06_flags.v")
    if os.path.exists(main) and os.path.abspath(main) != os.path.abspath(path):
        open(path, "w").write(open(main).read())
        return
    try:
        import c06
        c06.gen_flags()
    except Exception as ex:  # noqa: BLE001 -- reported by the Coq build that follows
        vlib.log("C09: cannot generate Src_c06_flags.v: %s" % ex)


def _real_stage(r, exe, tier):
    """(extension) stage "realspec": small datasets, every registered loss; returns dict(lines, fails, done, rc, registry)"""
    n = REAL_CASES.get(tier, REAL_CASES["quick"])
    rc, out = vlib.sh([exe, "real", str(n), "0"], timeout=1500, env={"VERIF_SEED": str(r.seed)})
    lines = [l for l in out.split("\n") if l]
    reg = [l for l in lines if l.startswith("RLOSSES ")]
    return {"rc": rc, "lines": lines, "fails": [l for l in lines if l.startswith("FAIL ")], "done": [l for l in lines if l.startswith("DONE ")],
            "registry": reg[0].split("ids=", 1)[1].split(",") if reg else [], "cases": n}


def _coq_registered():
    """the names of C09_Real_Defs.registered_losses"""
    import re
    src = open(os.path.join(vlib.ROOT, "coq", "theories", "C09_Real_Defs.v")).read()
    m = re.search(r"Definition registered_losses.*?:=\s*\[(.*?)\]\.", src, re.S)
    return re.findall(r'\("([^"]+)"', m.group(1)) if m else []


def setup():
    vlib.build_harness("c09_objectives", "rel", need_lib=True)
    try:
        _build_driver()
    except vlib.CheckError:
        pass  # extraction not built yet: run() builds it after coq_check


def _kv(done_line):
    out = {}
    for tok in done_line.split()[1:]:
        if "=" in tok:
            k, v = tok.split("=", 1)
            out[k] = v
    return out


def _hist(s):
    out = {}
    for tok in s.split(","):
        if ":" in tok:
            k, v = tok.rsplit(":", 1)
            out[k] = int(v)
    return out


def _case_of(line):
    """`FAIL clause 12.1 ...` / `MISMATCH what 12.1 ...` -> 12"""
    p = line.split(" ", 3)
    if len(p) > 2:
        c = p[2].split(".")[0]
        if c.isdigit():
            return int(c)
    return None


def _run_cases(exe, drv, args, seed):
    """run the harness (+ driver); returns dict(lines, rc, fails, mism, checked, mout)"""
    rc, out = vlib.sh([exe] + [str(a) for a in args], timeout=3000, env={"VERIF_SEED": str(seed)})
    lines = [l for l in out.split("\n") if l]
    res = {"rc": rc, "lines": lines, "fails": [l for l in lines if l.startswith("FAIL ")], "mism": [], "checked": 0,
           "done": [l for l in lines if l.startswith("DONE ")], "drc": 0, "mout": "", "model_done": ""}
    if drv:
        feed = "\n".join(l for l in lines if l.startswith(("DATA ", "LIN ", "BIAS ", "SCALE ", "GRADS ", "AVALS ", "ASSOC "))) + "\n"
        rc2, mout = vlib.sh([drv], input=feed, timeout=3000)
        res["drc"], res["mout"] = rc2, mout[-2000:]
        for l in mout.split("\n"):
            if l.startswith(("MISMATCH", "PROPFAIL")):
                res["mism"].append(l)
            elif l.startswith("MODEL-DONE"):
                res["checked"] = int(l.split("checked=")[1].split()[0])
                res["model_done"] = l
    return res


def _replay(path):
    d = json.load(open(path))
    exe = vlib.build_harness("c09_objectives", "rel", need_lib=True)
    drv = _build_driver()
    if d.get("real_case_index") is not None:
        rc, out = vlib.sh([exe, "realcase", str(d["real_case_index"])], timeout=600, env={"VERIF_SEED": str(d.get("seed", 20260926))})
        lines = [l for l in out.split("\n") if l]
        bad = [l for l in lines if l.startswith("FAIL ")]
        if not bad and d.get("lemma"):
            cs, _ = c09_real.cases(lines, "thorough", d.get("seed", 20260926))
            class _R:      # the gate only needs the seed
                seed = d.get("seed", 20260926)
            iv = c09_real.gate(_R, cs, "thorough")
            bad = ["interval lemma fails: %s %s: %s" % (c["object"], c["what"], c["stmt"][:400]) for c in iv["failed"]]
        print("\n".join(l[:1000] for l in bad[:10]) or "real case %s: no failure" % d["real_case_index"])
        if bad or rc != 0:
            print("VIOLATION property=C09 replay=%s" % path)
            return 1
        return 0
    case = d.get("case_index")
    if case is None:
        print("nothing to replay in %s" % path)
        return 0
    res = _run_cases(exe, drv, ["case", case, d.get("mode", "quick")], d.get("seed", 20260926))
    bad = res["fails"] + res["mism"]
    print("\n".join(l[:1000] for l in bad[:10]) or "case %s: no failure" % case)
    if bad or res["rc"] != 0:
        print("VIOLATION property=C09 replay=%s" % path)
        return 1
    return 0


def run(tier, replay=None):
    if replay:
        return _replay(replay)
    r = vlib.Run("C09", tier)
    _ensure_c06_deps()
    cres = vlib.coq_check("C09", targets=["theories/Extract_C09.vo", "theories/Properties_C09.vo"])
    exe = vlib.build_harness("c09_objectives", "rel", need_lib=True)
    drv = None
    try:
        drv = _build_driver()
    except (vlib.CheckError, OSError):
        if cres["ok"]:
            raise
    nchunks, ncases = CASES.get(tier, CASES["quick"])
    totals = collections.Counter()
    hists = {k: collections.Counter() for k in HISTS}
    ops = collections.Counter()
    impl_fail, mism = [], []
    distinct = set()
    samples = []
    evaluations = checked = coords = amb_skipped = assoc = assoc_pairs = 0
    cmd_case = lambda c: "VERIF_SEED=%d %s case %d %s" % (r.seed, exe, c, tier)
    for ch in range(nchunks):
        res = _run_cases(exe, drv, [tier, ncases, ch * ncases], r.seed)
        lines = res["lines"]
        oplines = [l for l in lines if l.startswith(("LIN ", "BIAS ", "SCALE ", "GRADS "))]
        for l in lines:
            op = l.split(" ", 1)[0]
            if op in ("DATA", "LIN", "BIAS", "SCALE", "GRADS", "FAIL", "AVALS", "ASSOC"):
                ops[op] += 1
        impl_fail += res["fails"]
        mism += res["mism"]
        checked += res["checked"]
        if res["model_done"]:
            kv = _kv(res["model_done"])
            coords += int(kv.get("coordinates", 0))
            amb_skipped += int(kv.get("ambiguous_skipped", 0))
            assoc += int(kv.get("assoc", 0))
            assoc_pairs += int(kv.get("assoc_pairs", 0))
        if res["rc"] != 0 or not res["done"]:
            r.violation("crash", {"kind": "implementation-crash / exception in the harness", "exit": res["rc"], "mode": tier,
                                  "last_operations": [l[:300] for l in oplines][-5:], "tail": "\n".join(l[:500] for l in lines[-6:]),
                                  "replay_cmd": "VERIF_SEED=%d %s %s %d %d" % (r.seed, exe, tier, ncases, ch * ncases)},
                        fingerprint="crash")
        else:
            d = _kv(res["done"][0])
            for k in COUNTERS:
                totals[k] += int(d.get(k, 0))
            for k in HISTS:
                hists[k].update(_hist(d.get(k, "")))
        if drv and (res["drc"] != 0 or (not res["checked"] and oplines)):
            r.violation("driver", {"kind": "model driver failed", "out": res["mout"]}, no_input=True)
        # distinct non-trivial: distinct (objective, parameters, configuration, result) lines with a non-zero gradient entry
        for l in oplines:
            rhs = l.rsplit(" = ", 1)[1]
            g = rhs.split(" | ", 1)[1] if " | " in rhs else ""
            if any(t not in ("0x0p+0", "-0x0p+0") for t in g.replace(";", ",").replace(" | ", ",").split(",")):
                distinct.add(hash(l.split(" ", 2)[0] + l.split(" ", 2)[2]))
        evaluations += int(_kv(res["done"][0]).get("evals", 0)) if res["done"] else 0
        if not samples:
            samples = [l[:700] for l in oplines if l.startswith("LIN ") and len(l) < 700][:2] + \
                      [l[:500] for l in oplines if l.startswith("BIAS ") and len(l) < 500][:1] + \
                      [l[:700] for l in oplines if l.startswith("SCALE ") and len(l) < 700][:1] + \
                      [l[:700] for l in oplines if l.startswith("GRADS ") and len(l) < 700][:1] or [l[:400] for l in lines[:3]]
        del lines, oplines
    # direct property oracles on the implementation: one violation per clause (shortest case of the clause)
    seen = set()
    for l in impl_fail:
        clause = l.split(" ", 2)[1]
        if clause in seen or len(seen) >= 4:
            continue
        seen.add(clause)
        same = [x for x in impl_fail if x.split(" ", 2)[1] == clause]
        shortest = min(same, key=len)
        case = _case_of(shortest)
        r.violation("impl-%s" % clause, {"kind": "direct property check failed on the implementation", "clause": clause,
                                         "case": shortest[:6000], "case_index": case, "mode": tier,
                                         "failures_of_this_clause": len(same),
                                         "replay_cmd": (cmd_case(case) if case is not None else "") + " | grep '^FAIL'"})
    kinds = set()
    for l in mism:
        kind = l.split(" ", 2)[1]
        if kind in kinds or len(kinds) >= 3:
            continue
        kinds.add(kind)
        same = [x for x in mism if x.split(" ", 2)[1] == kind]
        shortest = min(same, key=len)
        case = _case_of(shortest)
        # the model is the proved definition: a value / gradient of the library that leaves it by more than the property's
        # tolerance on this very input is a concrete failing input (the data of the case is re-generated by the replay command)
        r.violation("corr-%s" % kind, {"kind": ("the value leaves the mean of its own per-sample terms by more than the PROVED re-association bound "
                                                "(C09_fp_mean: gamma_k mean|terms| + 2^-1075)" if kind.startswith("assoc") else
                                                "implementation differs from the exact model / definition beyond 1e-9 relative"),
                                       "case": shortest[:6000], "case_index": case, "mode": tier, "mismatches_of_this_kind": len(same),
                                       "replay_cmd": (cmd_case(case) if case is not None else "") + " | " + str(drv)},
                    no_input=kind == "driver")
    # ---- (extension) stage "realspec": every registered loss against the real-valued specification -----------------------
    real = _real_stage(r, exe, tier)
    cmd_real = lambda c: "VERIF_SEED=%d %s realcase %s" % (r.seed, exe, c)
    if real["rc"] != 0 or not real["done"]:
        r.violation("real-crash", {"kind": "implementation-crash / exception in the harness (real stage)", "exit": real["rc"],
                                   "tail": "\n".join(l[:500] for l in real["lines"][-6:]),
                                   "replay_cmd": "VERIF_SEED=%d %s real %d 0" % (r.seed, exe, real["cases"])}, fingerprint="crash")
    rseen = set()
    for l in real["fails"]:
        clause = l.split(" ", 2)[1]
        if clause in rseen or len(rseen) >= 4:
            continue
        rseen.add(clause)
        same = [x for x in real["fails"] if x.split(" ", 2)[1] == clause]
        shortest = min(same, key=len)
        cid = shortest.split(" ", 3)[2]
        r.violation("impl-%s" % clause, {"kind": "the library's objective differs from the independent closed-form (long double) evaluation of its "
                                                 "definition / its gradient is not the derivative of the value", "clause": clause,
                                         "case": shortest[:6000], "real_case_index": int(cid[1:]) if cid[1:].isdigit() else None, "mode": tier,
                                         "failures_of_this_clause": len(same),
                                         "replay_cmd": cmd_real(cid[1:]) + " | grep '^FAIL'"})
    coq_names = _coq_registered()
    if real["registry"] and (real["registry"] != c09_real.REGISTERED or coq_names != c09_real.REGISTERED):
        r.violation("loss-registry", {"kind": "the registry of the library (loss_t::all().ids()) is not the table C09_Real_Defs.registered_losses",
                                      "library": real["registry"], "coq": coq_names, "expected": c09_real.REGISTERED}, no_input=True)
    iv_list, iv_skipped = c09_real.cases(real["lines"], tier, r.seed)
    iv = {"lemmas": 0, "failed": [], "seconds": 0.0, "error": None, "kept": []}
    if cres["ok"] or os.path.exists(os.path.join(vlib.COQ, "theories", "C09_Real_Defs.vo")):
        iv = c09_real.gate(r, iv_list, tier)
    for i, c in enumerate(iv["failed"][:4]):
        cid = c["case"]
        r.violation("realspec-%d" % i,
                    {"kind": "the number returned by the library is not within 1e-11 * (1 + sum of |terms|) of the real-valued specification "
                             "of the objective on this input: the interval lemma does not check",
                     "object": c["object"], "number": c["what"], "case": c["line"][:3000], "lemma": "Lemma %s : %s." % (c["name"], c["stmt"][:3000]),
                     "measured_error": c["err"], "tolerance": c["tol"], "real_case_index": int(cid[1:]) if cid[1:].isdigit() else None,
                     "replay_cmd": cmd_real(cid[1:]) + "   # then: cd %s && coqc -q -Q theories LN -Q generated LNGen -w -all %s"
                                   % (vlib.COQ, (iv.get("kept") or ["<generated file>"])[0])})
    if iv["error"] and not iv["failed"]:
        r.violation("realspec-gate", {"kind": "interval file failed to compile", "detail": iv["error"][-3000:]}, no_input=True)
    vlib.handle_coq_failure(r, cres)
    vlib.proof_coverage(r, cres, "make -C coq theories/Properties_C09.vo && coqc theories/Properties_C09.v (Print Assumptions)",
                        ["tools/translate.py (17 integer kernels of reduce.h, linear/function.{h,cpp}, gboost/function.cpp, "
                         "dataset/iterator.cpp; 9 of parallel.h shared with C17)",
                         "extraction: ExtrOcamlBasic + ExtrOcamlZBigInt (positive/Z mapped to Zarith big integers)",
                         "ocaml/c09_driver.ml (exact double->Q conversion), harness/c09_objectives.cpp (tolerances, naive oracle), g++ -O2",
                         "the loss kernels of the library evaluated on ONE sample are the reference of the naive oracle (C06 covers them)",
                         "sqrt(l2) is not modelled in the Q model: the root computed by std::sqrt is an argument of the model",
                         "extension: tools/checks/c09_real.py (generator of the per-run interval lemmas; the lemmas themselves are kernel-checked), "
                         "CoqInterval, Coquelicot, Flocq; C06_Defs/C06_Proofs/C06_Deriv + generated/Src_c06_flags.v (C06's files, imported)",
                         "extension: the closed-form long-double loss kernels of the harness (std::expl/logl/atanl) are the reference of the "
                         "real-stage oracle; binary64 addition/division of the machine = Flocq's round-to-nearest-even FLT model (no overflow)"])
    cov = r.coverage
    cov["evaluations"] = evaluations
    cov["correspondence_lines_checked"] = checked
    cov["gradient_coordinates_compared"] = coords
    cov["ambiguous_skipped"] = amb_skipped
    cov["distinct_nontrivial"] = len(distinct)
    cov["rule"] = ("random datasets (1..200 samples; 1..10 sclass/mclass/scalar/struct features with 0/10/50/90/100% missing values; "
                   "scalar/struct/sclass/mclass targets; half of the cases small dyadics so that double arithmetic is exact), random sample "
                   "subsets (all / range / sorted subset / shuffled), 4 scaling modes, 17 losses (4 rational ones go to the model), l1,l2 in "
                   "{0, nice, random up to 1e6}, parameter vectors with zeros, clusters with 0/30/70/100% unassigned samples; per case 3 "
                   "(thorough: 5) configurations: 1..16 threads x batch in {1, n-1, n, n+1, divisor, half, small, 1000..10000} x caches "
                   "{off, on, refused} filled under a possibly different batch size; every objective evaluated after a warm-up call at "
                   "another point; everything derived from VERIF_SEED. distinct_nontrivial = distinct model-checked (objective, "
                   "parameters, configuration, result) lines with a non-zero gradient entry; evaluations = vgrad calls")
    cov["op_histogram"] = dict(ops)
    cov["chunks"] = nchunks
    for k in COUNTERS:
        cov[k] = totals[k]
    for k in HISTS:
        cov[k + "_histogram"] = dict(hists[k])
    rd = _kv(real["done"][0]) if real["done"] else {}
    cov["real_cases"] = int(rd.get("real_cases", 0))
    cov["real_objective_lines"] = int(rd.get("real_lines", 0))
    cov["real_finite_difference_checks"] = int(rd.get("real_fd", 0))
    cov["real_losses_histogram"] = _hist(rd.get("losses", ""))
    cov["real_impl_failures"] = len(real["fails"])
    cov["interval_lemmas"] = iv["lemmas"]
    cov["interval_failed"] = len(iv["failed"])
    cov["interval_seconds"] = iv["seconds"]
    cov["interval_skipped"] = dict(iv_skipped)
    cov["interval_worst_ratio"] = max([c["ratio"] for c in iv_list] or [0.0])
    cov["interval_ratio_meaning"] = ("max over the enclosed numbers of |specification (60-digit decimal evaluation) - returned double| / "
                                     "tolerance, tolerance = 1e-11 * (1 + sum of |terms|)")
    cov["interval_by_object"] = dict(collections.Counter(c["object"] for c in iv_list))
    cov["assoc_bound_checks"] = assoc
    cov["assoc_pair_checks"] = assoc_pairs
    cov["mismatches"] = len(mism)
    cov["impl_direct_failures"] = len(impl_fail)
    cov["samples"] = samples
    cov["unproved_clauses_searched"] = [
        "floating-point: |library value - exact definition| <= 1e-9 * (summed magnitudes) for value and every gradient coordinate",
        "the transcendental losses (cauchy, classnll, savage, tangent, logistic, exponential) on the LARGE random datasets: naive "
        "per-sample C++ loop through the library's own kernels; on the small datasets of the real stage: kernel-checked interval "
        "enclosures of the real specification (sampled points, not all inputs) + independent closed-form oracle",
        "floating-point distance of the LINEAR objective to its definition (terms pass through Eigen's GEMM: 1e-9 of the summed "
        "magnitudes); for the three boosting objectives the proved bound gamma_k mean|terms| + 2^-1075 is checked instead",
        "independence of the result from (threads, batch, caches) on the real thread pool (the theorem is about the model's schedules)",
        "the iterators deliver bit-identical inputs / targets whether cached, uncached or with a refused cache",
        "gradient of a non-smooth loss when a sample sits within 1e-9 of a kink (skipped as ambiguous, counted)"]
    cov["not_reached"] = ["bit-level independence (the property allows 1e-9)", "data races on the per-thread buffers (C18)",
                          "changing the scaling mode after the caches were filled (stale cache: outside the usage the library makes)"]
    r.assumptions = ["finite inputs of magnitude <= ~1e3 (no overflow); sample indices valid and distinct",
                     "NDEBUG build: the size assertions are respected by the harness",
                     "the schedule recorded from iterator.loop() in the same configuration is representative of the one vgrad() takes "
                     "(the theorem covers every schedule anyway)",
                     "the target feature is never optional"]
    return r.finish("proof")
