"""C13 -- tuners evaluate grid points once and report the true best; ml::tune's (trial, fold) bookkeeping
(proof + translator tie + acceptor-style correspondence + direct oracle on the implementation)."""
import collections
import json
import os
import re
import vlib


MANIFEST = dict(
    text=("Coq theorems about an executable model of tuner_t::optimize (coarse loop + local-search / surrogate refinement, "
          "nano::local_search, nano::evaluate) for every landscape, every outcome of the unstable std::sort among equal values and "
          "every surrogate proposal: only grid points are evaluated, none twice, at most max_evals + 3^d, a non-finite value throws, "
          "the returned steps are all evaluations sorted with the minimum first, the loops terminate (fuel never runs out); and of "
          "ml::tune's index -> (trial, fold) decoding, result_t's slots and optimum_trial (bijection, order independence of the stores, "
          "closest-model read never aliases another task's store, first argmin of the mean validation error). 24 integer kernels are re-translated from src/tuner*.cpp and "
          "src/machine/{tune,result}.cpp on every run. The extracted model must reproduce every observed run of the real tuners "
          "(callback batches, outcome, steps; acceptor search over tie-breaks/proposals) and of ml::tune under its thread pool; the "
          "property's own oracle runs on the implementation and yields a replayable case. Extension (stage SURR): the arithmetic around "
          "the quadratic surrogate is in the model over Q -- coefficient walk of quadratic_surrogate_t / quadratic_surrogate_fit_t "
          "((d+1)(d+2)/2 coefficients, index of (i,j) a bijection onto [d+1, (d+1)(d+2)/2), value = coefficients . features), the returned "
          "gradients are the derivatives (exact expansions), the fit objective is convex as declared, closest_grid_point_from_surrogate is "
          "always a grid index and the first argmin of |x - t_k|, linear to/from_surrogate are inverse and monotone; hence every proposal of "
          "the surrogate tuner is a grid point whatever the inner solver returned, and grid-only / no-repeat / bound / sortedness / "
          "non-finite rejection hold with the inner solver's answer as the only oracle (also for the binary64 twin that replays real runs "
          "bit for bit from the answers recorded at the solver_t::done hook). 18 more kernels (loop starts/conditions, k counters, sizes, the "
          "`distance < min_distance` decision) are re-translated from surrogate.cpp / space.cpp."),
    note=("Coq kernel; translator (42 kernels); extraction (ExtrOcamlBasic); harness + OCaml driver (acceptor search is unverified, its "
          "verdict is one run of the verified optimize_pick); std::sort and the surrogate solver are oracles constrained by their "
          "contracts; thread interleavings of ml::tune are sampled (real pool), their irrelevance is proved for atomic stores. Stage SURR: "
          "the inner LBFGS answer stays an oracle (observed through the NANO_VERIF solver_t::done hook); std::log10 is not modelled (grid images "
          "come from the run); Q = binary64 only on the generated dyadic inputs; ExtrOCamlFloats/PrimFloat for the binary64 twin."),
    technique="Coq proof over a translated+extracted model, acceptor-style differential correspondence, direct property oracle",
    design="DESIGN.md section 2, C13")

VARIANTS = ["rel"]

HARNESS = "c13_tuner"


def setup():
    vlib.build_harness(HARNESS, "rel", need_lib=True)
    vlib.build_ocaml("c13_driver", "c13_model.ml", "c13_driver.ml", floats=True)


def _case_of(line):
    m = re.search(r"case=(\d+)", line)
    return int(m.group(1)) if m else None


def _ensure_numeric():
    """every generated Src_<group>.v imports Src_numeric, but translate.run("C13") only writes the groups that have a C13
    kernel: in a fresh alternate tree (VERIF_REPO=...) Src_numeric.v would be missing -- generate it through a property
    that owns the shared idiv kernel"""
    import translate
    if not os.path.exists(os.path.join(vlib.COQ, "generated", "Src_numeric.v")):
        try:
            translate.run("C16")
        except translate.TranslateError:
            pass


def run(tier, replay=None):
    r = vlib.Run("C13", tier)
    _ensure_numeric()
    # --replay <file>: re-run exactly the recorded case (seed, tier and case index are in the replay file)
    htier, only = tier, None
    if replay:
        try:
            pl = json.load(open(replay))
            r.seed = int(pl.get("seed", r.seed))
            htier = pl.get("tier", tier)
            only = _case_of(str(pl.get("case", "")))
        except (OSError, ValueError):
            pass
    # 2. Coq: translated kernels + theorems (+ extraction target, built even if a proof breaks)
    cres = vlib.coq_check("C13", targets=["theories/Extract_C13.vo", "theories/Properties_C13.vo"])
    # 1./3. implementation run against the library built from the working tree
    exe = vlib.build_harness(HARNESS, "rel", need_lib=True)
    rc, out = vlib.sh([exe, htier] + ([str(only)] if only is not None else []), timeout=3000, env={"VERIF_SEED": str(r.seed)})
    lines = [l for l in out.split("\n") if l]
    done = [l for l in lines if l.startswith("DONE ")]
    impl_fail = [l for l in lines if l.startswith("FAIL ")]
    ops = collections.Counter(l.split(" ", 1)[0] for l in lines if l.split(" ", 1)[0] in ("LS", "OPT", "TUNE", "SGV", "SGF", "MAP", "FAIL", "DONE"))
    oplines = [l for l in lines if l.startswith(("LS ", "OPT ", "TUNE ", "SGV ", "SGF ", "MAP "))]
    replay_cmd = "VERIF_SEED=%d %s %s <case>" % (r.seed, exe, htier)
    if rc != 0 or not done:
        r.violation("crash", {"kind": "implementation crash / abnormal exit of the harness", "exit": rc, "tier": htier,
                              "last_operations": [l[:400] for l in oplines[-3:]],
                              "tail": out[-1500:], "replay_cmd": "VERIF_SEED=%d %s %s" % (r.seed, exe, tier)}, fingerprint="crash")
    # 5. the property's own oracle on the implementation
    seen_tags = set()
    k = 0
    for l in impl_fail:
        tag = l.split(" ", 2)[1]
        if tag in seen_tags or k >= 4:
            continue
        seen_tags.add(tag)
        case = _case_of(l)
        r.violation("impl-%s" % tag.lower(), {"kind": "direct property check failed on the implementation", "check": tag, "tier": htier,
                                               "case": l[:3000],
                                               "trace": [x[:3000] for x in oplines if case is not None and ("case=%d " % case) in x][:2],
                                               "replay_cmd": replay_cmd.replace("<case>", str(case))})
        k += 1
    # 4. correspondence with the extracted model
    mism, checked, dstat = [], 0, {}
    drv = None
    try:
        drv = vlib.build_ocaml("c13_driver", "c13_model.ml", "c13_driver.ml", floats=True)
    except (vlib.CheckError, OSError):
        if cres["ok"]:
            raise
    if drv:
        rc2, mout = vlib.sh([drv], input="\n".join(oplines) + "\n", timeout=3000)
        for l in mout.split("\n"):
            if l.startswith(("MISMATCH", "PROPFAIL")):
                mism.append(l)
            elif l.startswith("MODEL-DONE"):
                dstat = dict(kv.split("=") for kv in l.split()[1:])
                checked = int(dstat.get("checked", 0))
        if rc2 != 0 or not checked:
            r.violation("driver", {"kind": "model driver failed", "out": mout[-2000:]}, no_input=True)
        failed_cases = set(_case_of(l) for l in impl_fail)
        for i, l in enumerate(mism[:3]):
            case = _case_of(l)
            # the tie is broken on a concrete run; if the property oracle held on that run there is no property-violating input
            r.violation("corr-%d" % i, {"kind": "model/implementation disagreement", "case": l[:4000], "tier": htier,
                                        "meaning": "no answer of the model's oracles (tie-break of std::sort, surrogate proposal) reproduces "
                                                   "the implementation's callback batches / outcome / steps on this input",
                                        "replay_cmd": replay_cmd.replace("<case>", str(case))},
                        no_input=(case not in failed_cases))
    vlib.handle_coq_failure(r, cres)
    vlib.proof_coverage(r, cres, "make -C coq theories/Properties_C13.vo && coqc theories/Properties_C13.v (Print Assumptions)",
                        ["tools/translate.py (42 kernels of src/tuner.cpp, src/tuner/{util,local,surrogate,space}.cpp, src/machine/{tune,result}.cpp)",
                         "extraction: ExtrOcamlBasic, Z/nat/positive/Q extracted as inductives; ExtrOCamlFloats for the binary64 twin of the grid mapping",
                         "stage SURR: the NANO_VERIF solver_t::done hook (object = the solver state) as the observation of the inner solver's answer; "
                         "Z.sqrt for the truncated sqrt of the (exactly representable) 2 * size",
                         "ocaml/c13_driver.ml (acceptor search; verdict = one run of the extracted optimize_pick), harness/c13_tuner.cpp",
                         "std::sort returns a sorted permutation (contract, hypothesis of the theorems); order-preserving double -> Z key map"])
    cov = r.coverage
    dd = {}
    if done:
        dd = dict(kv.split("=") for kv in done[0].split()[1:])
    cov["evaluations"] = len(oplines)
    cov["correspondence_lines_checked"] = checked

    def nontrivial(l):
        if l.startswith("LS "):
            return ";" in l.split(" = ", 1)[-1]                 # more than one neighbour returned
        if l.startswith("OPT "):
            return l.split(" | ")[1].count(";") >= 2            # at least three callback batches
        if l.startswith("TUNE "):
            return "," in l.split(" | ")[1]                     # at least two batches of trials
        if l.startswith(("SGV ", "SGF ")):
            return int(l.split()[2]) >= 2                       # at least one cross term i < j
        if l.startswith("MAP "):
            return l.split(" | ")[1].count(",") >= 2            # at least three grid values
        return False

    def strip_case(l):
        return re.sub(r"case=\d+ ", "", l)
    cov["distinct_nontrivial"] = len(set(strip_case(l) for l in oplines if nontrivial(l)))
    cov["rule"] = ("cases derived from VERIF_SEED and the case index: LS = nano::local_search on random boxes (corner/outside sources, radii "
                   "0,1,2,..64,-1); OPT = one tuner_t::optimize run (local-search / surrogate) on 1..3 grids of 2..31 linear/log10 values with "
                   "a table landscape (bowl, plateau, few values, tie-free, constant, ramp, two basins, extremes, ridge, cap, checker, optional "
                   "NaN/inf), max_evals 10..1000; TUNE = one ml::tune run (0..2 grids, 2..10 folds, k-fold/random splitter, real thread pool). "
                   "distinct = different line after removing the case id; non-trivial = LS with >1 point, OPT with >=3 callback batches, "
                   "TUNE with >=2 batches; stage SURR: SGV/SGF = quadratic_surrogate_t / quadratic_surrogate_fit_t on small dyadic inputs (d 1..7, "
                   "non-trivial: d >= 2), MAP = param_space_t mapping functions on linear/log10 grids with queries at images, exact midpoints "
                   "(ties), near midpoints, inside, outside, far outside (non-trivial: >= 3 grid values); surrogate OPT lines carry the recorded "
                   "inner-solver answers")
    cov["op_histogram"] = dict(ops)
    cov["harness_counters"] = {k: int(v) for k, v in dd.items()}
    cov["acceptor"] = {k: int(v) for k, v in dstat.items()}
    cov["mismatches"] = len(mism)
    cov["impl_direct_failures"] = len(impl_fail)
    cov["samples"] = [l[:600] for l in ([x for x in oplines if x.startswith("LS ")][:2] + [x for x in oplines if x.startswith("OPT ")][:2]
                                         + [x for x in oplines if x.startswith("TUNE ")][:1] + [x for x in oplines if x.startswith("SGV ")][:1]
                                         + [x for x in oplines if x.startswith("SGF ")][:1] + [x for x in oplines if x.startswith("MAP ")][:2]
                                         + [x for x in oplines if re.match(r"OPT case=\d+ S", x)][:1])]
    cov["stage_SURR"] = {"lines_SGV_SGF_MAP": int(dstat.get("surr_lines", 0)),
                         "surrogate_runs_replayed_with_recorded_answers": int(dstat.get("surr_runs_replayed", 0)),
                         "inner_solver_answers_recorded": int(dd.get("surr_answers", 0)),
                         "answers_where_exact_rational_and_binary64_proposals_were_compared": int(dstat.get("surr_answers_exact_rational_agree", 0)),
                         "MAP_rounding_near_ties_tolerated_for_the_exact_rational_model": int(dstat.get("surr_near_ties", 0)),
                         "MAP_exact_ties": int(dd.get("map_exact_ties", 0)), "MAP_log10_spaces": int(dd.get("map_log", 0))}
    cov["exhaustive"] = False
    cov["unproved_clauses_searched"] = [
        "the vector returned by the inner LBFGS solver (fit + minimisation of the surrogate) is the remaining oracle of the surrogate tuner: "
        "it is recorded at the NANO_VERIF solver_t::done hook and the proposal is recomputed from it by the extracted binary64 twin "
        "(the tie-breaks of std::sort are still searched by the acceptor)",
        "log10 spaces: std::log10 is not modelled; the images of the grid values are taken from the run (to_surrogate of the library) "
        "and cross-checked against the harness's own std::log10",
        "the exact-rational closest-point model agrees with the code only where the rounding of |x - t| cannot matter "
        "(near-ties and |x| >= 2^60 are excluded from that comparison; the binary64 twin is compared on everything)",
        "m_param of each returned step equals the grid values at m_igrid and callback parameters lie on the grid (map_to_grid): "
        "implementation-side oracle only",
        "ml::tune passes that fold's (train, valid) indices from the splitter, stores the callback's statistics/extra under (trial, fold), "
        "the closest model comes from an earlier batch and the same fold, value(trial) is the mean over folds: implementation-side oracle "
        "under the real thread pool (the index arithmetic, slots and optimum_trial are proved)",
    ]
    r.assumptions = ["std::sort returns a sorted permutation of its input (any order among equal values)",
                     "the tuner callback returns one value per row (callback contract)",
                     "values are compared through an order-preserving map of finite doubles to integers (-0.0 = 0.0)",
                     "assertions are compiled out (NDEBUG) as in the library build",
                     "stores of different (trial, fold) tasks are atomic steps (their slots are proved disjoint)",
                     "stage SURR: exact rational arithmetic equals binary64 on the generated small dyadic inputs (checked: exact comparison on every line); "
                     "PrimFloat = IEEE binary64 of the build (sub, abs, compare, div, mul, add)"]
    return r.finish("proof")
