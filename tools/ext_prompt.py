#!/usr/bin/env python3
"""print the prompt for an extension builder: notes/AGENT_EXT_PROMPT.md with the goal of notes/ext_goals/<PID>[-tag].txt
usage: ext_prompt.py <PID> [goal file]"""
import os
import sys

ROOT = os.path.dirname(os.path.dirname(os.path.abspath(__file__)))
pid = sys.argv[1].upper()
gf = sys.argv[2] if len(sys.argv) > 2 else os.path.join(ROOT, "notes", "ext_goals", pid + ".txt")
txt = open(os.path.join(ROOT, "notes", "AGENT_EXT_PROMPT.md")).read()
print(txt.replace("{PID}", pid).replace("{pid}", pid.lower()).replace("{GOAL}", open(gf).read()))
