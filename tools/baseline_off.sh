#!/bin/sh
# runs the repository's own test-suite with the hook guard OFF (plain baseline build)
set -e
cd /repo
cmake -G Ninja -S /repo -B /repo/_build -DCMAKE_BUILD_TYPE=RelWithDebInfo -DCMAKE_CXX_FLAGS=-Wno-error >/dev/null
cmake --build /repo/_build -j16 >/dev/null
ctest --test-dir /repo/_build -j8 --timeout 900
