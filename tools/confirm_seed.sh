#!/bin/bash
# confirm a seeded breaking change: compiles, the repository's tests pass, its demo fails with it and passes without it,
# then run our check against it. usage: confirm_seed.sh <seed dir with patch.diff, demo.sh> <PID> [more PIDs]
# keeps one persistent scratch worktree + build under /tmp/confirm-wt (remove it when done with all seeds).
set -u
SEED=$(realpath "$1"); shift
WT=${CONFIRM_WT:-/tmp/confirm-wt}
if [ ! -d $WT ]; then
  git -C /repo worktree add -q $WT HEAD || exit 2
  GIT_DIR=$(git -C $WT rev-parse --absolute-git-dir) cmake -G Ninja -S $WT -B $WT/_b -DCMAKE_BUILD_TYPE=RelWithDebInfo -DCMAKE_CXX_FLAGS=-Wno-error > /dev/null || exit 2
fi
cd $WT && git checkout -q -- . && git clean -fdq -e _b
# keep the scratch tree at /repo's HEAD
git -C $WT checkout -q --detach $(git -C /repo rev-parse HEAD)
echo "== baseline (no patch): build + demo"
cmake --build $WT/_b -j12 > $WT.build.log 2>&1 || { tail -5 $WT.build.log; exit 2; }
( cd $SEED && bash ./demo.sh $WT/_b $WT ) > $WT.demo0.log 2>&1; d0=$?
echo "demo without patch: exit $d0"
echo "== with patch"
git -C $WT apply $SEED/patch.diff || { echo "patch does not apply"; exit 2; }
cmake --build $WT/_b -j12 > $WT.build.log 2>&1 || { echo "DOES NOT COMPILE"; tail -5 $WT.build.log; git -C $WT checkout -q -- .; exit 1; }
ctest --test-dir $WT/_b -j8 --timeout 900 > $WT.ctest.log 2>&1
failed=$(grep -E "^\s+[0-9]+ - " $WT.ctest.log | grep -v "test_program_linear\|test_program_quadratic" | tr -s ' ' | tr '\n' ';')
echo "repo tests failing with patch (flaky program tests ignored): ${failed:-none}"
( cd $SEED && bash ./demo.sh $WT/_b $WT ) > $WT.demo1.log 2>&1; d1=$?
echo "demo with patch: exit $d1"
ALT=$(cd /verif && VERIF_REPO=$WT python3 -c "import sys;sys.path.insert(0,'tools');import vlib;print(vlib.WORK)")
rm -rf "$ALT/coq/generated" "$ALT/replays" 2>/dev/null
for pid in "$@"; do
  out=$(cd /verif && VERIF_REPO=$WT ./check $pid --tier quick 2>&1); rc=$?
  echo "check $pid with patch: rc=$rc"; echo "$out" | grep "VIOLATION\|KNOWN" | head -4
done
git -C $WT checkout -q -- .
