#!/usr/bin/env python3
"""seed_meta_from_log.py <PID>/<k> [history]: reads /tmp/vlog/confirm_<PID>_<k>.log and records the outcome in the seed's meta.json"""
import json
import re
import subprocess
import sys

item = sys.argv[1]
pid, k = item.split("/")
log = open("/tmp/vlog/confirm_%s_%s.log" % (pid, k)).read()
rc = re.search(r"check %s with patch: rc=(\d+)" % pid, log)
demo0 = re.search(r"demo without patch: exit (\d+)", log)
demo1 = re.search(r"demo with patch: exit (\d+)", log)
tests = re.search(r"repo tests failing with patch \(flaky program tests ignored\): (.*)", log)
assert rc and demo0 and demo1 and tests, "incomplete log for " + item
assert demo0.group(1) == "0" and demo1.group(1) != "0", "demo does not discriminate: " + item
tags = []
for m in re.finditer(r"VIOLATION property=%s replay=\S*/%s-\d+-(\S+?)\.json( no-failing-input-found)?" % (pid, pid), log):
    tags.append(m.group(1) + (" (no-failing-input-found)" if m.group(2) else ""))
res = "exit 1 (VIOLATION)" if rc.group(1) == "1" else "exit 0 (MISSED)"
caught = ("replays: " + ", ".join(dict.fromkeys(tags))) if tags else "nothing"
args = ["python3", "tools/seed_meta.py", "seeded/%s/%s" % (pid, k), res, caught + "; repo tests failing with the patch: " + tests.group(1).strip()]
if len(sys.argv) > 2:
    args.append(sys.argv[2])
subprocess.check_call(args)
print(item, res, caught)
