"""Source -> Gallina translator for small pure integer kernels of libnano.

Each kernel is located in /repo's *current working tree* by (file, anchor regex). The captured C++
expression is first normalised by the kernel's atom table (sub-expressions such as
`product<idim + 1>(dims)` that denote values supplied by the surrounding model become named
variables), then parsed by a small C-expression parser (integer literals, identifiers, unary - !,
* / % + -, comparisons, && ||, ?:, calls to std::min/std::max/idiv/iround, static_cast<..>(e)) and
emitted as a Gallina definition over Z with C semantics (/ = Z.quot, % = Z.rem, truncation toward
zero; wrap-around is not modelled, the theorems bound their arguments).

If an anchor no longer matches or the expression leaves the accepted subset the translator raises
TranslateError: that is a broken tie, handled by the violation protocol.

The generated files live in coq/generated/Src_<group>.v and are imported by the hand-written models,
so every proof is re-checked against what the code says now.
"""
import os
import re

REPO = os.path.realpath(os.environ.get("VERIF_REPO", "/repo"))
ROOT = os.path.dirname(os.path.dirname(os.path.abspath(__file__)))
GEN = os.path.join(ROOT, "coq", "generated")   # overridden by vlib for alternate trees


class TranslateError(Exception):
    pass


# ------------------------------------------------------------------------------------------------
# mini C expression parser
# ------------------------------------------------------------------------------------------------
TOK = re.compile(r"\s*(?:(\d+)[uUlL]*|([A-Za-z_][\w]*(?:::[A-Za-z_]\w*)*)|(<=|>=|==|!=|&&|\|\||[-+*/%<>!?:(),]))")


def tokenize(s):
    pos, out = 0, []
    s = s.strip()
    while pos < len(s):
        m = TOK.match(s, pos)
        if not m:
            raise TranslateError("cannot tokenize %r at %r" % (s, s[pos:pos + 20]))
        if m.group(1) is not None:
            out.append(("num", m.group(1)))
        elif m.group(2) is not None:
            out.append(("id", m.group(2)))
        else:
            out.append(("op", m.group(3)))
        pos = m.end()
    return out


class P:
    def __init__(self, toks):
        self.t = toks
        self.i = 0

    def peek(self):
        return self.t[self.i] if self.i < len(self.t) else ("eof", "")

    def eat(self, kind=None, val=None):
        k, v = self.peek()
        if (kind and k != kind) or (val and v != val):
            raise TranslateError("expected %s %s, got %s %s" % (kind, val, k, v))
        self.i += 1
        return v

    def expr(self):
        c = self.lor()
        if self.peek() == ("op", "?"):
            self.eat()
            a = self.expr()
            self.eat("op", ":")
            b = self.expr()
            return ("ite", c, a, b)
        return c

    def binl(self, sub, ops):
        a = sub()
        while self.peek()[0] == "op" and self.peek()[1] in ops:
            o = self.eat()
            b = sub()
            a = ("bin", o, a, b)
        return a

    def lor(self):
        return self.binl(self.land, ("||",))

    def land(self):
        return self.binl(self.eq, ("&&",))

    def eq(self):
        return self.binl(self.rel, ("==", "!="))

    def rel(self):
        return self.binl(self.add, ("<", "<=", ">", ">="))

    def add(self):
        return self.binl(self.mul, ("+", "-"))

    def mul(self):
        return self.binl(self.unary, ("*", "/", "%"))

    def unary(self):
        k, v = self.peek()
        if k == "op" and v == "-":
            self.eat()
            return ("neg", self.unary())
        if k == "op" and v == "!":
            self.eat()
            return ("not", self.unary())
        if k == "op" and v == "+":
            self.eat()
            return self.unary()
        return self.atom()

    def atom(self):
        k, v = self.peek()
        if k == "num":
            self.eat()
            return ("num", int(v))
        if k == "op" and v == "(":
            self.eat()
            e = self.expr()
            self.eat("op", ")")
            return e
        if k == "id":
            self.eat()
            if self.peek() == ("op", "("):
                self.eat()
                args = []
                if self.peek() != ("op", ")"):
                    args.append(self.expr())
                    while self.peek() == ("op", ","):
                        self.eat()
                        args.append(self.expr())
                self.eat("op", ")")
                return ("call", v, args)
            return ("var", v)
        raise TranslateError("unexpected token %s %s" % (k, v))


def parse(s):
    p = P(tokenize(s))
    e = p.expr()
    if p.peek()[0] != "eof":
        raise TranslateError("trailing tokens in %r" % s)
    return e


BOOL_OPS = {"<": "Z.ltb", "<=": "Z.leb", ">": "Z.gtb", ">=": "Z.geb", "==": "Z.eqb"}


def emit(e, vars_):
    """returns (gallina, type) with type in {'Z','bool'}"""
    k = e[0]
    if k == "num":
        return "%d" % e[1], "Z"
    if k == "var":
        if e[1] == "true":
            return "true", "bool"
        if e[1] == "false":
            return "false", "bool"
        if e[1] not in vars_:
            raise TranslateError("unknown identifier %s" % e[1])
        return e[1], vars_[e[1]]
    if k == "neg":
        a, t = emit(e[1], vars_)
        need(t, "Z")
        return "(- %s)" % a, "Z"
    if k == "not":
        a, t = emit(e[1], vars_)
        need(t, "bool")
        return "(negb %s)" % a, "bool"
    if k == "ite":
        c, tc = emit(e[1], vars_)
        need(tc, "bool")
        a, ta = emit(e[2], vars_)
        b, tb = emit(e[3], vars_)
        need(tb, ta)
        return "(if %s then %s else %s)" % (c, a, b), ta
    if k == "call":
        f = e[1]
        args = [emit(a, vars_) for a in e[2]]
        if f in ("std::min", "std::max") and len(args) == 2:
            need(args[0][1], "Z"), need(args[1][1], "Z")
            return "(Z.%s %s %s)" % (f[5:], args[0][0], args[1][0]), "Z"
        if f in ("idiv", "nano::idiv") and len(args) == 2:
            return "(src_idiv %s %s)" % (args[0][0], args[1][0]), "Z"
        if f in ("iround", "nano::iround") and len(args) == 2:
            return "(src_iround %s %s)" % (args[0][0], args[1][0]), "Z"
        raise TranslateError("call to %s/%d outside the accepted subset" % (f, len(args)))
    if k == "bin":
        o = e[1]
        a, ta = emit(e[2], vars_)
        b, tb = emit(e[3], vars_)
        if o in ("+", "-", "*"):
            need(ta, "Z"), need(tb, "Z")
            return "(%s %s %s)" % (a, o, b), "Z"
        if o == "/":
            need(ta, "Z"), need(tb, "Z")
            return "(Z.quot %s %s)" % (a, b), "Z"
        if o == "%":
            need(ta, "Z"), need(tb, "Z")
            return "(Z.rem %s %s)" % (a, b), "Z"
        if o in BOOL_OPS:
            need(ta, "Z"), need(tb, "Z")
            return "(%s %s %s)" % (BOOL_OPS[o], a, b), "bool"
        if o == "!=":
            need(ta, "Z"), need(tb, "Z")
            return "(negb (Z.eqb %s %s))" % (a, b), "bool"
        if o == "&&":
            need(ta, "bool"), need(tb, "bool")
            return "(andb %s %s)" % (a, b), "bool"
        if o == "||":
            need(ta, "bool"), need(tb, "bool")
            return "(orb %s %s)" % (a, b), "bool"
    raise TranslateError("cannot emit %r" % (e,))


def need(t, want):
    if t != want:
        raise TranslateError("type mismatch: %s where %s expected" % (t, want))


# ------------------------------------------------------------------------------------------------
# kernel table
# ------------------------------------------------------------------------------------------------
CAST = r"static_cast<\s*(?:tensor_size_t|int64_t|size_t|int|tinteger|tnominator|tdenominator|std::size_t|uint32_t|uint8_t)\s*>"


def K(name, file, anchor, atoms, args, group, props, flags=re.S, pick=0, wrap=None):
    """wrap: optional template with one `{}` into which the captured text is placed before parsing
    (e.g. "begin + ({})" for the right-hand side of `begin += ...`)"""
    return dict(name=name, file=file, anchor=anchor, atoms=atoms, args=args, group=group, props=props,
                flags=flags, pick=pick, wrap=wrap)


KERNELS = []


def load_kernels():
    """kernel tables live in tools/kernels/<name>.py (one file per property group, to keep edits apart);
    each defines KERNELS = [K(...), ...] using K and CAST from this module"""
    import glob
    import importlib.util
    KERNELS.clear()
    for f in sorted(glob.glob(os.path.join(ROOT, "tools", "kernels", "*.py"))):
        spec = importlib.util.spec_from_file_location("kernels_" + os.path.basename(f)[:-3], f)
        mod = importlib.util.module_from_spec(spec)
        mod.K, mod.CAST = K, CAST
        spec.loader.exec_module(mod)
        KERNELS.extend(mod.KERNELS)


RENAME = {"end": "end_"}


def extract(k):
    path = os.path.join(REPO, k["file"])
    try:
        src = open(path).read()
    except OSError as ex:
        raise TranslateError("%s: cannot read %s (%s)" % (k["name"], k["file"], ex))
    # drop comments
    src = re.sub(r"//[^\n]*", "", src)
    src = re.sub(r"/\*.*?\*/", "", src, flags=re.S)
    ms = list(re.finditer(k["anchor"], src, k["flags"]))
    if len(ms) <= k["pick"]:
        raise TranslateError("%s: anchor not found in %s" % (k["name"], k["file"]))
    expr = ms[k["pick"]].group(1)
    expr = " ".join(expr.split())
    raw = expr
    if k.get("wrap"):
        expr = k["wrap"].format(expr)
    for pat, rep in k["atoms"]:
        expr = re.sub(pat, rep, expr)
    for a, b in RENAME.items():
        expr = re.sub(r"\b%s\b" % a, b, expr)
    return raw, expr


def translate_kernel(k):
    raw, expr = extract(k)
    try:
        ast = parse(expr)
        body, ty = emit(ast, dict(k["args"]))
    except TranslateError as ex:
        raise TranslateError("%s: %s (expression `%s` in %s)" % (k["name"], ex, raw, k["file"]))
    args = " ".join("(%s : %s)" % a for a in k["args"])
    return "(* %s: `%s` *)\nDefinition %s %s : %s := %s.\n" % (k["file"], raw.replace("*)", "* )"), k["name"], args, ty, body)


def run(pid=None):
    """regenerate every group touched by property pid (all groups if None); returns kernel names"""
    global GEN
    try:
        import vlib
        GEN = os.path.join(vlib.COQ, "generated")
    except ImportError:
        pass
    load_kernels()
    groups = {}
    for k in KERNELS:
        groups.setdefault(k["group"], []).append(k)
    done, errors = [], []
    os.makedirs(GEN, exist_ok=True)
    for g, ks in sorted(groups.items()):
        # every group is regenerated on every run (cheap; a model may import another property's kernels);
        # only failures of kernels that serve `pid` are errors of this run
        mine = pid is None or any(pid in k["props"] for k in ks)
        parts = ["(* GENERATED by tools/translate.py from /repo's working tree -- do not edit *)\n"
                 "From Coq Require Import ZArith Bool.\n"]
        if g != "numeric":
            parts.append("From LNGen Require Import Src_numeric.\n")
        parts.append("Local Open Scope Z_scope.\n")
        failed = False
        for k in ks:
            try:
                parts.append(translate_kernel(k))
                if pid is None or pid in k["props"]:
                    done.append(k["name"])
            except TranslateError as ex:
                if mine:
                    errors.append(str(ex))
                failed = True
        if failed:
            # keep the last good file so the remaining development (extracted model, driver, correspondence, search) still
            # builds; an alternate tree (VERIF_REPO) starts with an empty `generated`: take the main tree's last good file
            path = os.path.join(GEN, "Src_%s.v" % g)
            main = os.path.join(os.path.dirname(os.path.dirname(os.path.abspath(__file__))), "coq", "generated", "Src_%s.v" % g)
            if not os.path.exists(path) and os.path.exists(main) and os.path.abspath(main) != os.path.abspath(path):
                open(path, "w").write(open(main).read())
            continue
        txt = "\n".join(parts)
        path = os.path.join(GEN, "Src_%s.v" % g)
        if not os.path.exists(path) or open(path).read() != txt:
            open(path, "w").write(txt)
    if errors:
        raise TranslateError("; ".join(errors))
    return done


if __name__ == "__main__":
    import sys
    print(run(sys.argv[1] if len(sys.argv) > 1 else None))
